module verif

go 1.25.6

require github.com/DataDog/datadog-traceroute v0.0.0

replace github.com/DataDog/datadog-traceroute => /repo
