// vinstr instruments the repository's sources for the controlled scheduler by
// generating a build overlay (DESIGN.md E2). Nothing under the repository is
// modified. It is regenerated from the current working tree by every check.
//
// usage: vinstr -repo /repo -out DIR
// writes DIR/overlay.json, DIR/go.mod, DIR/go.sum, DIR/src/... and DIR/deps/...
package main

import (
	"bytes"
	"encoding/json"
	"flag"
	"fmt"
	"go/ast"
	"go/build"
	"go/format"
	"go/importer"
	"go/parser"
	"go/token"
	"go/types"
	"io"
	"os"
	"path/filepath"
	"regexp"
	"sort"
	"strings"
)

var instrumentedPkgs = []string{"common", "icmp", "udp", "tcp", "sack", "packets", "traceroute", "reversedns", "publicip", "cache", "result", "server", "log"}

type rule struct {
	shimPath  string
	shimName  string
	selectors map[string]bool
}

func set(names ...string) map[string]bool {
	m := map[string]bool{}
	for _, n := range names {
		m[n] = true
	}
	return m
}

var randFuncs = set("Uint32", "Float64", "Uint64", "Int63", "Int31", "Int", "Int64", "Int32", "Intn", "IntN", "Int63n", "Int31n", "Int64N", "Int32N", "Uint32N", "Uint64N", "UintN", "Float32", "Seed", "Shuffle", "Perm")

var rules = map[string]*rule{
	"sync":                       {"verif/shim/vsync", "vsync", set("Mutex", "RWMutex", "Once", "WaitGroup", "Cond", "NewCond")},
	"sync/atomic":                {"verif/shim/vatomic", "vatomic", set("Uint32", "Int32", "Uint64", "Int64", "Bool", "Pointer", "Value", "Uintptr", "SwapUint32", "SwapInt32", "SwapUint64", "SwapInt64", "AddUint32", "AddInt32", "AddUint64", "AddInt64", "LoadUint32", "LoadInt32", "LoadUint64", "LoadInt64", "StoreUint32", "StoreInt32", "StoreUint64", "StoreInt64", "CompareAndSwapUint32", "CompareAndSwapInt32", "CompareAndSwapUint64", "CompareAndSwapInt64")},
	"time":                       {"verif/shim/vtime", "vtime", set("Now", "Since", "Until", "Sleep", "After", "NewTimer", "AfterFunc", "NewTicker", "Tick", "Timer", "Ticker")},
	"context":                    {"verif/shim/vctx", "vctx", set("Background", "TODO", "WithCancel", "WithCancelCause", "WithDeadline", "WithDeadlineCause", "WithTimeout", "WithTimeoutCause", "Cause", "WithValue", "WithoutCancel", "AfterFunc")},
	"golang.org/x/sync/errgroup": {"verif/shim/verrgroup", "verrgroup", set("Group", "WithContext")},
	"math/rand":                  {"verif/shim/vrand", "vrand", randFuncs},
	"math/rand/v2":               {"verif/shim/vrand", "vrand", randFuncs},
	"net":                        {"verif/shim/vnet", "vnet", set("Dialer")},
}

// unsupported selectors of instrumented packages: fail loudly rather than run un-modelled code
var unsupported = map[string]map[string]bool{}

type options struct {
	onlyTimeNow bool // go-cache: only time.Now is redirected
	noChan      bool
	// chanRanges: ordinals (in source order, among the file's range statements) of the `for ... range ch` loops over a
	// channel, found by type-checking the package (rangeOverChannels)
	chanRanges map[int]bool
}

func fatalf(f string, a ...any) {
	fmt.Fprintf(os.Stderr, "vinstr: "+f+"\n", a...)
	os.Exit(2)
}

type fileInstr struct {
	fset     *token.FileSet
	f        *ast.File
	imports  map[string]string // local name -> path
	used     map[string]bool   // shim import paths used
	needSch  bool
	skipComm map[ast.Node]bool
	doneSend map[ast.Node]bool // send statements that are already in their final form
	rangeOrd map[*ast.RangeStmt]int
	path     string
	opt      options
	changed  bool
	tmpN     int
}

func (fi *fileInstr) sel(pkg, name string, pos token.Pos) *ast.SelectorExpr {
	return &ast.SelectorExpr{X: &ast.Ident{Name: pkg, NamePos: pos}, Sel: &ast.Ident{Name: name, NamePos: pos}}
}

func (fi *fileInstr) vs(name string, pos token.Pos) *ast.SelectorExpr {
	fi.needSch = true
	fi.changed = true
	return fi.sel("vsched", name, pos)
}

func instrumentFile(path string, src []byte, opt options) ([]byte, bool, error) {
	fset := token.NewFileSet()
	f, err := parser.ParseFile(fset, path, src, parser.ParseComments)
	if err != nil {
		return nil, false, err
	}
	fi := &fileInstr{fset: fset, f: f, imports: map[string]string{}, used: map[string]bool{}, skipComm: map[ast.Node]bool{}, doneSend: map[ast.Node]bool{}, rangeOrd: map[*ast.RangeStmt]int{}, path: path, opt: opt}
	for _, im := range f.Imports {
		p := strings.Trim(im.Path.Value, `"`)
		name := filepath.Base(p)
		if p == "math/rand/v2" {
			name = "rand"
		}
		if im.Name != nil {
			name = im.Name.Name
		}
		fi.imports[name] = p
	}
	for name := range fi.imports {
		if name == "vsched" || strings.HasPrefix(name, "vs") && rulesHasShim(name) {
			return nil, false, fmt.Errorf("%s: import name %q collides with a shim name", path, name)
		}
	}

	// 1. statement-level rewrites (go, select, send, range over a channel)
	if !opt.noChan {
		ord := 0
		ast.Inspect(f, func(n ast.Node) bool {
			if r, ok := n.(*ast.RangeStmt); ok {
				fi.rangeOrd[r] = ord
				ord++
			}
			return true
		})
		ast.Inspect(f, func(n ast.Node) bool {
			switch x := n.(type) {
			case *ast.BlockStmt:
				x.List = fi.rewriteList(x.List)
			case *ast.CaseClause:
				x.Body = fi.rewriteList(x.Body)
			case *ast.CommClause:
				x.Body = fi.rewriteList(x.Body)
			case *ast.LabeledStmt:
				if r := fi.rewriteStmt(x.Stmt); r != nil {
					x.Stmt = r
				}
			}
			return true
		})
	}
	// 2. expression-level rewrites (in place)
	var walkErr error
	ast.Inspect(f, func(n ast.Node) bool {
		if n == nil {
			return true
		}
		if fi.skipComm[n] {
			// still rename selectors inside, but do not wrap the receive itself
			fi.renameOnly(n)
			return false
		}
		switch x := n.(type) {
		case *ast.SelectorExpr:
			fi.renameSel(x)
		case *ast.UnaryExpr:
			if x.Op == token.ARROW && !opt.noChan {
				x.X = &ast.CallExpr{Fun: fi.vs("RecvCh", x.Pos()), Args: []ast.Expr{x.X}}
			}
		case *ast.CallExpr:
			if id, ok := x.Fun.(*ast.Ident); ok && id.Name == "close" && id.Obj == nil && len(x.Args) == 1 && !opt.noChan {
				x.Fun = fi.vs("Close", id.Pos())
			}
		case *ast.RangeStmt:
			// `for v := range ch` cannot be recognised without types; a range over a call/ident named like a channel is not rewritten
		case *ast.GoStmt:
			if !opt.noChan {
				walkErr = fmt.Errorf("%s: go statement in an unsupported position (line %d)", path, fset.Position(x.Pos()).Line)
			}
		case *ast.SelectStmt:
			if !opt.noChan {
				walkErr = fmt.Errorf("%s: select statement in an unsupported position (line %d)", path, fset.Position(x.Pos()).Line)
			}
		}
		return true
	})
	if walkErr != nil {
		return nil, false, walkErr
	}
	if !fi.changed {
		return src, false, nil
	}
	// 3. imports: add shim imports, keep originals referenced by a blank use
	var newImports []ast.Spec
	paths := []string{}
	for p := range fi.used {
		paths = append(paths, p)
	}
	if fi.needSch {
		paths = append(paths, "verif/vsched")
	}
	sort.Strings(paths)
	for _, p := range paths {
		newImports = append(newImports, &ast.ImportSpec{Path: &ast.BasicLit{Kind: token.STRING, Value: `"` + p + `"`}})
	}
	var buf bytes.Buffer
	// print the file, then splice the extra import block after the package clause textually
	if err := format.Node(&buf, fset, f); err != nil {
		return nil, false, fmt.Errorf("%s: print: %w", path, err)
	}
	out := buf.String()
	var extra strings.Builder
	extra.WriteString("\nimport (\n")
	for _, p := range paths {
		fmt.Fprintf(&extra, "\t%q\n", p)
	}
	extra.WriteString(")\n")
	// blank uses so that original imports stay used
	var keep strings.Builder
	names := []string{}
	for name := range fi.imports {
		names = append(names, name)
	}
	sort.Strings(names)
	for _, name := range names {
		p := fi.imports[name]
		switch p {
		case "sync":
			fmt.Fprintf(&keep, "var _ %s.Locker\n", name)
		case "sync/atomic":
			fmt.Fprintf(&keep, "var _ = %s.LoadInt32\n", name)
		case "time":
			fmt.Fprintf(&keep, "var _ %s.Duration\n", name)
		case "context":
			fmt.Fprintf(&keep, "var _ %s.Context\n", name)
		case "golang.org/x/sync/errgroup":
			fmt.Fprintf(&keep, "var _ *%s.Group\n", name)
		case "math/rand":
			fmt.Fprintf(&keep, "var _ = %s.New\n", name)
		case "math/rand/v2":
			fmt.Fprintf(&keep, "var _ = %s.New\n", name)
		case "net":
			fmt.Fprintf(&keep, "var _ %s.IP\n", name)
		}
	}
	idx := strings.Index(out, "\npackage ")
	if strings.HasPrefix(out, "package ") {
		idx = -1
	}
	start := idx + 1
	eol := strings.Index(out[start:], "\n")
	if eol < 0 {
		return nil, false, fmt.Errorf("%s: no package clause?", path)
	}
	cut := start + eol + 1
	out = out[:cut] + extra.String() + out[cut:] + "\n" + keep.String()
	res, err := format.Source([]byte(out))
	if err != nil {
		return nil, false, fmt.Errorf("%s: reformat: %w\n%s", path, err, out)
	}
	return res, true, nil
}

func rulesHasShim(name string) bool {
	for _, r := range rules {
		if r.shimName == name {
			return true
		}
	}
	return false
}

func (fi *fileInstr) renameOnly(n ast.Node) {
	ast.Inspect(n, func(m ast.Node) bool {
		if s, ok := m.(*ast.SelectorExpr); ok {
			fi.renameSel(s)
		}
		if c, ok := m.(*ast.CallExpr); ok {
			if id, ok := c.Fun.(*ast.Ident); ok && id.Name == "close" && id.Obj == nil && len(c.Args) == 1 && !fi.opt.noChan {
				c.Fun = fi.vs("Close", id.Pos())
			}
		}
		return true
	})
}

func (fi *fileInstr) renameSel(x *ast.SelectorExpr) {
	id, ok := x.X.(*ast.Ident)
	if !ok || id.Obj != nil {
		return
	}
	p, ok := fi.imports[id.Name]
	if !ok {
		return
	}
	r := rules[p]
	if r == nil || !r.selectors[x.Sel.Name] {
		return
	}
	if fi.opt.onlyTimeNow && !(p == "time" && x.Sel.Name == "Now") {
		return
	}
	id.Name = r.shimName
	fi.used[r.shimPath] = true
	fi.changed = true
}

func (fi *fileInstr) rewriteList(list []ast.Stmt) []ast.Stmt {
	for i, s := range list {
		if r := fi.rewriteStmt(s); r != nil {
			list[i] = r
		}
	}
	return list
}

var tmpCounter int

func (fi *fileInstr) rewriteStmt(s ast.Stmt) ast.Stmt {
	switch x := s.(type) {
	case *ast.GoStmt:
		// go f(a, b)  =>  { __a0 := a; __a1 := b; vsched.Go(func() { f(__a0, __a1) }) }
		pos := x.Pos()
		call := x.Call
		var pre []ast.Stmt
		// evaluate the function value too unless it is a literal or a plain (possibly qualified) name
		switch fn := call.Fun.(type) {
		case *ast.FuncLit, *ast.Ident:
		case *ast.SelectorExpr:
			// method value or package function: evaluate receiver expression now if it is not a plain identifier chain
			_ = fn
		default:
			tmpCounter++
			name := fmt.Sprintf("__vf%d", tmpCounter)
			pre = append(pre, &ast.AssignStmt{Lhs: []ast.Expr{ast.NewIdent(name)}, Tok: token.DEFINE, Rhs: []ast.Expr{call.Fun}})
			call.Fun = ast.NewIdent(name)
		}
		for i, a := range call.Args {
			if _, isLit := a.(*ast.BasicLit); isLit {
				continue
			}
			tmpCounter++
			name := fmt.Sprintf("__va%d", tmpCounter)
			pre = append(pre, &ast.AssignStmt{Lhs: []ast.Expr{ast.NewIdent(name)}, Tok: token.DEFINE, Rhs: []ast.Expr{a}})
			call.Args[i] = ast.NewIdent(name)
		}
		if call.Ellipsis != token.NoPos {
			// f(xs...) keeps working: the last temp is the slice
		}
		lit := &ast.FuncLit{Type: &ast.FuncType{Func: pos, Params: &ast.FieldList{}}, Body: &ast.BlockStmt{Lbrace: pos, List: []ast.Stmt{&ast.ExprStmt{X: call}}}}
		goCall := &ast.ExprStmt{X: &ast.CallExpr{Fun: fi.vs("Go", pos), Args: []ast.Expr{lit}}}
		if len(pre) == 0 {
			return goCall
		}
		return &ast.BlockStmt{Lbrace: pos, List: append(pre, goCall)}
	case *ast.RangeStmt:
		// for v := range ch { body }  =>  for _vrN := ch; ; { v, _vokN := <-vsched.RecvCh(_vrN); if !_vokN { break }; body }
		// (a for statement again, so a label and the body's break / continue keep their meaning)
		if !fi.opt.chanRanges[fi.rangeOrd[x]] || x.Value != nil {
			return nil
		}
		fi.tmpN++
		ch := ast.NewIdent(fmt.Sprintf("_vr%d", fi.tmpN))
		okv := ast.NewIdent(fmt.Sprintf("_vok%d", fi.tmpN))
		recv := &ast.UnaryExpr{OpPos: x.Pos(), Op: token.ARROW, X: ast.NewIdent(ch.Name)}
		var first []ast.Stmt
		lhs0 := ast.Expr(ast.NewIdent("_"))
		if x.Key != nil {
			lhs0 = x.Key
		}
		if x.Key != nil && x.Tok == token.ASSIGN {
			first = append(first, &ast.DeclStmt{Decl: &ast.GenDecl{Tok: token.VAR, Specs: []ast.Spec{&ast.ValueSpec{Names: []*ast.Ident{ast.NewIdent(okv.Name)}, Type: ast.NewIdent("bool")}}}})
			first = append(first, &ast.AssignStmt{Lhs: []ast.Expr{lhs0, ast.NewIdent(okv.Name)}, Tok: token.ASSIGN, Rhs: []ast.Expr{recv}})
		} else {
			first = append(first, &ast.AssignStmt{Lhs: []ast.Expr{lhs0, ast.NewIdent(okv.Name)}, Tok: token.DEFINE, Rhs: []ast.Expr{recv}})
		}
		first = append(first, &ast.IfStmt{If: x.Pos(), Cond: &ast.UnaryExpr{Op: token.NOT, X: ast.NewIdent(okv.Name)}, Body: &ast.BlockStmt{List: []ast.Stmt{&ast.BranchStmt{Tok: token.BREAK}}}})
		x.Body.List = append(first, x.Body.List...)
		fi.changed = true
		fi.used["verif/vsched"] = true
		return &ast.ForStmt{For: x.For, Init: &ast.AssignStmt{Lhs: []ast.Expr{ch}, Tok: token.DEFINE, Rhs: []ast.Expr{x.X}}, Body: x.Body}
	case *ast.SendStmt:
		// ch <- v  =>  { vsched.SendCh(ch) <- v; vsched.SendDone() }   (SendDone parks the sender of an unbuffered channel)
		if fi.doneSend[x] {
			return nil
		}
		fi.doneSend[x] = true
		x.Chan = &ast.CallExpr{Fun: fi.vs("SendCh", x.Pos()), Args: []ast.Expr{x.Chan}}
		return &ast.BlockStmt{Lbrace: x.Pos(), List: []ast.Stmt{x, &ast.ExprStmt{X: &ast.CallExpr{Fun: fi.vs("SendDone", x.Pos())}}}}
	case *ast.SelectStmt:
		pos := x.Pos()
		hasDefault := "false"
		var chans []ast.Expr
		var clauses []ast.Stmt
		var pre []ast.Stmt
		// Go evaluates every channel operand (and every value to send) exactly once, on entering the select: operands that
		// are not plain names are hoisted into temporaries so that the comm statement inside the case uses the same channel
		hoist := func(e ast.Expr) ast.Expr {
			pure := true
			ast.Inspect(e, func(n ast.Node) bool {
				switch n.(type) {
				case *ast.CallExpr, *ast.UnaryExpr, *ast.IndexExpr, *ast.FuncLit:
					pure = false
				}
				return pure
			})
			if pure {
				return e
			}
			fi.tmpN++
			id := ast.NewIdent(fmt.Sprintf("_vsel%d", fi.tmpN))
			pre = append(pre, &ast.AssignStmt{Lhs: []ast.Expr{id}, Tok: token.DEFINE, Rhs: []ast.Expr{e}})
			return ast.NewIdent(id.Name)
		}
		idx := 0
		for _, c := range x.Body.List {
			cc := c.(*ast.CommClause)
			if cc.Comm == nil {
				hasDefault = "true"
				clauses = append(clauses, &ast.CaseClause{Case: cc.Case, Body: cc.Body})
				continue
			}
			var chExpr ast.Expr
			var sendDone ast.Stmt
			switch cm := cc.Comm.(type) {
			case *ast.ExprStmt:
				if u, ok := cm.X.(*ast.UnaryExpr); ok && u.Op == token.ARROW {
					u.X = hoist(u.X)
					chExpr = u.X
					u.X = &ast.CallExpr{Fun: fi.vs("RecvNow", u.Pos()), Args: []ast.Expr{chExpr}}
				}
			case *ast.AssignStmt:
				if len(cm.Rhs) == 1 {
					if u, ok := cm.Rhs[0].(*ast.UnaryExpr); ok && u.Op == token.ARROW {
						u.X = hoist(u.X)
						chExpr = u.X
						u.X = &ast.CallExpr{Fun: fi.vs("RecvNow", u.Pos()), Args: []ast.Expr{chExpr}}
					}
				}
			case *ast.SendStmt:
				cm.Chan = hoist(cm.Chan)
				cm.Value = hoist(cm.Value)
				chExpr = &ast.CallExpr{Fun: fi.vs("SendCase", cm.Pos()), Args: []ast.Expr{cm.Chan}}
				cm.Chan = &ast.CallExpr{Fun: fi.vs("SendNowCh", cm.Pos()), Args: []ast.Expr{cm.Chan}}
				fi.doneSend[cm] = true
				sendDone = &ast.ExprStmt{X: &ast.CallExpr{Fun: fi.vs("SendNowDone", cm.Pos())}}
			}
			if chExpr == nil {
				fatalf("%s: unsupported select communication at line %d", fi.path, fi.fset.Position(cc.Pos()).Line)
			}
			fi.skipComm[cc.Comm] = true
			chans = append(chans, chExpr)
			body := []ast.Stmt{cc.Comm}
			if sendDone != nil {
				body = append(body, sendDone)
			}
			body = append(body, cc.Body...)
			// `v := <-ch` with v unused would not compile differently than before; keep as is
			clauses = append(clauses, &ast.CaseClause{Case: cc.Case, List: []ast.Expr{&ast.BasicLit{Kind: token.INT, Value: fmt.Sprint(idx)}}, Body: body})
			idx++
		}
		if hasDefault == "false" {
			// a select whose every case ends in a terminating statement is itself terminating; the switch that replaces it
			// is only when it has a default clause
			clauses = append(clauses, &ast.CaseClause{Case: x.Body.Rbrace, Body: []ast.Stmt{&ast.ExprStmt{X: &ast.CallExpr{Fun: ast.NewIdent("panic"), Args: []ast.Expr{&ast.BasicLit{Kind: token.STRING, Value: `"vsched: select chose no case"`}}}}}})
		}
		args := append([]ast.Expr{ast.NewIdent(hasDefault)}, chans...)
		sw := &ast.SwitchStmt{Switch: pos, Tag: &ast.CallExpr{Fun: fi.vs("Select", pos), Args: args}, Body: &ast.BlockStmt{Lbrace: x.Body.Lbrace, List: clauses, Rbrace: x.Body.Rbrace}}
		if len(pre) > 0 {
			// the hoisted operands become the switch's init statement (one parallel definition, evaluated left to right): a
			// label on the select stays a label on the switch, so `break L` keeps its meaning
			init := &ast.AssignStmt{Tok: token.DEFINE}
			for _, p := range pre {
				a := p.(*ast.AssignStmt)
				init.Lhs = append(init.Lhs, a.Lhs[0])
				init.Rhs = append(init.Rhs, a.Rhs[0])
			}
			sw.Init = init
		}
		return sw
	}
	return nil
}

// ---- driver ----------------------------------------------------------------------

type overlay struct {
	Replace map[string]string
}

func goFilesOf(dir string) []string {
	ctx := build.Default
	ctx.GOOS, ctx.GOARCH = "linux", "amd64"
	ctx.BuildTags = []string{"verif"}
	ents, err := os.ReadDir(dir)
	if err != nil {
		return nil
	}
	var out []string
	for _, e := range ents {
		n := e.Name()
		if e.IsDir() || !strings.HasSuffix(n, ".go") || strings.HasSuffix(n, "_test.go") {
			continue
		}
		ok, err := ctx.MatchFile(dir, n)
		if err != nil || !ok {
			continue
		}
		out = append(out, filepath.Join(dir, n))
	}
	return out
}

func injectPrologue(src []byte, fn, hookVar string) ([]byte, error) {
	fset := token.NewFileSet()
	f, err := parser.ParseFile(fset, "x.go", src, parser.ParseComments)
	if err != nil {
		return nil, err
	}
	for _, d := range f.Decls {
		fd, ok := d.(*ast.FuncDecl)
		if !ok || fd.Recv != nil || fd.Name.Name != fn || fd.Body == nil {
			continue
		}
		var args []string
		for _, p := range fd.Type.Params.List {
			for _, n := range p.Names {
				args = append(args, n.Name)
			}
		}
		off := fset.Position(fd.Body.Lbrace).Offset
		ins := fmt.Sprintf(" if %s != nil { return %s(%s) };", hookVar, hookVar, strings.Join(args, ", "))
		out := append([]byte{}, src[:off+1]...)
		out = append(out, ins...)
		out = append(out, src[off+1:]...)
		return out, nil
	}
	return nil, fmt.Errorf("function %s not found", fn)
}

func copyTree(dst, src string, skip func(string) bool) error {
	return filepath.Walk(src, func(p string, info os.FileInfo, err error) error {
		if err != nil {
			return err
		}
		rel, _ := filepath.Rel(src, p)
		if info.IsDir() {
			return os.MkdirAll(filepath.Join(dst, rel), 0o755)
		}
		if skip(rel) {
			return nil
		}
		in, err := os.Open(p)
		if err != nil {
			return err
		}
		defer in.Close()
		out, err := os.OpenFile(filepath.Join(dst, rel), os.O_CREATE|os.O_WRONLY|os.O_TRUNC, 0o644)
		if err != nil {
			return err
		}
		defer out.Close()
		_, err = io.Copy(out, in)
		return err
	})
}

// rangeOverChannels finds the `for [v] := range x` statements whose x is a channel. A syntactic rewriter cannot tell
// them from ranges over slices, maps or integers, so packages that contain a candidate (a range statement without a
// second iteration variable) are type-checked (go/types, dependencies from source). The result maps file -> ordinals of
// its channel ranges among its range statements. Type errors do not stop the build: what could be typed is used.
var srcImporter types.Importer

func rangeOverChannels(dir string, paths []string) map[string]map[int]bool {
	fset := token.NewFileSet()
	var files []*ast.File
	cand := false
	for _, p := range paths {
		f, err := parser.ParseFile(fset, p, nil, parser.SkipObjectResolution)
		if err != nil {
			return nil
		}
		files = append(files, f)
		ast.Inspect(f, func(n ast.Node) bool {
			if r, ok := n.(*ast.RangeStmt); ok && r.Value == nil {
				switch r.X.(type) {
				case *ast.BasicLit, *ast.CompositeLit:
				default:
					cand = true
				}
			}
			return true
		})
	}
	if !cand {
		return nil
	}
	if srcImporter == nil {
		srcImporter = importer.ForCompiler(token.NewFileSet(), "source", nil)
	}
	info := &types.Info{Types: map[ast.Expr]types.TypeAndValue{}}
	conf := types.Config{Importer: srcImporter, Error: func(error) {}}
	conf.Check(dir, fset, files, info)
	out := map[string]map[int]bool{}
	for i, f := range files {
		ord := 0
		ast.Inspect(f, func(n ast.Node) bool {
			if r, ok := n.(*ast.RangeStmt); ok {
				if tv, ok := info.Types[r.X]; ok && tv.Type != nil {
					if _, isCh := tv.Type.Underlying().(*types.Chan); isCh {
						if out[paths[i]] == nil {
							out[paths[i]] = map[int]bool{}
						}
						out[paths[i]][ord] = true
					}
				}
				ord++
			}
			return true
		})
	}
	return out
}

func main() {
	repo := flag.String("repo", "/repo", "repository working tree")
	out := flag.String("out", "", "output directory")
	verif := flag.String("verif", "/verif", "verification tree")
	modcache := flag.String("modcache", "/root/go/pkg/mod", "module cache")
	flag.Parse()
	if *out == "" {
		fatalf("-out required")
	}
	absRepo, _ := filepath.Abs(*repo)
	absOut, _ := filepath.Abs(*out)
	os.MkdirAll(filepath.Join(absOut, "src"), 0o755)
	ov := overlay{Replace: map[string]string{}}
	nfiles, nchanged := 0, 0
	for _, pkg := range instrumentedPkgs {
		dir := filepath.Join(absRepo, pkg)
		chanRanges := rangeOverChannels(dir, goFilesOf(dir))
		for _, path := range goFilesOf(dir) {
			nfiles++
			src, err := os.ReadFile(path)
			if err != nil {
				fatalf("%v", err)
			}
			base := filepath.Base(path)
			changedByPrologue := false
			if pkg == "packets" {
				if bytes.Contains(src, []byte("func NewSinkLinux(")) {
					src, err = injectPrologue(src, "NewSinkLinux", "VerifNewSink")
					if err != nil {
						fatalf("%s: %v", path, err)
					}
					changedByPrologue = true
				}
				if base == "sourcesink_linux.go" {
					// the handle's platform flag (true only for the Windows raw-socket handle) becomes something the harness decides
					if re := regexp.MustCompile(`MustClosePort:(\s*)false,`); re.Match(src) {
						src = re.ReplaceAll(src, []byte("MustClosePort:${1}VerifMustClosePort,"))
						changedByPrologue = true
					}
				}
				if bytes.Contains(src, []byte("func NewAFPacketSource(")) {
					src, err = injectPrologue(src, "NewAFPacketSource", "VerifNewSource")
					if err != nil {
						fatalf("%s: %v", path, err)
					}
					changedByPrologue = true
				}
			}
			res, changed, err := instrumentFile(path, src, options{chanRanges: chanRanges[path]})
			if err != nil {
				fatalf("%v", err)
			}
			if changed || changedByPrologue {
				nchanged++
				dst := filepath.Join(absOut, "src", pkg, base)
				os.MkdirAll(filepath.Dir(dst), 0o755)
				if err := os.WriteFile(dst, res, 0o644); err != nil {
					fatalf("%v", err)
				}
				ov.Replace[path] = dst
			}
		}
	}
	// seam check
	seam := 0
	for _, fn := range []string{"sourcesink_linux.go"} {
		_ = fn
	}
	for p := range ov.Replace {
		b, _ := os.ReadFile(ov.Replace[p])
		if bytes.Contains(b, []byte("VerifNewSink(")) {
			seam++
		}
		if bytes.Contains(b, []byte("VerifNewSource(")) {
			seam++
		}
	}
	if seam < 2 {
		fatalf("could not inject the simulated-wire seam (NewSinkLinux/NewAFPacketSource not found)")
	}
	// added files
	addRoot := filepath.Join(*verif, "overlay_src")
	filepath.Walk(addRoot, func(p string, info os.FileInfo, err error) error {
		if err != nil || info.IsDir() || !strings.HasSuffix(p, ".go") {
			return nil
		}
		rel, _ := filepath.Rel(addRoot, p)
		ov.Replace[filepath.Join(absRepo, rel)] = p
		return nil
	})
	// dependencies that must see the virtual clock
	type dep struct{ mod, ver, dir, name string }
	deps := []dep{
		{"github.com/cenkalti/backoff/v5", "v5.0.3", "github.com/cenkalti/backoff/v5@v5.0.3", "backoff"},
		{"github.com/patrickmn/go-cache", "v2.1.0+incompatible", "github.com/patrickmn/go-cache@v2.1.0+incompatible", "gocache"},
		// (x/sync: only the singleflight package is rewritten - its callers wait on its WaitGroup and its mutex, which the
		// scheduler has to see; errgroup is replaced at the call sites by the verrgroup stand-in)
		{"golang.org/x/sync", "v0.19.0", "golang.org/x/sync@v0.19.0", "xsync"},
	}
	var replaces strings.Builder
	for _, d := range deps {
		src := filepath.Join(*modcache, d.dir)
		dst := filepath.Join(absOut, "deps", d.name)
		os.RemoveAll(dst)
		if err := copyTree(dst, src, func(rel string) bool { return strings.HasSuffix(rel, "_test.go") }); err != nil {
			fatalf("copy %s: %v", d.mod, err)
		}
		if _, err := os.Stat(filepath.Join(dst, "go.mod")); err != nil {
			os.WriteFile(filepath.Join(dst, "go.mod"), []byte("module "+d.mod+"\n"), 0o644)
		}
		files := goFilesOf(dst)
		if d.name == "xsync" {
			files = goFilesOf(filepath.Join(dst, "singleflight"))
		}
		for _, path := range files {
			base := filepath.Base(path)
			opt := options{}
			if d.name == "gocache" {
				opt = options{onlyTimeNow: true, noChan: true}
			}
			if d.name == "backoff" && base == "ticker.go" {
				continue
			}
			src, _ := os.ReadFile(path)
			res, changed, err := instrumentFile(path, src, opt)
			if err != nil {
				fatalf("%v", err)
			}
			if changed {
				os.Chmod(path, 0o644)
				if err := os.WriteFile(path, res, 0o644); err != nil {
					fatalf("%v", err)
				}
			}
		}
		fmt.Fprintf(&replaces, "replace %s => %s\n", d.mod, dst)
	}
	gomod, err := os.ReadFile(filepath.Join(*verif, "go.mod"))
	if err != nil {
		fatalf("%v", err)
	}
	lines := strings.Split(string(gomod), "\n")
	var keep []string
	for _, l := range lines {
		if strings.HasPrefix(l, "replace github.com/DataDog/datadog-traceroute ") {
			continue
		}
		keep = append(keep, l)
	}
	mod := strings.Join(keep, "\n") + "\nreplace github.com/DataDog/datadog-traceroute => " + absRepo + "\n" + replaces.String()
	if err := os.WriteFile(filepath.Join(absOut, "go.mod"), []byte(mod), 0o644); err != nil {
		fatalf("%v", err)
	}
	sum, _ := os.ReadFile(filepath.Join(absRepo, "go.sum"))
	sum2, _ := os.ReadFile(filepath.Join(*verif, "go.sum"))
	os.WriteFile(filepath.Join(absOut, "go.sum"), append(sum, sum2...), 0o644)
	ob, _ := json.MarshalIndent(ov, "", " ")
	if err := os.WriteFile(filepath.Join(absOut, "overlay.json"), ob, 0o644); err != nil {
		fatalf("%v", err)
	}
	fmt.Printf("vinstr: %d files scanned, %d rewritten, overlay entries %d\n", nfiles, nchanged, len(ov.Replace))
}
