// c13drv is the small library driver used by the kernel-conformance check for what the CLI cannot express
// (a first TTL above 1). It is built against the repository's working tree without any instrumentation.
package main

import (
	"context"
	"encoding/json"
	"flag"
	"fmt"
	"os"
	"time"

	"github.com/DataDog/datadog-traceroute/packets"
	"github.com/DataDog/datadog-traceroute/traceroute"
)

func main() {
	proto := flag.String("proto", "udp", "")
	method := flag.String("method", "syn", "")
	port := flag.Int("port", 33434, "")
	min := flag.Int("min", 1, "")
	max := flag.Int("max", 8, "")
	timeout := flag.Int("timeout", 1000, "")
	q := flag.Int("q", 1, "")
	e2e := flag.Int("e2e", 0, "")
	history := flag.Int("history", 0, "")
	delay := flag.Int("delay", 50, "")
	paris := flag.Bool("paris", false, "")
	flag.Parse()
	if *history > 0 {
		// a long-lived process: earlier runs have used up packet identifiers, the next run's range starts `history` below the
		// 16-bit wrap (through the exported allocator only)
		for i := 0; i < 1<<17; i++ {
			if packets.AllocPacketID(1)+1 == uint16(65536-*history) {
				break
			}
		}
	}
	tr := traceroute.NewTraceroute()
	res, err := tr.RunTraceroute(context.Background(), traceroute.TracerouteParams{Hostname: flag.Arg(0), Port: *port, Protocol: *proto, MinTTL: *min, MaxTTL: *max, Delay: *delay,
		Timeout: time.Duration(*timeout) * time.Millisecond, TCPMethod: traceroute.TCPMethod(*method), TracerouteQueries: *q, E2eQueries: *e2e, TCPSynParisTracerouteMode: *paris})
	if err != nil {
		fmt.Fprintln(os.Stderr, "error:", err)
		os.Exit(1)
	}
	b, _ := json.Marshal(res)
	fmt.Println(string(b))
}
