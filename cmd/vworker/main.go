// vworker is the single harness binary: it is built per check invocation with
// the instrumentation overlay generated from the repository's current tree.
//
//	vworker master <ID> <tier>            orchestrate: shard over workers, aggregate, evidence, verdict
//	vworker worker <ID> <tier> <i> <n>    explore scenarios i, i+n, ... ; one JSON line per scenario
//	vworker replay <ID> <file>            re-execute one replay file verbosely
package main

import (
	"bufio"
	"encoding/json"
	"fmt"
	"os"
	"os/exec"
	"path/filepath"
	"runtime"
	"sort"
	"strconv"
	"strings"
	"sync"
	"sync/atomic"
	"syscall"
	"time"

	_ "verif/props/all"
	"verif/props/core"
	"verif/vsched"
)

func main() {
	if len(os.Args) < 2 {
		usage()
	}
	switch os.Args[1] {
	case "worker":
		worker()
	case "master":
		os.Exit(master())
	case "replay":
		os.Exit(replay())
	case "list":
		for _, id := range core.IDs() {
			fmt.Println(id)
		}
	default:
		usage()
	}
}

func usage() {
	fmt.Fprintln(os.Stderr, "usage: vworker master|worker|replay ...")
	os.Exit(2)
}

func envInt(k string, def int) int {
	if v := os.Getenv(k); v != "" {
		if n, err := strconv.Atoi(v); err == nil {
			return n
		}
	}
	return def
}

// ---- worker ------------------------------------------------------------------------

func worker() {
	if len(os.Args) < 6 {
		usage()
	}
	p := core.Lookup(os.Args[2])
	if p == nil {
		fmt.Fprintln(os.Stderr, "unknown property", os.Args[2])
		os.Exit(2)
	}
	tier := os.Args[3]
	shard, _ := strconv.Atoi(os.Args[4])
	n, _ := strconv.Atoi(os.Args[5])
	deadline := time.Now().Add(time.Duration(envInt("VERIF_WORKER_CAP_S", 3600)) * time.Second)
	if p.Race && !vsched.RaceMode {
		fmt.Fprintln(os.Stderr, "property needs a -race build")
		os.Exit(2)
	}
	runtime.GOMAXPROCS(envInt("VERIF_GOMAXPROCS", 1))
	w := bufio.NewWriterSize(os.Stdout, 1<<16)
	defer w.Flush()
	enc := json.NewEncoder(w)
	total := p.Count(tier)
	var curIdx atomic.Int64
	curIdx.Store(-1)
	var wmu sync.Mutex
	go spinMonitor(1, func(cpuS int, choices []int) {
		wmu.Lock()
		i := int(curIdx.Load())
		r := &core.ScnResult{Index: i}
		r.Fail(spinFailure(p.ID, tier, i, cpuS, choices))
		enc.Encode(r)
		enc.Encode(map[string]any{"capped": true, "next": i + n})
		enc.Encode(map[string]any{"done": true})
		w.Flush()
		os.Exit(0)
	})
	for i := shard; i < total; i += n {
		curIdx.Store(int64(i))
		if time.Now().After(deadline) {
			enc.Encode(map[string]any{"capped": true, "next": i})
			break
		}
		wmu.Lock()
		enc.Encode(map[string]any{"start": i})
		w.Flush()
		wmu.Unlock()
		r := &core.ScnResult{Index: i}
		t0 := time.Now()
		vsched.ExploreDeadline = t0.Add(time.Duration(envInt("VERIF_SCENARIO_CAP_S", map[string]int{"quick": 120, "thorough": 1200}[tier])) * time.Second)
		if deadline.Before(vsched.ExploreDeadline) {
			vsched.ExploreDeadline = deadline
		}
		p.Run(tier, i, r)
		if d := time.Since(t0); os.Getenv("VERIF_SLOW") != "" && d > 500*time.Millisecond {
			fmt.Fprintf(os.Stderr, "SLOW scenario %d: %s\n", i, d)
		}
		wmu.Lock()
		enc.Encode(r)
		w.Flush()
		wmu.Unlock()
	}
	wmu.Lock()
	enc.Encode(map[string]any{"done": true})
}

// spinMonitor watches an execution under the scheduler for a thread that burns CPU without ever reaching a scheduling
// point: the scheduler is cooperative, so such a thread stops the whole execution and no virtual-time horizon can end it.
// The measure is CPU time of this process while the scheduler's progress counter stands still inside an execution - not
// wall-clock time - so machine load cannot trip it; executions of the unchanged tree reach a scheduling point every few
// microseconds of CPU. VERIF_SPIN_CPU_S (default 90) is the CPU budget.
func spinMonitor(div int, report func(cpuS int, choices []int)) {
	budget := time.Duration(envInt("VERIF_SPIN_CPU_S", 90)) * time.Second / time.Duration(div)
	cpu := func() time.Duration {
		var ru syscall.Rusage
		syscall.Getrusage(syscall.RUSAGE_SELF, &ru)
		return time.Duration(ru.Utime.Nano() + ru.Stime.Nano())
	}
	var last uint64
	var since time.Duration = -1
	for {
		time.Sleep(2 * time.Second)
		in, n := vsched.Progress()
		if !in || n != last || since < 0 {
			last, since = n, cpu()
			continue
		}
		if d := cpu() - since; d >= budget {
			report(int(d/time.Second), vsched.CurrentChoices())
			return
		}
	}
}

func spinFailure(id, tier string, idx, cpuS int, choices []int) core.Failure {
	return core.Failure{Key: id + " spin/no-scheduling-point-reached",
		What:     fmt.Sprintf("scenario %d (%s tier): a thread consumed %d s of CPU without reaching a scheduling point - the code under test is in a loop that never ends and never waits, so the run does not end", idx, tier, cpuS),
		Scenario: core.JSON(map[string]any{"spin_index": idx, "tier": tier}), Choices: choices}
}

// ---- master ------------------------------------------------------------------------

type finding struct {
	Property string `json:"property"`
	Key      string `json:"key"`
	Status   string `json:"status"` // open | fixed
	Commit   string `json:"commit,omitempty"`
	What     string `json:"what"`
	Replay   string `json:"replay,omitempty"`
}

func loadFindings(dir string) []finding {
	b, err := os.ReadFile(filepath.Join(dir, "known_findings.json"))
	if err != nil {
		return nil
	}
	var fs []finding
	if err := json.Unmarshal(b, &fs); err != nil {
		fmt.Fprintln(os.Stderr, "known_findings.json:", err)
		os.Exit(2)
	}
	return fs
}

func workerCmd(p *core.Property, args ...string) *exec.Cmd {
	self, _ := os.Executable()
	if p.NeedsNetns && os.Getenv("VERIF_IN_NETNS") == "" {
		verif := verifDir()
		a := append([]string{"-n", "--", filepath.Join(verif, "netns_setup.sh"), self}, args...)
		c := exec.Command("unshare", a...)
		c.Env = append(os.Environ(), "VERIF_IN_NETNS=1")
		return c
	}
	return exec.Command(self, args...)
}

func verifDir() string {
	if d := os.Getenv("VERIF_DIR"); d != "" {
		return d
	}
	return "/verif"
}

// outDir is where evidence/ and replays/ are written (the self-test redirects it to scratch).
func outDir() string {
	if d := os.Getenv("VERIF_OUT"); d != "" {
		return d
	}
	return verifDir()
}

func master() int {
	if len(os.Args) < 4 {
		usage()
	}
	id, tier := os.Args[2], os.Args[3]
	if t := os.Getenv("VERIF_TIER"); t == "quick" || t == "thorough" {
		tier = t
	}
	p := core.Lookup(id)
	if p == nil {
		fmt.Fprintln(os.Stderr, "unknown property", id)
		return 2
	}
	seed := envInt("VERIF_SEED", 0)
	verif := verifDir()
	start := time.Now()
	total := p.Count(tier)
	jobs := envInt("VERIF_JOBS", runtime.NumCPU())
	if jobs > total {
		jobs = total
	}
	if p.MaxJobs > 0 && jobs > p.MaxJobs {
		jobs = p.MaxJobs
	}
	if jobs < 1 {
		jobs = 1
	}
	capS := envInt("VERIF_WORKER_CAP_S", map[string]int{"quick": 420, "thorough": 3000}[tier])

	type agg struct {
		sync.Mutex
		stats      vsched.Stats
		scenarios  int64
		nontrivScn int64
		outcomes   map[string]int64
		branches   map[string]int64
		failures   map[string]core.Failure
		samples    []json.RawMessage
		infra      []string
		capped     bool
		detChecked int64
		detEqual   int64
		evals      int64
		done       int
	}
	a := &agg{outcomes: map[string]int64{}, branches: map[string]int64{}, failures: map[string]core.Failure{}}
	var wg sync.WaitGroup
	for i := 0; i < jobs; i++ {
		wg.Add(1)
		go func(i int) {
			defer wg.Done()
			c := workerCmd(p, "worker", id, tier, strconv.Itoa(i), strconv.Itoa(jobs))
			c.Env = append(c.Environ(), "VERIF_WORKER_CAP_S="+strconv.Itoa(capS))
			c.Stderr = os.Stderr
			out, err := c.StdoutPipe()
			if err != nil {
				a.Lock()
				a.infra = append(a.infra, err.Error())
				a.Unlock()
				return
			}
			if err := c.Start(); err != nil {
				a.Lock()
				a.infra = append(a.infra, err.Error())
				a.Unlock()
				return
			}
			sc := bufio.NewScanner(out)
			sc.Buffer(make([]byte, 1<<20), 1<<28)
			sawDone := false
			// watchdog: a worker that reports nothing for a long time has a thread blocked outside the scheduler's control
			// (the scheduler itself detects deadlocks among managed threads); it is killed and reported as an infrastructure problem
			stallS := envInt("VERIF_STALL_S", map[string]int{"quick": 1800, "thorough": 5400}[tier])
			var current atomic.Int64
			current.Store(-1)
			beat := make(chan struct{}, 1)
			stopDog := make(chan struct{})
			go func() {
				t := time.NewTimer(time.Duration(stallS) * time.Second)
				defer t.Stop()
				for {
					select {
					case <-beat:
						if !t.Stop() {
							select {
							case <-t.C:
							default:
							}
						}
						t.Reset(time.Duration(stallS) * time.Second)
					case <-t.C:
						a.Lock()
						a.infra = append(a.infra, fmt.Sprintf("worker %d reported nothing for %d s while running scenario %d: killed (a thread is blocked outside the scheduler's control)", i, stallS, current.Load()))
						a.Unlock()
						// SIGQUIT first: the Go runtime prints every goroutine's stack (to the check's standard error), which names
						// the operation that blocked outside the scheduler
						c.Process.Signal(syscall.SIGQUIT)
						time.Sleep(3 * time.Second)
						c.Process.Kill()
						return
					case <-stopDog:
						return
					}
				}
			}()
			defer close(stopDog)
			for sc.Scan() {
				select {
				case beat <- struct{}{}:
				default:
				}
				line := sc.Bytes()
				if len(line) == 0 || line[0] != '{' {
					continue
				}
				var probe map[string]json.RawMessage
				if json.Unmarshal(line, &probe) != nil {
					continue
				}
				if _, ok := probe["done"]; ok {
					sawDone = true
					continue
				}
				if st, ok := probe["start"]; ok {
					var idx int64
					json.Unmarshal(st, &idx)
					current.Store(idx)
					continue
				}
				if _, ok := probe["capped"]; ok {
					a.Lock()
					a.capped = true
					a.Unlock()
					continue
				}
				var r core.ScnResult
				if err := json.Unmarshal(line, &r); err != nil {
					continue
				}
				a.Lock()
				a.scenarios++
				if r.Nontrivial {
					a.nontrivScn++
				}
				a.stats.Add(r.Stats)
				a.evals += r.Evals
				for k, v := range r.Outcomes {
					a.outcomes[k] += v
				}
				for k, v := range r.Branches {
					a.branches[k] += v
				}
				for _, f := range r.Failures {
					if _, ok := a.failures[f.Key]; !ok {
						a.failures[f.Key] = f
					}
				}
				if r.Infra != "" {
					a.infra = append(a.infra, fmt.Sprintf("scenario %d: %s", r.Index, r.Infra))
				}
				if r.Sample != nil && len(a.samples) < 64 {
					a.samples = append(a.samples, r.Sample)
				}
				a.detChecked += r.DetChecked
				a.detEqual += r.DetEqual
				a.Unlock()
			}
			err = c.Wait()
			a.Lock()
			if err != nil || !sawDone {
				a.infra = append(a.infra, fmt.Sprintf("worker %d ended abnormally: %v", i, err))
			}
			a.done++
			a.Unlock()
		}(i)
	}
	wg.Wait()

	// ---- triage failures -----------------------------------------------------------
	known := map[string]finding{}
	for _, f := range loadFindings(verif) {
		if f.Property == id {
			known[f.Key] = f
		}
	}
	keys := make([]string, 0, len(a.failures))
	for k := range a.failures {
		keys = append(keys, k)
	}
	sort.Strings(keys)
	violations := 0
	var lines []string
	var unrepro []string
	allKeys := append([]string{}, keys...)
	if len(allKeys) > 3000 {
		allKeys = allKeys[:3000]
	}
	const maxKeys = 40
	if len(keys) > maxKeys {
		lines = append(lines, fmt.Sprintf("NOTE: %d distinct failing classes; the first %d (sorted by key) are re-executed and reported, the others are listed in the evidence only", len(keys), maxKeys))
		keys = keys[:maxKeys]
	}
	os.MkdirAll(filepath.Join(outDir(), "replays", id), 0o755)
	// re-execute every failing class 5x before believing it (a few classes at a time: replays are independent processes;
	// a class stops at its first replay that does not fail)
	failsOf := make([]int, len(keys))
	{
		var rwg sync.WaitGroup
		sem := make(chan struct{}, envInt("VERIF_REPLAY_JOBS", 4))
		for i, k := range keys {
			f := a.failures[k]
			rp := filepath.Join(outDir(), "replays", id, core.KeySafe(k)+".json")
			rb, _ := json.MarshalIndent(map[string]any{"property": id, "key": f.Key, "what": f.What, "scenario": f.Scenario, "choices": f.Choices, "bound": f.Bound, "tier": tier}, "", " ")
			os.WriteFile(rp, rb, 0o644)
			rwg.Add(1)
			go func(i int, rp string) {
				defer rwg.Done()
				sem <- struct{}{}
				defer func() { <-sem }()
				for n := 0; n < 5; n++ {
					c := workerCmd(p, "replay", id, rp)
					out, _ := c.CombinedOutput()
					if c.ProcessState != nil && c.ProcessState.ExitCode() == 1 && strings.Contains(string(out), "ORACLE FAILED") {
						failsOf[i]++
					} else {
						break
					}
				}
			}(i, rp)
		}
		rwg.Wait()
	}
	for i, k := range keys {
		f := a.failures[k]
		rp := filepath.Join(outDir(), "replays", id, core.KeySafe(k)+".json")
		fails := failsOf[i]
		if fails != 5 {
			// the same scenario and schedule did not fail again: an artefact of something the harness does not own
			// (real time under machine load), not a verdict about the code. Recorded, never reported as a violation.
			unrepro = append(unrepro, fmt.Sprintf("%s (failed again %d/5 times on replay)", k, fails))
			lines = append(lines, fmt.Sprintf("NOTE: %q did not fail again on replay (%d/5): not a verdict", k, fails))
			continue
		}
		if kf, ok := known[k]; ok && kf.Status == "open" {
			lines = append(lines, fmt.Sprintf("KNOWN-FINDING: property=%s %s — %s", id, k, kf.What))
			continue
		}
		violations++
		lines = append(lines, fmt.Sprintf("VIOLATION property=%s replay=%s", id, rp))
		lines = append(lines, fmt.Sprintf("  key: %s", k))
		lines = append(lines, fmt.Sprintf("  what: %s", firstLine(f.What)))
	}

	// ---- evidence --------------------------------------------------------------------
	distinct := len(a.outcomes)
	exhaustive := p.Exhaustive && !a.capped && !a.stats.Capped && len(a.infra) == 0 && len(unrepro) == 0 && a.scenarios == int64(total)
	evals := a.stats.Executions
	if a.evals > 0 {
		evals += a.evals
	}
	samples := a.samples
	if len(samples) > 8 {
		off := seed % (len(samples) - 7)
		if off < 0 {
			off = 0
		}
		samples = samples[off : off+8]
	}
	if len(samples) == 0 {
		samples = []json.RawMessage{json.RawMessage(`"no sample recorded"`)}
	}
	cov := map[string]any{
		"evaluations":                   evals,
		"distinct_nontrivial":           distinct,
		"rule":                          p.Rule,
		"samples":                       samples,
		"states":                        a.stats.Nodes,
		"transitions":                   a.stats.Steps,
		"traces_validated_against_impl": a.stats.Executions,
		"exhaustive":                    exhaustive,
		"scenarios_total":               total,
		"scenarios_explored":            a.scenarios,
		"scenarios_nontrivial":          a.nontrivScn,
		"deviation_bound_completed":     a.stats.Bound,
		"executions_by_deviation_cost":  a.stats.CostHist,
		"max_choice_points":             a.stats.MaxPoints,
		"executions_by_outcome":         map[string]int64{"normal": a.stats.ByOutcome[0], "deadlock": a.stats.ByOutcome[1], "crash": a.stats.ByOutcome[2], "horizon": a.stats.ByOutcome[3], "diverged": a.stats.ByOutcome[4]},
		"oracle_branches":               a.branches,
		"caps_hit":                      a.capped || a.stats.Capped,
		"determinism_replays_compared":  a.detChecked,
		"determinism_replays_equal":     a.detEqual,
		"workers":                       jobs,
		"infrastructure_notes":          a.infra,
		"known_findings_reported":       countPrefix(lines, "KNOWN-FINDING"),
		"failing_classes":               len(a.failures),
		"replays_retried":               a.stats.Retried,
		"replays_resynchronised":        a.stats.Resynced,
		"unreproducible_failures":       unrepro,
		"failing_class_keys":            allKeys,
	}
	if a.stats.Nodes == 0 {
		cov["states"] = evals
		cov["transitions"] = evals
		cov["traces_validated_against_impl"] = evals
	}
	ev := map[string]any{
		"property_id": id,
		"tier":        tier,
		"seed":        seed,
		"level":       p.Level,
		"coverage":    cov,
		"assumptions": append([]string{}, p.Assumptions...),
		"wall_s":      time.Since(start).Seconds(),
		"violations":  violations,
	}
	eb, _ := json.MarshalIndent(ev, "", " ")
	os.MkdirAll(filepath.Join(outDir(), "evidence"), 0o755)
	if err := os.WriteFile(filepath.Join(outDir(), "evidence", id+".json"), eb, 0o644); err != nil {
		fmt.Fprintln(os.Stderr, err)
		return 2
	}
	fmt.Printf("%s %s: scenarios=%d/%d executions=%d nodes=%d steps=%d distinct_outcomes=%d exhaustive=%v wall=%.1fs\n",
		id, tier, a.scenarios, total, a.stats.Executions, a.stats.Nodes, a.stats.Steps, distinct, exhaustive, time.Since(start).Seconds())
	for _, l := range lines {
		fmt.Println(l)
	}
	for _, n := range a.infra {
		fmt.Println("INFRA:", n)
	}
	if violations > 0 {
		return 1
	}
	if len(a.infra) > 0 && a.detChecked != a.detEqual {
		return 2
	}
	if a.detChecked != a.detEqual {
		fmt.Println("INFRA: determinism replays differed")
		return 2
	}
	if len(a.infra) > 0 {
		return 2
	}
	if a.scenarios > 0 && distinct < 2 && a.stats.Executions+a.evals > 1 {
		fmt.Println("INFRA: vacuous exploration (one distinct outcome)")
		return 2
	}
	return 0
}

func countPrefix(ls []string, p string) int {
	n := 0
	for _, l := range ls {
		if strings.HasPrefix(l, p) {
			n++
		}
	}
	return n
}

func firstLine(s string) string {
	if i := strings.IndexByte(s, '\n'); i >= 0 {
		s = s[:i]
	}
	if len(s) > 300 {
		s = s[:300] + "..."
	}
	return s
}

// ---- replay ------------------------------------------------------------------------

func replay() int {
	if len(os.Args) < 4 {
		usage()
	}
	p := core.Lookup(os.Args[2])
	if p == nil {
		return 2
	}
	if p.NeedsNetns && os.Getenv("VERIF_IN_NETNS") == "" {
		c := workerCmd(p, os.Args[1:]...)
		c.Stdout, c.Stderr = os.Stdout, os.Stderr
		c.Run()
		return c.ProcessState.ExitCode()
	}
	b, err := os.ReadFile(os.Args[3])
	if err != nil {
		fmt.Fprintln(os.Stderr, err)
		return 2
	}
	var rf struct {
		Scenario json.RawMessage `json:"scenario"`
		Choices  []int           `json:"choices"`
	}
	if err := json.Unmarshal(b, &rf); err != nil {
		fmt.Fprintln(os.Stderr, err)
		return 2
	}
	runtime.GOMAXPROCS(1)
	var spin struct {
		Index *int   `json:"spin_index"`
		Tier  string `json:"tier"`
	}
	if json.Unmarshal(rf.Scenario, &spin) == nil && spin.Index != nil {
		// a spin finding names the scenario, not one schedule: re-explore the scenario under the same monitor
		// (a third of the exploration's CPU budget: the replay confirms a loop the exploration has already met)
		go spinMonitor(3, func(cpuS int, choices []int) {
			f := spinFailure(p.ID, spin.Tier, *spin.Index, cpuS, choices)
			fmt.Printf("%s\nORACLE FAILED %s\n  decisions before the loop: %v\n", f.What, f.Key, choices)
			os.Exit(1)
		})
		r := &core.ScnResult{Index: *spin.Index}
		vsched.ExploreDeadline = time.Now().Add(20 * time.Minute)
		p.Run(spin.Tier, *spin.Index, r)
		for _, f := range r.Failures {
			fmt.Printf("ORACLE FAILED %s: %s\n", f.Key, f.What)
		}
		if len(r.Failures) > 0 {
			return 1
		}
		fmt.Printf("scenario %d explored to its bound: no thread spins, no oracle fails\n", *spin.Index)
		return 0
	}
	desc, ok := p.Replay(rf.Scenario, rf.Choices)
	fmt.Print(desc)
	if !ok {
		return 1
	}
	return 0
}
