#!/bin/bash
# Runs inside `unshare -n`: gives the private namespace a routable interface so that the
# repository's local-address discovery (connected UDP socket) and the SACK dial work, then execs "$@".
ip link set lo up
ip link add v0 type veth peer name v1
ip link set v0 up; ip link set v1 up
ip addr add 198.18.0.2/24 dev v0
ip addr add 198.18.0.9/24 dev v0
ip -6 addr add fd00:5ac::2/64 dev v0 nodad
ip route add default via 198.18.0.1 dev v0
ip -6 route add default via fd00:5ac::1 dev v0
sysctl -qw net.ipv4.ip_local_port_range="20000 60999" 2>/dev/null
exec "$@"
