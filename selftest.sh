#!/bin/bash
# ./selftest.sh [ID...]   apply each deliberate property-breaking change under mutants/<ID>/ to a scratch
# copy of the repository, run <ID>'s quick check against the copy and require a VIOLATION.
# With SELFTEST_BASELINE=1 the repository's own test suite is run on the mutated copy first.
cd "$(dirname "$0")"
. ./env.sh
IDS="$@"; [ -z "$IDS" ] && IDS=$(ls mutants)
pass=0; fail=0
for id in $IDS; do
  for patch in mutants/$id/*.patch; do
    [ -f "$patch" ] || continue
    S=$(mktemp -d /var/tmp/vmut.XXXXXX)
    cp -r /repo/. "$S/" && rm -rf "$S/.git"
    if ! (cd "$S" && patch -p1 -s < "/verif/$patch"); then echo "SELFTEST $id $(basename $patch): PATCH DOES NOT APPLY"; fail=$((fail+1)); rm -rf "$S"; continue; fi
    if ! (cd "$S" && $VGO build ./... >/dev/null 2>&1); then echo "SELFTEST $id $(basename $patch): DOES NOT BUILD"; fail=$((fail+1)); rm -rf "$S"; continue; fi
    base="-"
    if [ "${SELFTEST_BASELINE:-0}" = 1 ]; then
      if (cd "$S" && $VGO test -vet=off -count=1 ./... >/dev/null 2>&1); then base="suite-passes"; else base="SUITE-FAILS"; fi
    fi
    out=$(VERIF_REPO="$S" VERIF_OUT="$S/.vout" ./run.sh "$id" quick 2>&1); rc=$?
    if [ $rc -eq 1 ] && echo "$out" | grep -q "^VIOLATION property=$id"; then
      echo "SELFTEST $id $(basename $patch): detected [$base] $(echo "$out" | grep -m1 '  key:')"; pass=$((pass+1))
    else
      echo "SELFTEST $id $(basename $patch): MISSED rc=$rc [$base]"; echo "$out" | tail -5; fail=$((fail+1))
    fi
    rm -rf "$S"
  done
done
echo "selftest: detected=$pass missed=$fail"
[ $fail -eq 0 ]
