#!/bin/bash
# tools/runall.sh [quick|thorough] : run every claimed check, validate the evidence files
cd "$(dirname "$0")/.."
T=${1:-quick}
rc=0
for id in $(python3 -c "import json;print(' '.join(c['property_id'] for c in json.load(open('MANIFEST.json'))['checks']))"); do
  s=$(date +%s.%N); out=$(./run.sh $id $T 2>&1); r=$?; e=$(date +%s.%N)
  printf "%s rc=%d %.1fs %s\n" $id $r $(echo "$e - $s" | bc) "$(echo "$out" | grep -E "^$id" | head -1 | cut -c1-150)"
  [ $r -ne 0 ] && { rc=1; echo "$out" | grep -E "VIOLATION|INFRA|key:" | head -5; }
done
python3-vt - <<'PY'
import json,jsonschema,glob
sch=json.load(open('/root/.vp/EVIDENCE.schema.json'))
bad=0
for f in sorted(glob.glob('/verif/evidence/*.json')):
    try: jsonschema.validate(json.load(open(f)),sch)
    except Exception as ex: bad+=1; print('INVALID',f,str(ex)[:200])
print('evidence files valid' if not bad else 'EVIDENCE PROBLEMS')
PY
exit $rc
