#!/bin/bash
# tools/seed_regress.sh [jobs] [name-glob]: re-run, for every kept seed under seeded/, the quick check(s) named in its
# meta.json "detected_by" against a scratch copy of /repo with the seed applied, and report seeds no check detects any more.
cd "$(dirname "$0")/.."
J="${1:-4}"; G="${2:-C*}"
one() {
  d="$1"; n=$(basename "$d")
  ids=$(python3 -c "
import json,re,sys
m=json.load(open('$d/meta.json'))
ids=re.findall(r'C\d\d', m.get('detected_by',''))
seen=[]
for i in ids:
    if i not in seen: seen.append(i)
print(' '.join(seen) or m['breaks_property'])")
  out=$(SEED_LINES=2 tools/seed_check.sh "$PWD/$d/patch.diff" quick $ids 2>&1)
  if echo "$out" | grep -q "rc=1"; then echo "REGRESS $n: detected ($(echo "$out" | grep -o 'CHECK C[0-9][0-9] quick rc=1' | awk '{print $2}' | tr '\n' ' '))"
  else echo "REGRESS $n: NOT DETECTED by $ids :: $(echo "$out" | tr '\n' ' ' | cut -c1-300)"; fi
}
export -f one
ls -d seeded/$G | grep -v _rejected | xargs -P "$J" -I{} bash -c 'one {}'
