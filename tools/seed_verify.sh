#!/bin/bash
# tools/seed_verify.sh <seed_dir> <demo_pkg_dir> <ID> [more IDs...]
#   seed_dir contains patch.diff and demo *_test.go file(s); demo_pkg_dir is the package (relative to repo root) the demo is copied into.
# Confirms in scratch copies: patch applies, build ok, suite passes with patch, demo fails with patch, demo passes without; then runs the quick checks.
cd "$(dirname "$0")/.."
. ./env.sh
SD="$1"; PKG="$2"; shift 2
S=$(mktemp -d /var/tmp/vseed.XXXXXX); C=$(mktemp -d /var/tmp/vseedc.XXXXXX)
trap 'rm -rf "$S" "$C"' EXIT
cp -r /repo/. "$S/"; cp -r /repo/. "$C/"; rm -rf "$S/.git" "$C/.git"
(cd "$S" && patch -p1 -s < "$SD/patch.diff") || { echo "SEED: patch does not apply"; exit 3; }
(cd "$S" && $VGO build ./... ) || { echo "SEED: build fails"; exit 3; }
if [ "${SEED_SKIP_SUITE:-0}" != 1 ]; then
  if (cd "$S" && $VGO test -vet=off -count=1 ./... >"$S/.suite.log" 2>&1); then echo "SEED: suite passes with change"; else echo "SEED: SUITE FAILS with change"; grep -E "^(FAIL|---)" "$S/.suite.log" | head; fi
fi
if [ -n "$PKG" ] && [ "$PKG" != "-" ]; then
  cp "$SD"/*_test.go "$S/$PKG/" 2>/dev/null; cp "$SD"/*_test.go "$C/$PKG/" 2>/dev/null
  if (cd "$S" && $VGO test -vet=off -count=1 ./$PKG/ >"$S/.demo.log" 2>&1); then echo "SEED: DEMO PASSES with change (bad)"; else echo "SEED: demo fails with change (good)"; fi
  if (cd "$C" && $VGO test -vet=off -count=1 ./$PKG/ >"$C/.demo.log" 2>&1); then echo "SEED: demo passes without change (good)"; else echo "SEED: DEMO FAILS without change (bad)"; tail -5 "$C/.demo.log"; fi
  rm -f "$S/$PKG"/*seed*_test.go "$S/$PKG"/*demo*_test.go
fi
for id in "$@"; do
  out=$(VERIF_REPO="$S" VERIF_OUT="$S/.vout" ./run.sh "$id" quick 2>&1); rc=$?
  echo "CHECK $id rc=$rc: $(echo "$out" | grep -E '^(VIOLATION|  key:|INFRA)' | head -4 | tr '\n' ' ')"
done
