#!/bin/bash
# tools/seed_keep.sh <name> <seed_dir> <property> <demo_pkg> <detected_by> <needs...>
cd "$(dirname "$0")/.."
N="$1"; SD="$2"; P="$3"; PKG="$4"; DET="$5"; shift 5
mkdir -p seeded/$N
cp "$SD/patch.diff" seeded/$N/; cp "$SD"/*_test.go seeded/$N/ 2>/dev/null; cp "$SD/NOTES.md" seeded/$N/NOTES.agent.md 2>/dev/null
python3 - "$N" "$P" "$PKG" "$DET" "$*" <<'PY'
import json,sys,glob,os
n,p,pkg,det,needs=sys.argv[1:6]
json.dump({"name":n,"breaks_property":p,"needs_to_manifest":needs,"demo":[os.path.basename(f) for f in glob.glob('seeded/%s/*_test.go'%n)],"demo_package_dir":pkg,
 "confirmed":"tools/seed_verify.sh in scratch copies: patch applies, go build ok, repository suite passes with the change, demo fails with it and passes without",
 "detected_by":det,"origin":"independent sub-agent given only the property text and a scratch worktree"},open('seeded/%s/meta.json'%n,'w'),indent=1)
PY
echo kept seeded/$N
