#!/usr/bin/env python3
# Regenerates /verif/MANIFEST.json from the table below (claimed checks) and properties.jsonl (not_applicable for the rest).
import json
props=[json.loads(l) for l in open('/verif/properties.jsonl')]
C={
 "C01":("model_checking","perturbation lattice of every genuine reply x arrival mode x variant, executed through the exported entry points over the simulated wire; ledger oracle","§4 C01","stateless model checking of the implementation over an exhaustively enumerated input/history lattice (simulated wire, virtual clock; thorough: all schedules with <=1 preemption)"),
 "C02":("model_checking","reply-form catalogue x histories (loss, duplication, every arrival order, NAT-rewritten source, SACK ack histories around the 2^32 wrap) x variant; completeness oracle","§4 C02","exhaustive enumeration of reply encodings x delivery histories against the real drivers under the controlled scheduler"),
 "C03":("model_checking","all answer maps 3^n x duplicates/late replies x both engines under all schedules within the preemption bound; clipResults vs reference; protocol level per variant","§4 C03","stateless model checking of both engines with a scripted driver (preemption-bounded DFS) + exhaustive small-scope enumeration"),
 "C04":("model_checking","reply form x responder {target, router, foreign host with same identifiers} x arrival order x variant","§4 C04","exhaustive enumeration of (form, responder, order) over the simulated wire against the real drivers"),
 "C05":("model_checking","all delay assignments from the alphabet (incl. beyond the timeout), duplicates with larger delay; RTT equality on the virtual clock","§4 C05","exhaustive enumeration of delay assignments on a virtual clock (deterministic discrete-event execution of the real code)"),
 "C06":("model_checking","every TTL 1..255, identifier bases at wrap-around, destination timing classes; independent codec judges every emitted probe","§4 C06","exhaustive enumeration of configurations; probes decoded by an independent codec; pacing on the virtual clock"),
 "C07":("model_checking","every delivery sequence up to the length bound x every interleaving within the deviation bound of the real TracerouteParallel vs reference fold","§4 C07","stateless model checking of the implementation (controlled scheduler, preemption/clock-deviation bounded DFS)"),
 "C09":("model_checking","mutation lattice (every truncation, header-field boundary values, 256 protocols/types, options, oversize, structure-aware field values) x form x variant x injection point; equality with the noise-free run","§4 C09","exhaustive enumeration of a byte-mutation lattice injected into real runs over the simulated wire"),
}
checks=[]
for pid,(lvl,text,ref,tech) in sorted(C.items()):
    checks.append({"property_id":pid,"quick_cmd":"./run.sh %s quick"%pid,"thorough_cmd":"./run.sh %s thorough"%pid,
      "evidence_file":"/verif/evidence/%s.json"%pid,"replay_cmd_template":"./run.sh %s --replay {path}"%pid,"engine":"vsched",
      "level_claimed":{"category":lvl,"text":text,"design_ref":"DESIGN.md "+ref},
      "level_note":"trusted: Go runtime/stdlib, gopacket, x/net; scheduling points at sync/atomic/context/channel/time and wire operations (data-race freedom is C14's check); simulated wire semantics (DESIGN.md E3); bounds as reported in the evidence",
      "technique":tech})
na=[{"property_id":p["id"],"reason":"check under construction in this session; not a claim that the technique cannot apply"} for p in props if p["id"] not in C]
m={"version":1,"setup_cmd":"./setup.sh",
 "hooks":{"guard":"verif","enable":"no hook is committed to the repository: every check regenerates a `go build -overlay` from /repo's current working tree (cmd/vinstr: sync/atomic/time/context/errgroup/rand selectors -> shims, go/select/chan ops -> vsched, seam prologue in packets.NewSinkLinux/NewAFPacketSource) and builds with -tags verif; files added by the overlay live in /verif/overlay_src",
          "baseline_off_cmd":"cd /repo && /root/go/pkg/mod/golang.org/toolchain@v0.0.1-go1.25.6.linux-amd64/bin/go test -mod=mod -json -vet=off -count=1 -timeout 25m ./...",
          "source_commits":[],"add_only":True},
 "engines":[{"name":"vsched","path":"/verif/vsched","serves_properties":sorted(C),"kind_free_text":"controlled scheduler + virtual clock + stateless deviation-bounded DFS over the real, overlay-instrumented implementation; simnet (simulated wire with the real cBPF programs in x/net/bpf's VM), refcodec (independent codec)"}],
 "checks":checks,"not_applicable":na,
 "notes":"exit codes: 0 held (KNOWN-FINDING lines allowed), 1 VIOLATION line(s), 2 infrastructure problem (never with a VIOLATION line). Fixed defects are listed in known_findings.json (status fixed) and as fix: commits in /repo."}
json.dump(m,open('/verif/MANIFEST.json','w'),indent=1)
print("claimed:",sorted(C))
