#!/bin/bash
# tools/seed_check.sh <patch.diff> <tier> <ID>...: run checks against a scratch copy of /repo with the patch applied (no suite/demo confirmation)
cd "$(dirname "$0")/.."
. ./env.sh
P="$1"; T="$2"; shift 2
S=$(mktemp -d /var/tmp/vsc.XXXXXX)
trap 'rm -rf "$S"' EXIT
cp -r /repo/. "$S/"; rm -rf "$S/.git"
(cd "$S" && patch -p1 -s < "$P") || { echo "patch does not apply"; exit 3; }
for id in "$@"; do
  out=$(VERIF_REPO="$S" VERIF_OUT="$S/.vout" ./run.sh "$id" $T 2>&1); rc=$?
  echo "CHECK $id $T rc=$rc: $(echo "$out" | grep -E '^(VIOLATION|  key:|  what:|INFRA|C[0-9][0-9] )' | head -${SEED_LINES:-6} | cut -c1-300)"
done
