#!/bin/bash
# tools/seed_batch.sh <series-letter> [extra check ids...]: verify every finished seed of the series against its property's quick check
cd "$(dirname "$0")/.."
S="$1"; shift
for d in /tmp/seed/C??-$S; do
  [ -f "$d/_seed/patch.diff" ] || continue
  id=$(basename $d); pid=${id%%-*}
  [ -f "/tmp/seed/.done-$id" ] && continue
  demo=$(ls $d/_seed/*_test.go 2>/dev/null | head -1)
  pkg="-"
  if [ -n "$demo" ]; then pkg=$(grep -m1 '^package ' "$demo" | awk '{print $2}' | sed 's/_test$//'); fi
  mkdir -p $d/_v; cp $d/_seed/patch.diff $d/_v/; [ -n "$demo" ] && cp "$demo" $d/_v/
  echo "=== $id (demo package: $pkg)"
  tools/seed_verify.sh $d/_v $pkg $pid "$@" 2>&1 | grep -E "SEED|CHECK" | cut -c1-260
  touch /tmp/seed/.done-$id
done
