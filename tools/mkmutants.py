#!/usr/bin/env python3
# Regenerates mutants/<ID>/<name>.patch: deliberate property-breaking changes, each a textual substitution on the current /repo tree.
import os,subprocess,shutil,sys
M=[
 ("C01","icmp_drop_echo_id_check","icmp/icmp_driver.go","			if uint16(echo.ID) != s.echoID {","			if false && uint16(echo.ID) != s.echoID {"),
 ("C01","udp_ignore_quoted_source_port","udp/udp_driver.go","		if !u.config.LoosenICMPSrc && icmpSrc != local {","		if !u.config.LoosenICMPSrc && icmpSrc.Addr() != local.Addr() {"),
 ("C01","tcp_match_probe_ignoring_seq","tcp/tcp_driver.go","		if probe.packetID == packetID && probe.seqNum == seqNum {","		if probe.packetID == packetID {"),
 ("C01","sack_accept_unsent_relseq","sack/sack_driver.go","	if sendTime.IsZero() {\n		return 0, fmt.Errorf(\"getRTTFromRelSeq: no probe sent","	if false && sendTime.IsZero() {\n		return 0, fmt.Errorf(\"getRTTFromRelSeq: no probe sent"),
 ("C02","udp_always_strict","udp/udp_driver.go","		if !u.config.LoosenICMPSrc && icmpSrc != local {","		if icmpSrc != local {"),
 ("C02","parser_rejects_ip_options","packets/frame_parser.go","	if err := p.checkLayers(); err != nil {","	if len(p.Layers) > 0 && p.Layers[0] == layers.LayerTypeIPv4 && p.IP4.IHL > 5 {\n		return &common.BadPacketError{Err: fmt.Errorf(\"ip options\")}\n	}\n	if err := p.checkLayers(); err != nil {"),
 ("C02","icmp_inner_needs_full_quote","packets/frame_parser.go","		icmpInfo := ICMPInfo{\n			IPPair:          ipPair,\n			WrappedPacketID: innerPkt.Id,","		if len(innerPkt.Payload) < 9 {\n			return ICMPInfo{}, fmt.Errorf(\"short quote\")\n		}\n		icmpInfo := ICMPInfo{\n			IPPair:          ipPair,\n			WrappedPacketID: innerPkt.Id,"),
 ("C03","clip_off_by_one","common/traceroute_types.go","		results = slices.Clip(results[:destIdx+1])","		results = slices.Clip(results[:destIdx])"),
 ("C06","serial_no_break_on_destination","common/traceroute_serial.go","			if probe.IsDest {\n				break\n			}","			if probe.IsDest && false {\n				break\n			}"),
 ("C04","udp_every_icmp_error_is_destination","udp/udp_driver.go","		IsDest: ipPair.SrcAddr == u.getTargetAddrPort().Addr(),","		IsDest: u.parser.IsDestinationUnreachable() || ipPair.SrcAddr == u.getTargetAddrPort().Addr(),"),
 ("C04","tcp_skip_ip_pair_check","tcp/tcp_driver.go","		if ipPair != t.ExpectedIPPair() {","		if false && ipPair != t.ExpectedIPPair() {"),
 ("C05","duration_truncated_to_ms","common/utils.go","	return duration.Seconds() * 1000","	return float64(duration.Milliseconds())"),
 ("C05","icmp_rtt_from_first_probe","icmp/icmp_driver.go","	t, ok := s.findMatchingProbe(relSeq)","	t, ok := s.findMatchingProbe(s.params.ParallelParams.MinTTL)\n	_ = relSeq"),
 ("C06","icmp_no_checksums","icmp/icmp_packet.go","		ComputeChecksums: true,","		ComputeChecksums: false,"),
 ("C06","udp_ipid_wraps_at_128","udp/udpv4.go","			Id:       41821 + uint16(ttl),","			Id:       41821 + uint16(ttl&0x7f),"),
 ("C06","parallel_half_send_delay","common/traceroute_parallel.go","			time.Sleep(p.SendDelay)","			time.Sleep(p.SendDelay / 2)"),
 ("C06","sender_ignores_destination_seen","common/traceroute_parallel.go","			if writerCtx.Err() != nil {\n				return nil\n			}","			if groupCtx.Err() != nil || (false && writerCtx.Err() != nil) {\n				return nil\n			}"),
 ("C08","parallel_no_overall_timeout","common/traceroute_parallel.go","	g, groupCtx := errgroup.WithContext(timeoutCtx)","	_ = timeoutCtx\n	g, groupCtx := errgroup.WithContext(ctx)"),
 ("C08","serial_sleep_in_receive_loop","common/traceroute_serial.go","			probe, err = t.ReceiveProbe(p.PollFrequency)","			time.Sleep(p.TracerouteTimeout)\n			probe, err = t.ReceiveProbe(p.PollFrequency)"),
 ("C09","bad_packets_are_fatal","common/traceroute_types.go","	} else if errors.As(err, &badPktErr) {\n		return true\n	}","	} else if errors.As(err, &badPktErr) {\n		return false\n	}"),
 ("C09","udp_index_before_length_check","packets/frame_parser.go","	if len(buffer) < 8 {\n		return UDPInfo{}, fmt.Errorf(\"ParseUDPFirstBytes: buffer too short (%d bytes)\", len(buffer))\n	}","	_ = buffer[7]"),
 ("C10","icmp_sink_not_closed_on_filter_failure","icmp/traceroute_icmp.go","		handle.Source.Close()\n		handle.Sink.Close()\n		return nil, fmt.Errorf(\"ICMP traceroute failed to set packet filter: %w\", err)","		handle.Source.Close()\n		return nil, fmt.Errorf(\"ICMP traceroute failed to set packet filter: %w\", err)"),
 ("C10","send_error_cause_not_wrapped","common/traceroute_parallel.go","				return fmt.Errorf(\"SendProbe() failed: %w\", err)","				return fmt.Errorf(\"SendProbe() failed: %v\", err)"),
 ("C10","udp_double_close","udp/udp_traceroute.go","	driver := newUDPDriver(u, handle.Sink, handle.Source)\n	defer driver.Close()","	driver := newUDPDriver(u, handle.Sink, handle.Source)\n	defer driver.Close()\n	defer handle.Source.Close()"),
 ("C11","packet_id_load_then_store","packets/packetid_alloc.go","	next := curPacketID.Add(maxTTL32) - maxTTL32","	next := curPacketID.Load()\n	curPacketID.Store(next + maxTTL32)"),
 ("C11","tcp_ignores_destination_port","tcp/tcp_driver.go","		if t.config.srcPort != uint16(t.parser.TCP.DstPort) {","		if false && t.config.srcPort != uint16(t.parser.TCP.DstPort) {"),
 ("C12","tcp_filter_wrong_jump","packets/tcp_filter.go","		bpf.JumpIf{Cond: bpf.JumpEqual, Val: 0x1, SkipTrue: 12, SkipFalse: 0},","		bpf.JumpIf{Cond: bpf.JumpEqual, Val: 0x1, SkipTrue: 11, SkipFalse: 0},"),
 ("C12","tcp_filter_loads_wrong_offset","packets/tcp_filter.go","		bpf.LoadAbsolute{Size: 4, Off: 26},","		bpf.LoadAbsolute{Size: 4, Off: 24},"),
 ("C12","tcp_filter_ignores_fragments","packets/tcp_filter.go","		bpf.JumpIf{Cond: bpf.JumpBitsSet, Val: 0x1fff, SkipTrue: 6, SkipFalse: 0},","		bpf.JumpIf{Cond: bpf.JumpBitsSet, Val: 0x1fff, SkipTrue: 0, SkipFalse: 0},"),
 ("C13","ethertype_not_in_network_order","packets/afpacket_source_linux.go","	return i<<8 | i>>8","	return i"),
 ("C14","udp_probe_lookup_without_lock","udp/udp_driver.go","func (u *udpDriver) findMatchingProbe(probeID probeID) (probeData, bool) {\n	u.mu.Lock()\n	defer u.mu.Unlock()\n","func (u *udpDriver) findMatchingProbe(probeID probeID) (probeData, bool) {\n"),
 ("C14","icmp_store_probe_without_lock","icmp/icmp_driver.go","func (s *icmpDriver) storeProbe(ttl uint8) error {\n	s.mu.Lock()\n	defer s.mu.Unlock()\n","func (s *icmpDriver) storeProbe(ttl uint8) error {\n"),
 ("C15","first_error_only","traceroute/traceroute.go","		return nil, errors.Join(multiErr...)","		return nil, errors.Join(multiErr[0])"),
 ("C15","wg_add_inside_goroutine","traceroute/traceroute.go","		wg.Add(1)\n		go func() {\n			defer wg.Done()\n			trRun, err := runTracerouteOnceFn(ctx, params, destinationPort)","		go func() {\n			wg.Add(1)\n			defer wg.Done()\n			trRun, err := runTracerouteOnceFn(ctx, params, destinationPort)"),
 ("C15","error_drops_rtt_sample_only","traceroute/traceroute.go","				if err != nil {\n					multiErr = append(multiErr, err)\n					results.E2eProbe.RTTs = append(results.E2eProbe.RTTs, 0.0)","				if err != nil {\n					results.E2eProbe.RTTs = append(results.E2eProbe.RTTs, 0.0)"),
 ("C16","zero_rtt_counts_as_received","result/result.go","		if rtt > 0.0 {","		if rtt >= 0.0 {"),
 ("C16","json_tag_renamed","result/result.go","		PacketsSent          int         `json:\"packets_sent\"`","		PacketsSent          int         `json:\"packetsSent\"`"),
 ("C17","private_test_on_4_byte_form_only","result/result.go","			if hop.IPAddress.IsPrivate() {","			if len(hop.IPAddress) == 4 && hop.IPAddress.IsPrivate() {"),
 ("C17","handler_drops_skip_private_flag","server/utils.go","		SkipPrivateHops:       skipPrivateHops,","		SkipPrivateHops:       false && skipPrivateHops,"),
 ("C18","cache_stores_errors","cache/cache.go","	if err == nil {\n		Cache.Set(key, res, expire)\n	}","	Cache.Set(key, res, expire)"),
 ("C18","client_error_is_retried","publicip/fetcher.go","		return nil, backoff.Permanent(errors.New(\"client error: \" + resp.Status))","		return nil, errors.New(\"client error: \" + resp.Status)"),
 ("C18","rdns_keyed_by_string_on_write_only","reversedns/reversedns.go","				outputIPs[string(ip)] = destRDns","				outputIPs[ip.String()] = destRDns"),
 ("C19","port_upper_bound_dropped","traceroute/runner.go","	if err != nil || port < 1 || port > 65535 {","	if err != nil || port < 1 {"),
 ("C19","ttl_upper_bound_too_lax","traceroute/runner.go","	if params.MinTTL < 1 || params.MaxTTL > 255 || params.MinTTL > params.MaxTTL {","	if params.MinTTL < 1 || params.MaxTTL > 300 || params.MinTTL > params.MaxTTL {"),
 ("C20","fallback_on_any_error","traceroute/runner.go","		if errors.As(err, &sackNotSupportedErr) {\n			return doSyn()\n		}","		if errors.As(err, &sackNotSupportedErr) || err != nil {\n			return doSyn()\n		}"),
 ("C20","e2e_not_forced_to_syn","traceroute/runner.go","	if params.Protocol == \"tcp\" && (params.TCPMethod == TCPConfigSACK || params.TCPMethod == TCPConfigPreferSACK) {","	if false && params.Protocol == \"tcp\" {"),
]
root='/var/tmp/mkmut'
shutil.rmtree(root,ignore_errors=True)
subprocess.check_call(['cp','-r','/repo',root])
bad=0
for pid,name,f,old,new in M:
    p=os.path.join(root,f)
    s=open(p).read()
    if s.count(old)!=1:
        print("PATTERN PROBLEM",pid,name,s.count(old)); bad+=1; continue
    open(p,'w').write(s.replace(old,new))
    d=subprocess.check_output(['git','-C',root,'diff'])
    os.makedirs('/verif/mutants/'+pid,exist_ok=True)
    open('/verif/mutants/%s/%s.patch'%(pid,name),'wb').write(d)
    subprocess.check_call(['git','-C',root,'checkout','-q','--','.'])
shutil.rmtree(root)
print("mutants written:",len(M)-bad,"problems:",bad)
