// Package c04: destination marking. A hop is the destination exactly when the
// reply used for it came from the target in the form that proves arrival for the
// protocol in use.
package c04

import (
	"fmt"

	"verif/props/proto"
	"verif/simnet"
)

func base(v string, first, last, dest int) proto.Scn {
	return proto.Scn{Variant: v, First: first, Last: last, Dest: dest, IPIDBase: 400, EchoBase: 31, TimeoutMs: 300, DelayMs: 10}
}

func allForms(vi proto.VInfo) []string {
	var fs []string
	if vi.V6 {
		fs = append(fs, simnet.ICMPErrForms6...)
	} else {
		fs = append(fs, "te28", "teFull", "teExt")
	}
	fs = append(fs, simnet.DUForms...)
	switch vi.Kind {
	case "icmp4", "icmp6":
		fs = append(fs, "echo")
	case "tcp", "tcpparis":
		fs = append(fs, "synack", "rst", "rstack", "tcpack", "tcpfinack", "tcppshack", "tcpsyn")
	case "sack":
		fs = append(fs, "sack1", "sack3", "sackTS")
	}
	return fs
}

func gen(tier string) []proto.Item {
	var items []proto.Item
	type rg struct{ first, last int }
	ranges := []rg{{1, 4}}
	if tier == "thorough" {
		ranges = []rg{{1, 4}, {254, 255}, {2, 6}}
	}
	for _, v := range proto.Variants {
		vi := proto.Info(v)
		for _, r := range ranges {
			rtag := fmt.Sprintf("r%d-%d", r.first, r.last)
			dest := r.first + 2
			if dest > r.last {
				dest = r.last
			}
			target := (&proto.Scn{Variant: v}).Target().String()
			router := proto.Router(vi.V6, 0, 99).String()
			foreign := proto.Evil(vi.V6).String()
			for _, pos := range []struct {
				name string
				ttl  int
			}{{"router-position", r.first}, {"destination-position", dest}} {
				for _, form := range allForms(vi) {
					for _, resp := range []struct{ name, addr string }{{"target", target}, {"router", router}, {"foreign-host", foreign}} {
						// alone
						s := base(v, r.first, r.last, dest)
						s.Hops = map[int]proto.HopSpec{pos.ttl: {Form: form, From: resp.addr, AtTarget: resp.name == "target"}}
						items = append(items, proto.Item{Scn: s, Class: fmt.Sprintf("%s/%s/%s/%s/from-%s/alone", v, rtag, pos.name, form, resp.name)})
						if vi.Kind == "tcp" || vi.Kind == "tcpparis" || vi.Kind == "sack" {
							// the capture filter is "purely a performance optimization" (a no-op on some platforms): the matcher
							// must be right on its own, so the same item also runs with filtering off
							s2 := s
							s2.FiltersOff = true
							items = append(items, proto.Item{Scn: s2, Class: fmt.Sprintf("%s/%s/%s/%s/from-%s/alone/filters-off", v, rtag, pos.name, form, resp.name)})
						}
						if resp.name == "target" && !simnet.IsICMPError(form) && (vi.Kind == "tcp" || vi.Kind == "tcpparis" || vi.Kind == "sack") {
							// "from the target PORT": the same segment from another port of the target host, or addressed to
							// another local port (a sibling connection), proves nothing; the matcher alone must see that
							for _, f := range []string{"tcp.sport", "tcp.dport"} {
								for _, op := range []string{"+1", "+256"} {
									s3 := base(v, r.first, r.last, dest)
									s3.FiltersOff = true
									s3.Hops = map[int]proto.HopSpec{pos.ttl: {Form: form, From: resp.addr, AtTarget: true, Perturb: &simnet.Perturb{Field: f, Op: op}, Tag: "wrong-port"}}
									items = append(items, proto.Item{Scn: s3, Class: fmt.Sprintf("%s/%s/%s/%s/from-target-address-wrong-%s/alone/filters-off", v, rtag, pos.name, form, f)})
									if op == "+1" && pos.ttl == r.first {
										// ... on a capture handle that does not hand the run its own outgoing probes back (nothing is parsed
										// between the rejected segment and the next router's time-exceeded)
										s4 := s3
										s4.NoOwnLoop = true
										items = append(items, proto.Item{Scn: s4, Class: fmt.Sprintf("%s/%s/%s/%s/from-target-address-wrong-%s/alone/filters-off/own-probes-not-captured", v, rtag, pos.name, form, f)})
									}
								}
							}
						}
						if vi.Relaxed && simnet.IsICMPError(form) {
							// relaxed variants exist for paths where a NAT does not translate the quoted datagram back: the same error
							// with a quoted source (address, port) that is not the local one is still this run's reply, and whether it
							// marks the destination depends on who sent it exactly as before
							for _, f := range []string{"q.src", "q.sport"} {
								s6 := base(v, r.first, r.last, dest)
								s6.Hops = map[int]proto.HopSpec{pos.ttl: {Form: form, From: resp.addr, AtTarget: resp.name == "target", Rewrite: []simnet.Perturb{{Field: f, Op: "+1"}}}}
								if resp.name == "target" {
									// (every later probe is answered the same way: no other kind of reply can mark the hop afterwards)
									for t := pos.ttl + 1; t <= r.last; t++ {
										s6.Hops[t] = s6.Hops[pos.ttl]
									}
								}
								items = append(items, proto.Item{Scn: s6, Class: fmt.Sprintf("%s/%s/%s/%s/from-%s/quoted-%s-rewritten/alone", v, rtag, pos.name, form, resp.name, f)})
							}
						}
						if resp.name == "foreign-host" && simnet.IsICMPError(form) {
							// the foreign host's error quotes a datagram addressed to ITSELF (it is the nearer target of some other
							// traceroute from this host, same ports / identifiers): it says nothing about our target
							s4 := base(v, r.first, r.last, dest)
							s4.Hops = map[int]proto.HopSpec{pos.ttl: {Form: form, From: resp.addr, Perturb: &simnet.Perturb{Field: "q.dst", Op: "responder"}, Tag: "quotes-itself"}}
							items = append(items, proto.Item{Scn: s4, Class: fmt.Sprintf("%s/%s/%s/%s/from-foreign-host-quoting-itself-as-destination/alone", v, rtag, pos.name, form)})
						}
						if resp.name == "target" && !vi.V6 && !simnet.IsICMPError(form) {
							// the proving reply arrives in an IPv6 datagram from the IPv4-MAPPED form of the target's address: not the
							// target of an IPv4 run (capture filtering off: the ICMP filter lets ICMPv6 through anyway)
							s5 := base(v, r.first, r.last, dest)
							s5.FiltersOff = true
							s5.Hops = map[int]proto.HopSpec{pos.ttl: {Form: "v6mapped:" + form, From: resp.addr, Tag: "other-family"}}
							items = append(items, proto.Item{Scn: s5, Class: fmt.Sprintf("%s/%s/%s/%s/from-target-ipv4-mapped-ipv6/alone/filters-off", v, rtag, pos.name, form)})
						}
						// together with the position's ordinary reply, before and after it
						for _, order := range []string{"first", "second"} {
							s := base(v, r.first, r.last, dest)
							dl := 1500
							if order == "second" {
								dl = proto.DefaultDelayUs(pos.ttl) + 20000
							}
							s.Inject = []proto.Inject{{OnTTL: pos.ttl, AnswerTTL: pos.ttl, Form: form, From: resp.addr, DelayUs: dl, Tag: "c04-" + order, Genuine: true}}
							items = append(items, proto.Item{Scn: s, Class: fmt.Sprintf("%s/%s/%s/%s/from-%s/arrives-%s", v, rtag, pos.name, form, resp.name, order)})
						}
					}
				}
			}
		}
	}
	// TCP SYN with the sequence number 2^32-1 (default mode: drawn once per run; Paris mode: per probe): the target's
	// SYN-ACK / RST-ACK acknowledges 0 and is its answer all the same - the hop carries the destination mark
	for _, v := range []string{"syn", "synr", "synparis"} {
		for _, form := range []string{"synack", "rstack"} {
			for _, filtersOff := range []bool{false, true} {
				s := base(v, 1, 4, 3)
				s.Rand = []uint32{0xffffffff, 0xffffffff, 0xffffffff, 0xffffffff, 0xffffffff, 0xffffffff, 0xffffffff, 0xffffffff}
				s.Hops = map[int]proto.HopSpec{3: {Form: form}, 4: {Form: form}}
				s.FiltersOff = filtersOff
				items = append(items, proto.Item{Scn: s, Class: fmt.Sprintf("%s/r1-4/destination-position/%s/from-target/sequence-number-all-ones%s", v, form, map[bool]string{false: "", true: "/filters-off"}[filtersOff])})
			}
		}
	}
	return items
}

func check(it *proto.Item, r *proto.Result) []proto.Issue {
	if r.Obs[0].Err != nil {
		return nil // aborting on a reply is C09's subject
	}
	return proto.DestMark(&it.Scn, r, 0)
}

var F = &proto.Family{ID: "C04", Gen: gen, Check: check,
	Bound: func(tier string) int {
		if tier == "thorough" {
			return 3
		}
		return 2
	}}

func init() {
	F.Register("model_checking",
		"item = (variant, TTL range, position, reply form from the whole catalogue, responder in {target, a router address, a foreign host replaying the same identifiers}, alone / arriving before / after the position's ordinary reply); complete product enumerated over the simulated wire; "+
			"oracle: a hop is marked destination iff the reply backing it has the protocol's proof-of-arrival form and was sent by the target (echo reply: ICMP; any matched ICMP error from the target: UDP; SYN-ACK/RST from the target port: SYN; selective ACK or time-exceeded from the target: SACK); distinct = distinct hop lists",
		nil)
}
