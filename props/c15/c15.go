// Package c15: a multi-query request is all-or-error with exact counts.
package c15

import (
	"context"
	"encoding/json"
	"errors"
	"fmt"
	"net"
	"os"
	"sort"
	"time"

	"io"
	"net/http"
	"strings"

	"github.com/DataDog/datadog-traceroute/cache"
	"github.com/DataDog/datadog-traceroute/publicip"
	"github.com/DataDog/datadog-traceroute/result"
	"github.com/DataDog/datadog-traceroute/reversedns"
	"github.com/DataDog/datadog-traceroute/traceroute"

	"verif/props/core"
	"verif/props/proto"
	"verif/shim/vctx"
	"verif/shim/vtime"
	"verif/simnet"
	"verif/vsched"
)

// ---- (a) scripted per-run function ----------------------------------------------------------------

type AScn struct {
	Q, E     int    `json:"-"`
	Queries  int    `json:"queries"`
	E2e      int    `json:"e2e"`
	FailMask int    `json:"fail_mask"` // bit i: call i fails (calls 0..Q-1 = runs in start order, Q.. = probes in start order)
	Rank     []int  `json:"rank"`      // completion rank of call i
	PublicIP string `json:"public_ip"`
	RDNS     bool   `json:"rdns"`
	NoDest   int    `json:"no_dest_mask"` // bit i (e2e calls): the run succeeds but has no destination hop (unanswered probe => 0)
	ErrKind  int    `json:"err_kind"`     // 0 plain error, 1 a net.Error whose Timeout() is true, 2 a wrapped context.DeadlineExceeded
	Stagger  bool   `json:"stagger"`      // the end-to-end probes are launched far apart (runs complete in between) instead of almost at once
	Bound    int    `json:"bound"`
	// the caller's context is cancelled at this virtual instant while the scripted runs (like the UDP and TCP engines once
	// they are reading) carry on and succeed: the request is then an error without a result, or a success with exact counts
	CancelAtMs int `json:"cancel_at_ms,omitempty"`
	// LateCancel: the cancellation instant lies after every run and probe has completed - only the (slow, or context-bound)
	// public-IP lookup is still outstanding: not determining the public IP never fails the request
	LateCancel bool `json:"late_cancel,omitempty"`
	// DelayBounded: every departure from the default schedule costs one deviation (with Bound 0: the default schedule
	// only) - for requests with so many calls in flight that the free orders of their threads cannot be enumerated
	DelayBounded bool `json:"delay_bounded,omitempty"`
	// PartialOnFail: a failing call hands back what it had collected so far (a run with its first hop) TOGETHER with its
	// error; it has failed all the same
	PartialOnFail bool `json:"partial_on_fail,omitempty"`
}

type fetcher struct{ mode string }

func (f *fetcher) GetIP(ctx context.Context) (net.IP, error) {
	vsched.Yield("publicip")
	switch f.mode {
	case "ok":
		return net.ParseIP("192.0.2.200"), nil
	case "slow":
		vtime.Sleep(30 * time.Second)
		return net.ParseIP("192.0.2.200"), nil
	case "until-context-ends":
		if d := ctx.Done(); d != nil {
			<-vsched.RecvCh(d)
			return nil, ctx.Err()
		}
		vtime.Sleep(30 * time.Second)
		return nil, errors.New("no public ip")
	}
	return nil, errors.New("no public ip")
}

var errSameCause = errors.New("sendto: operation not permitted")

// leafCount: the number of individual failures a joined error exposes.
func leafCount(err error) int {
	switch x := err.(type) {
	case nil:
		return 0
	case interface{ Unwrap() []error }:
		n := 0
		for _, e := range x.Unwrap() {
			n += leafCount(e)
		}
		return n
	case interface{ Unwrap() error }:
		if u := x.Unwrap(); u != nil {
			return leafCount(u)
		}
	}
	return 1
}

type aObs struct {
	res   *result.Results
	err   error
	errs  []error // injected errors by call index
	calls int
	trN   int
	e2eN  int
}

func runA(sc *AScn, prefix []int, sig []uint32) (*vsched.Exec, *aObs) {
	o := &aObs{errs: make([]error, sc.Queries+sc.E2e)}
	for i := range o.errs {
		switch sc.ErrKind {
		case 1:
			o.errs[i] = &net.OpError{Op: "read", Net: "ip4", Err: fmt.Errorf("call %d: %w", i, os.ErrDeadlineExceeded)}
		case 2:
			o.errs[i] = fmt.Errorf("call %d timed out: %w", i, context.DeadlineExceeded)
		case 3:
			// every failing call fails with the SAME error value and text (one common cause: "operation not permitted")
			o.errs[i] = errSameCause
		default:
			o.errs[i] = fmt.Errorf("injected failure of call %d", i)
		}
	}
	cache.Cache.Flush()
	old := reversedns.LookupAddrFn
	reversedns.LookupAddrFn = func(ctx context.Context, a string) ([]string, error) {
		vsched.Yield("rdns")
		return []string{"n-" + a}, nil
	}
	defer func() { reversedns.LookupAddrFn = old }()
	traceroute.VerifSetRunOnce(func(ctx context.Context, p traceroute.TracerouteParams, port int) (*result.TracerouteRun, error) {
		vsched.Yield("runOnce")
		o.calls++
		idx := 0
		isE2e := p.MinTTL == p.MaxTTL
		if isE2e {
			idx = sc.Queries + o.e2eN
			o.e2eN++
		} else {
			idx = o.trN
			o.trN++
		}
		if idx >= len(sc.Rank) {
			return nil, fmt.Errorf("unexpected extra call")
		}
		vtime.Sleep(time.Duration(sc.Rank[idx]+1) * 100 * time.Millisecond)
		if sc.FailMask&(1<<idx) != 0 {
			if sc.PartialOnFail {
				return &result.TracerouteRun{Source: result.TracerouteSource{Port: uint16(1000 + idx)}, Destination: result.TracerouteDestination{IPAddress: net.ParseIP("203.0.113.9")},
					Hops: []*result.TracerouteHop{{TTL: 1, IPAddress: net.IP{198, 51, 100, byte(idx + 1)}, RTT: 1}, {TTL: 2, IPAddress: net.ParseIP("203.0.113.9"), RTT: 99, IsDest: true}}}, o.errs[idx]
			}
			return nil, o.errs[idx]
		}
		run := &result.TracerouteRun{Source: result.TracerouteSource{Port: uint16(1000 + idx)}, Destination: result.TracerouteDestination{IPAddress: net.ParseIP("203.0.113.9")},
			Hops: []*result.TracerouteHop{{TTL: 1, IPAddress: net.IP{198, 51, 100, byte(idx + 1)}, RTT: 1}}}
		if !(isE2e && sc.NoDest&(1<<idx) != 0) {
			run.Hops = append(run.Hops, &result.TracerouteHop{TTL: 2, IPAddress: net.ParseIP("203.0.113.9"), RTT: float64(idx) + 10.5, IsDest: true})
		}
		return run, nil
	})
	defer traceroute.VerifSetRunOnce(nil)
	tr := traceroute.VerifNewTraceroute(&fetcher{sc.PublicIP})
	x := vsched.Run(vsched.Config{Prefix: prefix, PrefixSig: sig, MaxVirtual: time.Hour, DelayBounded: sc.DelayBounded}, nil, func() {
		ctx := context.Background()
		if sc.CancelAtMs != 0 {
			var cancel context.CancelFunc
			ctx, cancel = vctx.WithCancelAt(ctx, int64(sc.CancelAtMs)*1_000_000)
			defer cancel()
		}
		o.res, o.err = tr.RunTraceroute(ctx, traceroute.TracerouteParams{Hostname: "203.0.113.9", Protocol: "udp", MinTTL: 1, MaxTTL: 5, Delay: 1,
			Timeout: map[bool]time.Duration{false: time.Millisecond, true: 100 * time.Millisecond}[sc.Stagger], TracerouteQueries: sc.Queries, E2eQueries: sc.E2e, CollectSourcePublicIP: sc.PublicIP != "", ReverseDns: sc.RDNS})
	})
	return x, o
}

func checkA(sc *AScn, x *vsched.Exec, o *aObs) (string, string) {
	switch x.Outcome {
	case vsched.Crash:
		return "crash", x.Crash.Value + "\n" + x.Crash.Stack
	case vsched.Deadlock:
		return "hang", fmt.Sprint(x.Blocked)
	case vsched.Horizon:
		return "horizon", ""
	}
	n := sc.Queries + sc.E2e
	if sc.LateCancel && o.err != nil {
		return "public-ip-wait-failed-the-request", fmt.Sprintf("every run and probe had succeeded when the caller's context ended (at %d ms); only the public-IP lookup was outstanding: %v", sc.CancelAtMs, o.err)
	}
	if sc.CancelAtMs != 0 && o.err != nil && o.res == nil {
		return "", ""
	}
	if o.calls != n {
		return "call-count", fmt.Sprintf("%d runs/probes started, %d requested", o.calls, n)
	}
	if sc.FailMask != 0 {
		if o.err == nil {
			return "failure-swallowed", fmt.Sprintf("fail mask %b, success returned", sc.FailMask)
		}
		if o.res != nil {
			return "result-with-error", ""
		}
		failed := 0
		for i := 0; i < n; i++ {
			if sc.FailMask&(1<<i) != 0 {
				failed++
				if !errors.Is(o.err, o.errs[i]) {
					return "failure-not-exposed", fmt.Sprintf("the error %q does not expose the failure of call %d", o.err, i)
				}
			}
		}
		if sc.ErrKind == 3 && leafCount(o.err) != failed {
			return "failure-not-exposed", fmt.Sprintf("%d calls failed (all with the same cause), the error exposes %d individual failures: %q", failed, leafCount(o.err), o.err)
		}
		return "", ""
	}
	if o.err != nil {
		return "error-without-failure", o.err.Error()
	}
	if o.res == nil {
		return "nil-result", ""
	}
	if len(o.res.Traceroute.Runs) != sc.Queries {
		return "run-count", fmt.Sprintf("%d runs in the result, %d requested", len(o.res.Traceroute.Runs), sc.Queries)
	}
	if len(o.res.E2eProbe.RTTs) != sc.E2e {
		return "rtt-sample-count", fmt.Sprintf("%d RTT samples, %d requested", len(o.res.E2eProbe.RTTs), sc.E2e)
	}
	seen := map[uint16]bool{}
	for _, r := range o.res.Traceroute.Runs {
		if seen[r.Source.Port] {
			return "duplicate-run", fmt.Sprint(r.Source.Port)
		}
		seen[r.Source.Port] = true
		if int(r.Source.Port)-1000 >= sc.Queries {
			return "foreign-run", "an end-to-end probe's run appears among the traceroute runs"
		}
	}
	var want, got []float64
	for i := sc.Queries; i < n; i++ {
		if sc.NoDest&(1<<i) != 0 {
			want = append(want, 0)
		} else {
			want = append(want, float64(i)+10.5)
		}
	}
	got = append(got, o.res.E2eProbe.RTTs...)
	sort.Float64s(want)
	sort.Float64s(got)
	for i := range want {
		if want[i] != got[i] {
			return "rtt-samples", fmt.Sprintf("want %v got %v", want, got)
		}
	}
	switch sc.PublicIP {
	case "ok", "slow":
		if o.res.Source.PublicIP != "192.0.2.200" {
			return "public-ip-missing", o.res.Source.PublicIP
		}
	default:
		if o.res.Source.PublicIP != "" {
			return "public-ip-invented", o.res.Source.PublicIP
		}
	}
	return "", ""
}

func fact(n int) int {
	f := 1
	for i := 2; i <= n; i++ {
		f *= i
	}
	return f
}

func permAt(n, k int) []int {
	el := make([]int, n)
	for i := range el {
		el[i] = i
	}
	out := make([]int, 0, n)
	for i := n; i >= 1; i-- {
		f := fact(i - 1)
		j := k / f
		k %= f
		out = append(out, el[j])
		el = append(el[:j], el[j+1:]...)
	}
	return out
}

type block struct {
	q, e, bound int
	count       int
	rd          int
}

var pubs = []string{"", "ok", "fail", "slow"}

func blocks(tier string) []block {
	maxQ, maxE, maxN := 2, 2, 4
	if tier == "thorough" {
		maxQ, maxE, maxN = 3, 3, 6
	}
	var bs []block
	for q := 0; q <= maxQ; q++ {
		for e := 0; e <= maxE; e++ {
			n := q + e
			if n > maxN {
				continue
			}
			bound := 1
			if n >= 5 {
				bound = 0
			}
			if tier != "thorough" && n >= 4 {
				bound = 0
			}
			// fail masks x no-dest masks (e2e only, only with mask 0) x perms x pubs x rdns
			// reverse DNS fans out one lookup thread per address (3 per run): with >= 2 runs the free orders of those
			// threads alone are 6! and more; enrichment order is C18's subject, so it is switched on only for q <= 1
			rd := 2
			if q >= 2 {
				rd = 1
			}
			c := (1<<n + (1<<e - 1)) * fact(n) * len(pubs) * rd * 2 * errKinds(n)
			bs = append(bs, block{q, e, bound, c, rd})
		}
	}
	return bs
}

// cancelA: the caller goes away before, between and after the paced launches of the end-to-end probes (pacing is
// MaxTTL*Timeout/E2e = 500ms/E2e with Stagger) and while the runs are still completing.
func cancelA(tier string) []*AScn {
	var out []*AScn
	for _, qe := range [][2]int{{0, 2}, {1, 2}, {0, 3}, {2, 3}} {
		if tier != "thorough" && qe[0]+qe[1] > 3 {
			continue
		}
		n := qe[0] + qe[1]
		for _, at := range []int{-1, 1, 60, 170, 251, 340, 420, 600} {
			for _, rev := range []bool{false, true} {
				sc := &AScn{Queries: qe[0], E2e: qe[1], Bound: 1, Stagger: true, CancelAtMs: at}
				sc.Rank = permAt(n, 0)
				if rev {
					sc.Rank = permAt(n, fact(n)-1)
				}
				out = append(out, sc)
			}
		}
	}
	return out
}

// lateCancelA: every run and probe succeeds and is over by 400 ms; the public-IP lookup is slow (30 s) or ends only with the
// caller's context; the context is cancelled at 1 s / 5 s: the request succeeds (with or without a public IP)
func lateCancelA() []*AScn {
	var out []*AScn
	for _, qe := range [][2]int{{1, 0}, {2, 1}, {0, 2}} {
		for _, pub := range []string{"slow", "until-context-ends"} {
			for _, at := range []int{1000, 5000} {
				n := qe[0] + qe[1]
				out = append(out, &AScn{Queries: qe[0], E2e: qe[1], Bound: 0, PublicIP: pub, CancelAtMs: at, LateCancel: true, Rank: permAt(n, 0)})
			}
		}
	}
	return out
}

// manyA: more calls than any plausible in-flight limit (12 probes; 3 runs and 10 probes), all of them in flight at once
// (they are launched a fraction of a millisecond apart and take 100 ms and more), none / the last four / every third
// failing: exact counts and every failure exposed all the same.
func manyA(tier string) []*AScn {
	var out []*AScn
	for _, qe := range [][2]int{{0, 12}, {3, 10}, {12, 0}} {
		n := qe[0] + qe[1]
		for _, mask := range []int{0, 0xf << (n - 4), 0x249 << 1} {
			for _, rev := range []bool{false, true} {
				sc := &AScn{Queries: qe[0], E2e: qe[1], Bound: 0, DelayBounded: true, FailMask: mask & (1<<n - 1)}
				for i := 0; i < n; i++ {
					if rev {
						sc.Rank = append(sc.Rank, n-1-i)
					} else {
						sc.Rank = append(sc.Rank, i)
					}
				}
				out = append(out, sc)
			}
		}
	}
	return out
}

// partialA: failing calls that return a partial run together with their error.
func partialA(tier string) []*AScn {
	var out []*AScn
	for _, qe := range [][2]int{{1, 0}, {0, 1}, {2, 1}, {1, 2}, {3, 0}, {0, 3}} {
		n := qe[0] + qe[1]
		for mask := 1; mask < 1<<n; mask++ {
			for _, rev := range []bool{false, true} {
				sc := &AScn{Queries: qe[0], E2e: qe[1], Bound: 1, FailMask: mask, PartialOnFail: true}
				sc.Rank = permAt(n, 0)
				if rev {
					sc.Rank = permAt(n, fact(n)-1)
				}
				out = append(out, sc)
			}
		}
	}
	return out
}

func extraA(tier string) []*AScn {
	return append(append(append(cancelA(tier), manyA(tier)...), partialA(tier)...), lateCancelA()...)
}

// errKinds: plain / timeout-kind / wrapped deadline / one common cause for every failure (the last one only for requests of
// up to four calls: the largest blocks already take most of the thorough budget)
func errKinds(n int) int {
	if n >= 5 {
		return 3
	}
	return 4
}

func countA(tier string) int {
	t := 0
	for _, b := range blocks(tier) {
		t += b.count
	}
	return t + len(extraA(tier))
}

func atA(tier string, idx int) *AScn {
	n0 := 0
	for _, b := range blocks(tier) {
		n0 += b.count
	}
	if idx >= n0 {
		return extraA(tier)[idx-n0]
	}
	for _, b := range blocks(tier) {
		if idx >= b.count {
			idx -= b.count
			continue
		}
		n := b.q + b.e
		sc := &AScn{Queries: b.q, E2e: b.e, Bound: b.bound}
		sc.ErrKind = idx % errKinds(n)
		idx /= errKinds(n)
		sc.Stagger = idx%2 == 1
		idx /= 2
		sc.RDNS = idx%b.rd == 1
		idx /= b.rd
		sc.PublicIP = pubs[idx%len(pubs)]
		idx /= len(pubs)
		sc.Rank = permAt(n, idx%fact(n))
		idx /= fact(n)
		if idx < 1<<n {
			sc.FailMask = idx
		} else {
			nd := idx - (1 << n) + 1 // 1 .. 2^e-1
			sc.NoDest = nd << b.q
		}
		return sc
	}
	panic("index")
}

// ---- (b) real protocol runs with a send fault in one of them ------------------------------------------

func genB(tier string) []proto.RTItem {
	var items []proto.RTItem
	for _, pr := range []struct{ p, m, h string }{{"udp", "", "203.0.113.77"}, {"icmp", "", "203.0.113.77"}, {"tcp", "syn", "203.0.113.77"}} {
		for _, f := range [][]simnet.Fault{nil, {{Op: "WriteTo", K: -1, Class: "fatal"}}, {{Op: "SetPacketFilter", K: -1, Class: "fatal"}}} {
			r := proto.RTScn{Hostname: pr.h, Protocol: pr.p, Method: pr.m, MinTTL: 1, MaxTTL: 4, DelayMs: 10, TimeoutMs: 100, Queries: 2, E2e: 2, Dest: 3, IPIDBase: 1500, EchoBase: 150, Faults: f, PublicIP: "fail"}
			name := "no-fault"
			if f != nil {
				name = "fault-" + f[0].Op
			}
			items = append(items, proto.RTItem{Scn: r, Class: fmt.Sprintf("wire/%s/%s", pr.p, name)})
			// the same request in a process that logs at trace level (lazily built trace messages are evaluated)
			r.TraceLog = true
			items = append(items, proto.RTItem{Scn: r, Class: fmt.Sprintf("wire/%s/%s/trace-logging", pr.p, name)})
		}
	}
	// the requested counts, including "none of this kind", through both entry points: exactly that many runs and samples
	for _, http := range []bool{false, true} {
		for _, c := range [][2]int{{0, 2}, {1, 0}, {3, 1}, {0, 0}, {1, 1}} {
			r := proto.RTScn{Hostname: "203.0.113.77", Protocol: "udp", MinTTL: 1, MaxTTL: 4, DelayMs: 10, TimeoutMs: 100, Queries: c[0], E2e: c[1], Dest: 3, IPIDBase: 1500, EchoBase: 150, PublicIP: "fail", HTTP: http}
			items = append(items, proto.RTItem{Scn: r, Class: fmt.Sprintf("wire/counts/%s/runs=%d,e2e=%d", map[bool]string{false: "RunTraceroute", true: "http"}[http], c[0], c[1])})
		}
	}
	// the same counts through the command-line front end
	for _, c := range [][2]int{{0, 2}, {1, 0}, {3, 1}, {1, 1}} {
		r := proto.RTScn{Hostname: "203.0.113.77", Protocol: "udp", MinTTL: 1, MaxTTL: 4, DelayMs: 50, TimeoutMs: 100, Queries: c[0], E2e: c[1], Dest: 3, IPIDBase: 1500, EchoBase: 150, CLI: true}
		items = append(items, proto.RTItem{Scn: r, Class: fmt.Sprintf("wire/counts/cli/runs=%d,e2e=%d", c[0], c[1])})
	}
	// every run and every probe of a large request fails: each individual failure is exposed, through both entry points
	for _, http := range []bool{false, true} {
		for _, c := range [][2]int{{3, 20}, {2, 50}} {
			r := proto.RTScn{Hostname: "203.0.113.77", Protocol: "udp", MinTTL: 1, MaxTTL: 4, DelayMs: 10, TimeoutMs: 100, Queries: c[0], E2e: c[1], Dest: 3, IPIDBase: 1500, EchoBase: 150, HTTP: http,
				Faults: []simnet.Fault{{Op: "NewSink", K: 0, Class: "fatal"}}, Bound: -1}
			items = append(items, proto.RTItem{Scn: r, Class: fmt.Sprintf("wire/every-call-fails/%s/runs=%d,e2e=%d", map[bool]string{false: "RunTraceroute", true: "http"}[http], c[0], c[1])})
		}
	}
	// two requests for the same destination with DIFFERENT counts overlap on one Traceroute value (the HTTP server keeps one):
	// each gets its own runs and samples, on every schedule of the two within one deviation
	for _, c := range [][4]int{{2, 1, 1, 0}, {1, 0, 2, 1}, {1, 1, 1, 2}} {
		r := proto.RTScn{Hostname: "203.0.113.77", Protocol: "udp", MinTTL: 1, MaxTTL: 4, DelayMs: 10, TimeoutMs: 100, Queries: c[0], E2e: c[1], Dest: 3, IPIDBase: 1500, EchoBase: 150,
			Overlap2: true, SiblingQueries: c[2], SiblingE2e: c[3], Bound: 1}
		items = append(items, proto.RTItem{Scn: r, Class: fmt.Sprintf("wire/overlapping-requests/runs=%d,e2e=%d+runs=%d,e2e=%d", c[0], c[1], c[2], c[3])})
	}
	// a request no run or probe of which can start (a protocol name the library does not know): an error, no result
	for _, http := range []bool{false, true} {
		for _, pn := range []string{"sctp", "UDP6"} {
			for _, c := range [][2]int{{2, 2}, {1, 0}, {0, 1}} {
				r := proto.RTScn{Hostname: "203.0.113.77", Protocol: pn, MinTTL: 1, MaxTTL: 4, DelayMs: 10, TimeoutMs: 100, Queries: c[0], E2e: c[1], Dest: 3, IPIDBase: 1500, EchoBase: 150, PublicIP: "fail", HTTP: http}
				items = append(items, proto.RTItem{Scn: r, Class: fmt.Sprintf("wire/unknown-protocol/%s/runs=%d,e2e=%d", map[bool]string{false: "RunTraceroute", true: "http"}[http], c[0], c[1]), Note: map[string]string{"cannot_start": "1"}})
			}
		}
	}
	return items
}

// leaves counts the leaf errors of an error tree that are the injected fault.
func leaves(err error) int {
	switch x := err.(type) {
	case interface{ Unwrap() []error }:
		n := 0
		for _, e := range x.Unwrap() {
			n += leaves(e)
		}
		return n
	case interface{ Unwrap() error }:
		if u := x.Unwrap(); u != nil {
			return leaves(u)
		}
	}
	if err == simnet.ErrInjected {
		return 1
	}
	return 0
}

func checkB(it *proto.RTItem, r *proto.RTResult) []proto.Issue {
	if r.Net.Injected > 0 {
		if r.Err == nil {
			return []proto.Issue{{Key: "failure-swallowed", Detail: fmt.Sprintf("fault at %v, success returned: %s", r.Net.InjectedAt, r.Summary())}}
		}
		if it.Scn.HTTP {
			if !strings.Contains(string(r.Body), simnet.ErrInjected.Error()) {
				return []proto.Issue{{Key: "failure-not-exposed", Detail: r.Err.Error()}}
			}
		} else if !errors.Is(r.Err, simnet.ErrInjected) {
			return []proto.Issue{{Key: "failure-not-exposed", Detail: r.Err.Error()}}
		}
		if r.Res != nil {
			return []proto.Issue{{Key: "result-with-error", Detail: ""}}
		}
		if want := it.Scn.Queries + it.Scn.E2e; len(it.Scn.Faults) > 0 && it.Scn.Faults[0].K == 0 {
			// every run and probe failed: one exposed failure each
			got := leaves(r.Err)
			if it.Scn.HTTP {
				got = strings.Count(string(r.Body), simnet.ErrInjected.Error())
			}
			if got < want {
				return []proto.Issue{{Key: "individual-failures-not-all-exposed", Detail: fmt.Sprintf("%d runs and probes failed, the error exposes %d of them", want, got)}}
			}
		}
		return nil
	}
	if it.Note["cannot_start"] != "" {
		if r.Err == nil {
			return []proto.Issue{{Key: "failure-swallowed", Detail: "no run or probe of this request can start, success returned: " + r.Summary()}}
		}
		if r.Res != nil {
			return []proto.Issue{{Key: "result-with-error", Detail: ""}}
		}
		return nil
	}
	if r.Err != nil {
		return []proto.Issue{{Key: "error-without-failure", Detail: r.Err.Error()}}
	}
	if len(r.Res.Traceroute.Runs) != it.Scn.Queries || len(r.Res.E2eProbe.RTTs) != it.Scn.E2e {
		return []proto.Issue{{Key: "counts", Detail: r.Summary()}}
	}
	if it.Scn.Overlap2 {
		if r.Err2 != nil || r.Res2 == nil {
			return []proto.Issue{{Key: "sibling-request-failed", Detail: fmt.Sprint(r.Err2)}}
		}
		if len(r.Res2.Traceroute.Runs) != it.Scn.SiblingQueries || len(r.Res2.E2eProbe.RTTs) != it.Scn.SiblingE2e {
			return []proto.Issue{{Key: "counts", Detail: fmt.Sprintf("the overlapping sibling request asked for %d runs and %d samples and got %d and %d", it.Scn.SiblingQueries, it.Scn.SiblingE2e, len(r.Res2.Traceroute.Runs), len(r.Res2.E2eProbe.RTTs))}}
		}
	}
	return nil
}

// ---- (c) request sequences on ONE long-lived Traceroute with the real public-IP fetcher -----------------------
//
// The HTTP server keeps one Traceroute (and its fetcher) for the life of the process: a request must be answered whatever
// the public-IP lookups of earlier requests did.

// "never-answers": the exchange ends only when the per-provider time limit passes (the lookup fails with a deadline error
// although the caller's context is healthy); "http-503": retried inside that limit
var provKinds = []string{"ok", "http-404", "transport-error", "ok-ipv6", "never-answers", "http-503"}

type CScn struct {
	Seq   []int `json:"provider_per_request"` // provider behaviour during request i
	Bound int   `json:"bound"`
}

type provRT struct{ mode *int }

func (t provRT) RoundTrip(req *http.Request) (*http.Response, error) {
	vsched.Yield("http")
	vtime.Sleep(5 * time.Millisecond)
	switch provKinds[*t.mode] {
	case "ok":
		return &http.Response{StatusCode: 200, Status: "200 OK", Body: io.NopCloser(strings.NewReader("192.0.2.44\n")), Header: http.Header{}, Request: req}, nil
	case "ok-ipv6":
		return &http.Response{StatusCode: 200, Status: "200 OK", Body: io.NopCloser(strings.NewReader("2001:db8::44\n")), Header: http.Header{}, Request: req}, nil
	case "http-404":
		return &http.Response{StatusCode: 404, Status: "404 Not Found", Body: io.NopCloser(strings.NewReader("nope")), Header: http.Header{}, Request: req}, nil
	case "http-503":
		return &http.Response{StatusCode: 503, Status: "503 Service Unavailable", Body: io.NopCloser(strings.NewReader("busy")), Header: http.Header{}, Request: req}, nil
	case "never-answers":
		if d := req.Context().Done(); d != nil {
			<-vsched.RecvCh(d)
			return nil, req.Context().Err()
		}
		vsched.Block(vsched.Never, -1, "http exchange stalled and the request carries no context")
	}
	return nil, errors.New("connection refused")
}

type cObs struct {
	res []*result.Results
	err []error
}

func runC(sc *CScn, prefix []int, sig []uint32) (*vsched.Exec, *cObs) {
	o := &cObs{}
	cache.Cache.Flush()
	traceroute.VerifSetRunOnce(func(ctx context.Context, p traceroute.TracerouteParams, port int) (*result.TracerouteRun, error) {
		vsched.Yield("runOnce")
		vtime.Sleep(50 * time.Millisecond)
		return &result.TracerouteRun{Destination: result.TracerouteDestination{IPAddress: net.ParseIP("203.0.113.9")},
			Hops: []*result.TracerouteHop{{TTL: 1, IPAddress: net.IP{198, 51, 100, 1}, RTT: 1}, {TTL: 2, IPAddress: net.ParseIP("203.0.113.9"), RTT: 10.5, IsDest: true}}}, nil
	})
	defer traceroute.VerifSetRunOnce(nil)
	mode := 0
	tr := traceroute.VerifNewTraceroute(publicip.VerifNewFetcher(&http.Client{Transport: provRT{&mode}}))
	x := vsched.Run(vsched.Config{Prefix: prefix, PrefixSig: sig, MaxVirtual: time.Hour}, nil, func() {
		for _, m := range sc.Seq {
			mode = m
			res, err := tr.RunTraceroute(context.Background(), traceroute.TracerouteParams{Hostname: "203.0.113.9", Protocol: "udp", MinTTL: 1, MaxTTL: 5, Delay: 1,
				Timeout: time.Millisecond, TracerouteQueries: 1, E2eQueries: 1, CollectSourcePublicIP: true})
			o.res, o.err = append(o.res, res), append(o.err, err)
		}
	})
	return x, o
}

func checkC(sc *CScn, x *vsched.Exec, o *cObs) (string, string) {
	switch x.Outcome {
	case vsched.Crash:
		return "crash", x.Crash.Value + "\n" + x.Crash.Stack
	case vsched.Deadlock:
		return "request-never-returns", fmt.Sprintf("after %d completed requests: %v", len(o.res), x.Blocked)
	case vsched.Horizon:
		return "request-never-returns", fmt.Sprintf("after %d completed requests (horizon)", len(o.res))
	}
	known := "" // a successful lookup is remembered (well within its two hours here)
	for i := range sc.Seq {
		if o.err[i] != nil {
			return "public-ip-failure-failed-the-request", fmt.Sprintf("request %d (provider %s): %v", i+1, provKinds[sc.Seq[i]], o.err[i])
		}
		r := o.res[i]
		if len(r.Traceroute.Runs) != 1 || len(r.E2eProbe.RTTs) != 1 {
			return "counts", fmt.Sprintf("request %d: %d runs, %d samples", i+1, len(r.Traceroute.Runs), len(r.E2eProbe.RTTs))
		}
		if known == "" {
			switch provKinds[sc.Seq[i]] {
			case "ok":
				known = "192.0.2.44"
			case "ok-ipv6":
				known = "2001:db8::44"
			}
		}
		want := known
		if r.Source.PublicIP != want {
			return "public-ip", fmt.Sprintf("request %d (providers so far %v): public ip %q, want %q", i+1, sc.Seq[:i+1], r.Source.PublicIP, want)
		}
	}
	return "", ""
}

func genC(tier string) []CScn {
	var out []CScn
	maxLen := 3
	if tier == "thorough" {
		maxLen = 4
	}
	var rec func(cur []int)
	rec = func(cur []int) {
		if len(cur) > 0 {
			out = append(out, CScn{Seq: append([]int{}, cur...), Bound: map[bool]int{false: 0, true: 1}[tier == "thorough"]})
		}
		if len(cur) == maxLen {
			return
		}
		for k := range provKinds {
			rec(append(cur, k))
		}
	}
	rec(nil)
	return out
}

var cCache = map[string][]CScn{}

func cItems(tier string) []CScn {
	if c, ok := cCache[tier]; ok {
		return c
	}
	cCache[tier] = genC(tier)
	return cCache[tier]
}

var FB = &proto.RTFamily{ID: "C15", Gen: genB, Bound: func(string) int { return 1 }, SecondEvery: 2}

func init() {
	FB.Check = checkB
	count := func(tier string) int { return countA(tier) + FB.Count(tier) + len(cItems(tier)) }
	run := func(tier string, idx int, r *core.ScnResult) {
		na := countA(tier)
		if idx >= na+FB.Count(tier) {
			sc := &cItems(tier)[idx-na-FB.Count(tier)]
			r.Nontrivial = len(sc.Seq) > 1
			var o *cObs
			e := &vsched.Explorer{Bound: sc.Bound}
			e.RunOne = func(prefix []int, sig []uint32) *vsched.Exec {
				var x *vsched.Exec
				x, o = runC(sc, prefix, sig)
				return x
			}
			e.Check = func(x *vsched.Exec, cost int) bool {
				if x.Outcome == vsched.Diverged {
					r.Infra = "replay diverged"
					return false
				}
				if k, d := checkC(sc, x, o); k != "" {
					r.Fail(core.Failure{Key: "C15 request-sequence/real-fetcher/" + k, What: d, Scenario: core.JSON(map[string]any{"sequence": sc}), Choices: x.Choices(), Bound: cost})
					return false
				}
				r.Outcome(core.Hash("seq", sc.Seq))
				return true
			}
			e.Explore()
			r.Stats = e.Stats
			return
		}
		if idx >= na {
			FB.Run(tier, idx-na, r)
			return
		}
		sc := atA(tier, idx)
		r.Nontrivial = sc.Queries+sc.E2e > 0
		var o *aObs
		e := &vsched.Explorer{Bound: sc.Bound}
		e.RunOne = func(prefix []int, sig []uint32) *vsched.Exec {
			var x *vsched.Exec
			x, o = runA(sc, prefix, sig)
			return x
		}
		e.Check = func(x *vsched.Exec, cost int) bool {
			if x.Outcome == vsched.Diverged {
				r.Infra = "replay diverged"
				return false
			}
			k, d := checkA(sc, x, o)
			if k != "" {
				r.Fail(core.Failure{Key: fmt.Sprintf("C15 scripted/q%d-e%d/%s", sc.Queries, sc.E2e, k), What: d, Scenario: core.JSON(map[string]any{"scripted": sc}), Choices: x.Choices(), Bound: cost})
				return false
			}
			r.Outcome(core.Hash(sc.Queries, sc.E2e, o.err != nil, sc.PublicIP))
			return true
		}
		e.Explore()
		r.Stats = e.Stats
		if idx%4001 == 0 {
			r.Sample = core.JSON(sc)
		}
	}
	replay := func(scn json.RawMessage, choices []int) (string, bool) {
		var w struct {
			S *AScn `json:"scripted"`
			C *CScn `json:"sequence"`
		}
		json.Unmarshal(scn, &w)
		if w.C != nil {
			x, o := runC(w.C, choices, nil)
			k, d := checkC(w.C, x, o)
			s := fmt.Sprintf("request sequence %s choices %v outcome %s\n", scn, choices, x.Outcome)
			if k != "" {
				return s + "ORACLE FAILED: " + k + ": " + d + "\n", false
			}
			return s + "oracle: ok\n", true
		}
		if w.S != nil {
			x, o := runA(w.S, choices, nil)
			k, d := checkA(w.S, x, o)
			s := fmt.Sprintf("scripted %s choices %v outcome %s err=%v\n", scn, choices, x.Outcome, o.err)
			if k != "" {
				return s + "ORACLE FAILED: " + k + ": " + d + "\n", false
			}
			return s + "oracle: ok\n", true
		}
		return FB.Replay(scn, choices)
	}
	core.Register(&core.Property{ID: "C15", Level: "model_checking",
		Rule: "(a) the per-run function is replaced (through the seam the repository's own tests use) by a scripted one that blocks on a virtual timer and then succeeds or fails: query counts 0..Q x end-to-end probes 0..E x every failing subset x every completion order (all (q+e)! permutations) x unanswered end-to-end probes x public IP {off, ok, error, slower than every run} x reverse DNS on/off, each explored over all schedules within the preemption bound of the real aggregator; " +
			"(b) real protocol runs (2 runs + 2 probes) over the simulated wire with a send / filter fault at every position, and requested counts incl. 0 through both entry points; " +
			"(c) every sequence of <=3 (thorough 4) requests on ONE Traceroute with the real public-IP fetcher whose providers answer / refuse / 404 per request: every request returns, succeeds with exact counts, and carries the public IP iff a lookup has succeeded so far; oracle: success iff no failure, exact run and RTT-sample counts (0 for unanswered), no duplicates, every injected failure found by errors.Is, public-IP failure never fails the call; distinct = distinct (q, e, error?, public-ip mode)",
		Count: count, Run: run, Replay: replay, Exhaustive: true, NeedsNetns: true,
		Assumptions: []string{"a public-IP fetcher that never returns is C08's subject, not C15's"}})
}
