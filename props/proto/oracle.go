package proto

import (
	"fmt"
	"net/netip"
	"strings"

	"verif/refcodec"
	"verif/simnet"
	"verif/vsched"
)

// Issue is one oracle failure: Key is the finding-key suffix (class of failure), Detail is for humans.
type Issue struct {
	Key    string
	Detail string
}

const rttTolNs = 200_000 // 200us: read cost (1us per read) plus queued packets; far below the 100ms poll interval

// sendTimes returns, per TTL, the virtual time the probe was handed to the wire by the run's sink.
func sendTimes(n *simnet.Net, sink int) map[int]int64 {
	m := map[int]int64{}
	for _, e := range n.Ledger {
		if e.Dir == "tx" && e.Sink == sink && e.P != nil {
			if _, dup := m[int(e.P.TTL)]; !dup {
				// the instant the probe was handed to the network = the instant of the send call (a call that waits for
				// buffer space returns later; the drivers take their send time before it)
				m[int(e.P.TTL)] = e.CallT
			}
		}
	}
	return m
}

func lastSentBefore(n *simnet.Net, sink int, at int64) int {
	last := -1
	for _, e := range n.Ledger {
		if e.Dir == "tx" && e.Sink == sink && e.P != nil && e.T <= at {
			last = int(e.P.TTL)
		}
	}
	return last
}

func isDirectTCP(form string) bool { return form == "synack" || form == "rst" || form == "rstack" }

// ProvesArrival reports whether a reply of this form from the target proves the probe reached it, for the variant.
func ProvesArrival(kind, form string, fromTarget bool) bool {
	if !fromTarget {
		return false
	}
	switch kind {
	case "icmp4", "icmp6":
		return form == "echo"
	case "udp4", "udp6":
		return simnet.IsICMPError(form)
	case "tcp", "tcpparis":
		return isDirectTCP(form)
	case "sack":
		return strings.HasPrefix(form, "sack") || strings.HasPrefix(form, "te")
	}
	return false
}

// backing finds the genuine delivery that backs hop h (C01): same TTL (or the TCP default-mode caveat),
// sent by h.Addr, and whose arrival explains the reported RTT.
func backing(sc *Scn, r *Result, i int, h Hop) *Delivered {
	o := r.Obs[i]
	vi := Info(sc.Variant)
	st := sendTimes(r.Net, o.SinkID)
	sent, ok := st[h.TTL]
	if !ok {
		return nil
	}
	ds := r.Deliveries(o.SinkID)
	// a reply is processed when it arrives, except that the serial engine does not read while it waits out the
	// send delay between two probes: processing can lag arrival by up to one send delay there
	lag := int64(rttTolNs)
	if !vi.Parallel {
		lag += int64(sc.SendDelayMs()) * 1e6
	}
	rtt := h.RTTus * 1000
	for k := range ds {
		d := &ds[k]
		if d.From != h.Addr {
			continue
		}
		lat := d.AtNs - sent
		if d.TTL == h.TTL {
			if rtt >= lat-1000 && rtt <= lat+lag {
				return d
			}
			continue
		}
		// TCP SYN default mode: a SYN-ACK/RST carries no per-probe identifier; it may be credited to the probe
		// most recently sent when it is processed (TTL >= the probe that caused it), never to an earlier one
		if ((vi.Kind == "tcp" && isDirectTCP(d.Form)) || (vi.Kind == "tcpparis" && d.Form == "rst")) && d.TTL <= h.TTL { // (a bare RST has no acknowledgement number in any mode)
			last := lastSentBefore(r.Net, o.SinkID, d.AtNs+lag)
			if last != h.TTL && lastSentBefore(r.Net, o.SinkID, d.AtNs) != h.TTL {
				continue
			}
			if lat < 0 {
				lat = 0
			}
			if rtt >= lat-1000 && rtt <= lat+lag {
				return d
			}
		}
	}
	return nil
}

// Attribution is the C01 oracle for run i.
func Attribution(sc *Scn, r *Result, i int) []Issue {
	var out []Issue
	o := r.Obs[i]
	if o.Err != nil || o.Run == nil {
		return nil
	}
	for _, h := range Hops(o.Run) {
		if !h.Addr.IsValid() {
			continue
		}
		if backing(sc, r, i, h) == nil {
			out = append(out, Issue{"unbacked-hop", fmt.Sprintf("hop ttl=%d addr=%s rtt=%dus is not backed by a genuine reply to this run's probe %d from that address; hops: %s", h.TTL, h.Addr, h.RTTus, h.TTL, HopsString(Hops(o.Run)))})
		}
	}
	return out
}

// engineDeadline returns the virtual time until which the run was listening.
func engineWindow(sc *Scn, r *Result, i int, ttl int) (from, to int64) {
	o := r.Obs[i]
	vi := Info(sc.Variant)
	st := sendTimes(r.Net, o.SinkID)
	timeout := int64(sc.TimeoutMs) * 1e6
	delay := int64(sc.SendDelayMs()) * 1e6
	if vi.Parallel {
		first := st[sc.First]
		n := int64(sc.Last - sc.First + 1)
		return st[ttl], first + timeout + n*delay
	}
	return st[ttl], st[ttl] + timeout
}

// Completeness is the C02 oracle: every genuine reply delivered at least one poll interval before the
// engine's deadline (serial: inside the probe's own window) yields its hop, unless beyond the destination hop.
func Completeness(sc *Scn, r *Result, i int) []Issue {
	var out []Issue
	o := r.Obs[i]
	if o.Err != nil || o.Run == nil {
		return nil
	}
	hops := Hops(o.Run)
	byTTL := map[int]Hop{}
	lastTTL := 0
	for _, h := range hops {
		byTTL[h.TTL] = h
		lastTTL = h.TTL
	}
	const poll = int64(100e6)
	for _, d := range r.Deliveries(o.SinkID) {
		if !d.Genuine || d.TTL < sc.First || d.TTL > sc.Last {
			continue
		}
		from, to := engineWindow(sc, r, i, d.TTL)
		if d.AtNs < from || d.AtNs > to-poll {
			continue
		}
		if d.TTL > lastTTL {
			continue // beyond the destination hop (the list was clipped)
		}
		h, ok := byTTL[d.TTL]
		if !ok || !h.Addr.IsValid() {
			out = append(out, Issue{"missing-hop", fmt.Sprintf("genuine %s reply to probe %d from %s delivered at %.3fms (window %.3f..%.3fms) but hop %d is empty; hops: %s", d.Form, d.TTL, d.From, float64(d.AtNs)/1e6, float64(from)/1e6, float64(to)/1e6, d.TTL, HopsString(hops))})
			continue
		}
		if h.Addr != d.From {
			// another genuine reply for the same TTL may have been first
			other := false
			for _, d2 := range r.Deliveries(o.SinkID) {
				if d2.TTL == d.TTL && d2.From == h.Addr && d2.Genuine {
					other = true
				}
			}
			if !other {
				out = append(out, Issue{"wrong-responder", fmt.Sprintf("hop %d reports %s, the responder was %s", d.TTL, h.Addr, d.From)})
			}
		}
	}
	return out
}

// Shape is the C03 oracle on a successful run.
func Shape(sc *Scn, r *Result, i int) []Issue {
	o := r.Obs[i]
	if o.Err != nil || o.Run == nil {
		return nil
	}
	hops := Hops(o.Run)
	var out []Issue
	if len(hops) == 0 {
		return []Issue{{"empty-list", "successful run with an empty hop list"}}
	}
	for k, h := range hops {
		if h.TTL != sc.First+k {
			out = append(out, Issue{"ttl-not-consecutive", fmt.Sprintf("entry %d has ttl %d, want %d; hops: %s", k, h.TTL, sc.First+k, HopsString(hops))})
			break
		}
		if h.Dest && k != len(hops)-1 {
			out = append(out, Issue{"destination-not-last", fmt.Sprintf("entry ttl %d is marked destination but is not last; hops: %s", h.TTL, HopsString(hops))})
		}
		if h.Dest && !h.Addr.IsValid() {
			out = append(out, Issue{"destination-without-address", HopsString(hops)})
		}
	}
	last := hops[len(hops)-1]
	if !last.Dest && last.TTL != sc.Last {
		out = append(out, Issue{"truncated-without-destination", fmt.Sprintf("list ends at ttl %d without a destination entry, max ttl is %d; hops: %s", last.TTL, sc.Last, HopsString(hops))})
	}
	if last.TTL > sc.Last {
		out = append(out, Issue{"beyond-max-ttl", HopsString(hops)})
	}
	return out
}

// DestMark is the C04 oracle: a hop is the destination exactly when its backing reply proves arrival and came from the target.
func DestMark(sc *Scn, r *Result, i int) []Issue {
	o := r.Obs[i]
	if o.Err != nil || o.Run == nil {
		return nil
	}
	vi := Info(sc.Variant)
	var out []Issue
	for _, h := range Hops(o.Run) {
		if !h.Addr.IsValid() {
			if h.Dest {
				out = append(out, Issue{"destination-without-address", ""})
			}
			continue
		}
		d := backing(sc, r, i, h)
		if d == nil {
			if h.Dest {
				out = append(out, Issue{"destination-from-unbacked-reply", fmt.Sprintf("hop ttl=%d addr=%s is marked destination but no genuine reply backs it; hops: %s", h.TTL, h.Addr, HopsString(Hops(o.Run)))})
			}
			continue
		}
		want := ProvesArrival(vi.Kind, d.Form, d.From == sc.Target())
		if want != h.Dest {
			// several genuine replies for the TTL can back the hop equally (same address and RTT class); accept if any agrees
			agree := false
			for _, d2 := range r.Deliveries(o.SinkID) {
				if d2.TTL == d.TTL && d2.From == d.From && ProvesArrival(vi.Kind, d2.Form, d2.From == sc.Target()) == h.Dest {
					agree = true
				}
			}
			if !agree {
				k := "not-marked"
				if h.Dest {
					k = "wrongly-marked"
				}
				out = append(out, Issue{k, fmt.Sprintf("hop ttl=%d addr=%s dest=%v, backing reply form=%s from=%s (target %s); hops: %s", h.TTL, h.Addr, h.Dest, d.Form, d.From, sc.Target(), HopsString(Hops(o.Run)))})
			}
		}
	}
	return out
}

// RTT is the C05 oracle: hop RTT = first accepted genuine reply's arrival - that probe's send time.
func RTT(sc *Scn, r *Result, i int) []Issue {
	o := r.Obs[i]
	if o.Err != nil || o.Run == nil {
		return nil
	}
	st := sendTimes(r.Net, o.SinkID)
	var out []Issue
	// the serial engine does not read while it waits out the send delay: processing may lag arrival by up to one send delay
	tol := int64(rttTolNs)
	if !Info(sc.Variant).Parallel {
		tol += int64(sc.SendDelayMs()) * 1e6
	}
	for _, h := range Hops(o.Run) {
		if !h.Addr.IsValid() {
			if h.RTTus != 0 {
				out = append(out, Issue{"rtt-on-empty-hop", ""})
			}
			continue
		}
		if h.RTTus < 0 {
			out = append(out, Issue{"negative", fmt.Sprintf("hop %d rtt %dus", h.TTL, h.RTTus)})
			continue
		}
		// a hop credited under the TCP no-identifier caveat is judged by backing() alone
		if b := backing(sc, r, i, h); b != nil && b.TTL != h.TTL {
			continue
		}
		// candidates: genuine deliveries for this TTL from this address that arrived during the run; the first one counts
		var first *Delivered
		ds := r.Deliveries(o.SinkID)
		for k := range ds {
			d := &ds[k]
			if d.TTL == h.TTL && d.From == h.Addr && d.AtNs >= st[h.TTL] && d.AtNs <= o.EndNs {
				if first == nil || d.AtNs < first.AtNs {
					first = d
				}
			}
		}
		if first == nil {
			// no reply to this TTL's probe arrived during the run. Attribution is C01's business - except for the timing
			// half of it: the reported time is the distance between THIS probe's send time and the arrival of a reply that
			// answers ANOTHER probe and says so (its identifier names that probe; the no-identifier caveat has been ruled
			// out by backing()): a round-trip time measured across two probes
			if backing(sc, r, i, h) == nil {
				for k := range ds {
					d := &ds[k]
					if d.From == h.Addr && d.TTL != h.TTL && d.AtNs >= st[h.TTL] && d.AtNs <= o.EndNs {
						if w := d.AtNs - st[h.TTL]; h.RTTus*1000 >= w-1000 && h.RTTus*1000 <= w+tol {
							out = append(out, Issue{"measured-against-other-probe", fmt.Sprintf("hop %d: reported %dus = arrival of the reply to probe %d minus the send time of probe %d", h.TTL, h.RTTus, d.TTL, h.TTL)})
							break
						}
					}
				}
			}
			continue
		}
		want := first.AtNs - st[h.TTL]
		got := h.RTTus * 1000
		// a destination reply may legitimately replace an earlier non-destination one
		if got < want-1000 || got > want+tol {
			ok := false
			kind := Info(sc.Variant).Kind
			firstIsDest := ProvesArrival(kind, first.Form, first.From == sc.Target())
			for k := range ds {
				d := &ds[k]
				// (only an earlier NON-destination reply can be replaced: once the destination's own reply has been accepted, later copies do not count)
				if firstIsDest {
					break
				}
				if d.TTL == h.TTL && d.From == h.Addr && h.Dest && ProvesArrival(Info(sc.Variant).Kind, d.Form, d.From == sc.Target()) {
					w := d.AtNs - st[h.TTL]
					if got >= w-1000 && got <= w+tol {
						ok = true
					}
				}
			}
			if !ok {
				key := "not-first-reply"
				for t2, s2 := range st {
					if t2 != h.TTL {
						w := first.AtNs - s2
						if got >= w-1000 && got <= w+tol {
							key = "measured-against-other-probe"
						}
					}
				}
				out = append(out, Issue{key, fmt.Sprintf("hop %d: reported %dus, first genuine reply arrived %dus after the probe was sent", h.TTL, h.RTTus, want/1000)})
			}
		}
	}
	return out
}

// Emission is the C06 oracle, judged by refcodec on the bytes given to the sink.
func Emission(sc *Scn, r *Result, i int) []Issue {
	o := r.Obs[i]
	vi := Info(sc.Variant)
	var out []Issue
	probes := r.Net.Probes(o.SinkID)
	if o.SinkID < 0 {
		probes = nil
	}
	seenTTL := map[int]bool{}
	ids := map[string]int{}
	prevTTL := sc.First - 1
	var prevT int64 = -1
	var src, dst netip.Addr
	var sport, dport uint16
	// when was the destination reply accepted? (first genuine destination delivery time + eps)
	destAt := int64(-1)
	for _, d := range r.Deliveries(o.SinkID) {
		if ProvesArrival(vi.Kind, d.Form, d.From == sc.Target()) && d.TTL >= sc.First && d.TTL <= sc.Last {
			if destAt < 0 || d.AtNs < destAt {
				destAt = d.AtNs
			}
		}
	}
	afterDest := 0
	for k, e := range probes {
		p := e.P
		if p == nil {
			out = append(out, Issue{"unparseable-probe", fmt.Sprintf("probe #%d", k)})
			continue
		}
		if len(p.Problems) > 0 {
			out = append(out, Issue{"malformed-probe", fmt.Sprintf("probe ttl=%d: %v", p.TTL, p.Problems)})
		}
		t := int(p.TTL)
		if seenTTL[t] {
			out = append(out, Issue{"duplicate-ttl", fmt.Sprintf("ttl %d sent twice", t)})
		}
		seenTTL[t] = true
		if t != prevTTL+1 {
			out = append(out, Issue{"ttl-order", fmt.Sprintf("probe #%d has ttl %d after %d", k, t, prevTTL)})
		}
		prevTTL = t
		if t < sc.First || t > sc.Last {
			out = append(out, Issue{"ttl-out-of-range", fmt.Sprintf("ttl %d not in %d..%d", t, sc.First, sc.Last)})
		}
		// pacing is observed where the property observes it: the instants at which the packets are passed to Sink.WriteTo
		if prevT >= 0 && e.CallT-prevT < int64(sc.SendDelayMs())*1e6 {
			out = append(out, Issue{"pacing", fmt.Sprintf("probes ttl %d and %d are passed to the sink %.3fms apart, delay is %dms", t-1, t, float64(e.CallT-prevT)/1e6, sc.SendDelayMs())})
		}
		prevT = e.CallT
		if k == 0 {
			src, dst, sport, dport = p.Src, p.Dst, p.SrcPort, p.DstPort
		} else if p.Src != src || p.Dst != dst || p.SrcPort != sport || p.DstPort != dport {
			out = append(out, Issue{"flow-changed", fmt.Sprintf("probe ttl %d: %s:%d>%s:%d, first probe %s:%d>%s:%d", t, p.Src, p.SrcPort, p.Dst, p.DstPort, src, sport, dst, dport)})
		}
		if p.Dst != sc.Target() {
			out = append(out, Issue{"wrong-destination", fmt.Sprintf("probe to %s, target %s", p.Dst, sc.Target())})
		}
		// protocol
		wantProto := map[string]uint8{"icmp4": refcodec.ProtoICMP, "icmp6": refcodec.ProtoICMPv6, "udp4": refcodec.ProtoUDP, "udp6": refcodec.ProtoUDP, "tcp": refcodec.ProtoTCP, "tcpparis": refcodec.ProtoTCP, "sack": refcodec.ProtoTCP}[vi.Kind]
		if p.Proto != wantProto {
			out = append(out, Issue{"wrong-protocol", fmt.Sprintf("proto %d", p.Proto)})
		}
		// per-probe identifier
		var id string
		switch vi.Kind {
		case "icmp4", "icmp6":
			id = fmt.Sprintf("seq%d", p.EchoSeq)
		case "udp4":
			id = fmt.Sprintf("ipid%d", p.IPID)
		case "udp6":
			id = fmt.Sprintf("len%d", p.UDPLen)
		case "tcp":
			id = fmt.Sprintf("ipid%d/seq%d", p.IPID, p.Seq)
		case "tcpparis", "sack":
			id = fmt.Sprintf("seq%d", p.Seq)
		}
		if prev, dup := ids[id]; dup {
			out = append(out, Issue{"identifier-reused", fmt.Sprintf("probes ttl %d and %d share identifier %s", prev, t, id)})
		}
		ids[id] = t
		if destAt >= 0 && e.T > destAt+rttTolNs {
			afterDest++
		}
	}
	if afterDest > 1 {
		out = append(out, Issue{"sent-after-destination", fmt.Sprintf("%d probes sent after the destination reply had arrived", afterDest)})
	}
	// order-based (no clock): once the receiver has come back for the next packet after being handed the destination's
	// reply, the reply has been processed; from then on at most one more probe (the one in flight) may be emitted
	if len(r.Obs) == 1 {
		stage, after := 0, 0
		for _, ev := range r.Net.Order {
			switch {
			case stage == 0 && ev.Kind == "read-dest" && ev.Flow == o.SinkID:
				stage = 1
			case stage == 1 && ev.Kind == "read-call":
				stage = 2
			case stage == 2 && ev.Kind == "tx" && ev.Handle == o.SinkID:
				after++
			}
		}
		if after > 1 {
			out = append(out, Issue{"sent-after-destination-was-processed", fmt.Sprintf("%d probes emitted after the destination's reply had been read and the receiver had come back for more", after)})
		}
		// with a send delay the sender sleeps between probes while the receiver, holding the destination's answer, is runnable:
		// one probe may be in flight and one may slip out while the answer is being processed - also when that answer ends
		// the run with an error (SACK: the target acknowledges without blocks) and the receiver never comes back
		if sc.SendDelayMs() > 0 {
			seen, cnt := false, 0
			for _, ev := range r.Net.Order {
				switch {
				case !seen && ev.Kind == "read-dest" && ev.Flow == o.SinkID:
					seen = true
				case seen && ev.Kind == "tx" && ev.Handle == o.SinkID:
					cnt++
				}
			}
			if cnt > 2 {
				out = append(out, Issue{"sent-after-destination-answered", fmt.Sprintf("%d probes emitted after the destination's answer had been handed to the run", cnt)})
			}
		}
	}
	// the run's transport source port is its identifier on the wire: it stays reserved (owned by a socket) while probes go out
	if o.SinkID >= 0 && o.SinkID < len(r.Net.Sinks) {
		if nh := r.Net.Sinks[o.SinkID].PortNotHeld; len(nh) > 0 {
			out = append(out, Issue{"source-port-not-reserved", fmt.Sprintf("probes were sent from ports no socket owned at that moment (proto:port %v): another run can be handed the same flow", nh)})
		}
	}
	// reported endpoints = wire endpoints
	if o.Err == nil && o.Run != nil && len(probes) > 0 {
		rs, _ := netip.AddrFromSlice(o.Run.Source.IPAddress)
		rd, _ := netip.AddrFromSlice(o.Run.Destination.IPAddress)
		if rs.Unmap() != src || rd.Unmap() != dst {
			out = append(out, Issue{"reported-endpoints", fmt.Sprintf("result says %s>%s, wire had %s>%s", rs, rd, src, dst)})
		}
		if vi.Kind != "icmp4" && vi.Kind != "icmp6" {
			if o.Run.Source.Port != sport || o.Run.Destination.Port != dport {
				out = append(out, Issue{"reported-ports", fmt.Sprintf("result says %d>%d, wire had %d>%d", o.Run.Source.Port, o.Run.Destination.Port, sport, dport)})
			}
		}
	}
	return out
}

// Deliveries returns the genuine deliveries of a run. A packet whose perturbed identifier equals the identifier of
// another probe of the same run (an alias) is a genuine reply to that probe iff the probe had been sent when the packet arrived.
func (r *Result) Deliveries(sink int) []Delivered {
	all := r.Script.Sent[sink]
	hasCond := false
	for _, d := range all {
		if d.Conditional {
			hasCond = true
		}
	}
	if !hasCond {
		return all
	}
	st := sendTimes(r.Net, sink)
	var out []Delivered
	for _, d := range all {
		if d.Conditional {
			if t, ok := st[d.TTL]; !ok || t > d.AtNs {
				continue
			}
		}
		out = append(out, d)
	}
	return out
}

// Fatal returns an issue for outcomes no property tolerates.
func Fatal(r *Result) *Issue {
	switch r.X.Outcome {
	case vsched.Crash:
		return &Issue{"crash", r.X.Crash.Value + "\n" + r.X.Crash.Stack}
	case vsched.Deadlock:
		return &Issue{"hang", fmt.Sprint(r.X.Blocked)}
	case vsched.Horizon:
		return &Issue{"no-termination-within-horizon", fmt.Sprintf("virtual=%s steps=%d", r.X.Virtual, r.X.Steps)}
	}
	return nil
}
