package proto

import (
	"encoding/binary"
	"fmt"
	"net/netip"

	"verif/refcodec"
)

// Noise kinds: the per-field mutation lattice of DESIGN.md C09. NoiseCount(kind, len) tells how many
// variants a base reply of the given length has; NoiseApply returns variant #arg.
var NoiseKinds = []string{"truncate", "version", "ihl", "total-length", "protocol", "icmp-type", "l4-offset", "tcp-opt-len", "oversize", "quoted-ihl", "quoted-proto", "quoted-version", "quoted-length", "garbage-payload", "sack-opt-len", "quoted-icmp-type"}

func l4off(b []byte) int {
	if len(b) == 0 {
		return 0
	}
	if b[0]>>4 == 6 {
		return 40
	}
	return int(b[0]&0xf) * 4
}

func NoiseCount(kind string, b []byte) int {
	switch kind {
	case "truncate":
		return len(b) - 1
	case "version", "ihl", "l4-offset", "quoted-ihl", "quoted-version":
		return 16
	case "total-length", "quoted-length":
		return 6
	case "protocol", "icmp-type":
		return 256
	case "tcp-opt-len":
		return 8
	case "oversize":
		return 3
	case "quoted-proto":
		return 7
	case "garbage-payload":
		return 4
	case "ts-opt-len":
		return 8
	case "tcp-flags":
		return 255 // every flag byte except SYN|ACK itself
	case "sack-opt-len":
		return 7
	case "quoted-icmp-type":
		return len(quotedICMPTypes)
	}
	return 0
}

var quotedICMPTypes = []byte{3, 5, 11, 12, 13, 0}
var quotedICMPTypes6 = []byte{1, 2, 3, 4, 129, 135}

// NoiseLabel is the human label of variant arg (bucketed: it is part of finding keys).
func NoiseLabel(kind string, b []byte, arg int) string {
	switch kind {
	case "truncate":
		n := arg + 1
		lo := l4off(b)
		switch {
		case n < 20 && b[0]>>4 == 4, n < 40 && b[0]>>4 == 6:
			return "inside-ip-header"
		case n < lo+8:
			return "inside-l4-header"
		case n < lo+8+20:
			return "inside-quoted-ip-header"
		case n < lo+8+28:
			return "inside-quoted-l4"
		}
		return "tail"
	}
	return fmt.Sprintf("%d", arg)
}

// NoiseApply returns variant #arg of the mutation kind applied to a copy of b (nil if not applicable).
func NoiseApply(kind string, b []byte, arg int) []byte {
	if arg < 0 || arg >= NoiseCount(kind, b) {
		return nil
	}
	o := append([]byte{}, b...)
	v6 := o[0]>>4 == 6
	lo := l4off(o)
	proto := byte(0)
	if v6 {
		proto = o[6]
	} else {
		proto = o[9]
	}
	isICMP := proto == 1 || proto == 58
	q := lo + 8 // quoted header for ICMP errors
	switch kind {
	case "truncate":
		if arg+1 >= len(o) {
			return nil
		}
		return o[:arg+1]
	case "version":
		o[0] = o[0]&0x0f | byte(arg)<<4
	case "ihl":
		if v6 {
			return nil
		}
		o[0] = o[0]&0xf0 | byte(arg)
	case "total-length":
		vals := []int{0, 19, len(o) - 1, len(o) + 1, 65535, 20}
		if v6 {
			vals = []int{0, 1, len(o) - 41, len(o) - 39, 65535, 7}
			binary.BigEndian.PutUint16(o[4:], uint16(vals[arg]))
		} else {
			binary.BigEndian.PutUint16(o[2:], uint16(vals[arg]))
		}
	case "protocol":
		if v6 {
			o[6] = byte(arg)
		} else {
			o[9] = byte(arg)
		}
	case "icmp-type":
		if !isICMP || len(o) < lo+2 {
			return nil
		}
		o[lo] = byte(arg)
		o[lo+1] = 0
	case "tcp-flags":
		if proto != 6 || len(o) < lo+14 {
			return nil
		}
		f := byte(arg)
		if f >= 0x12 {
			f++ // skip SYN|ACK
		}
		o[lo+13] = f
		// only a SYN carries the handshake options: an ordinary segment of the flow has a bare 20-byte header
		o = o[:lo+20]
		o[lo+12] = 5 << 4
		if v6 {
			binary.BigEndian.PutUint16(o[4:], 20)
		} else {
			binary.BigEndian.PutUint16(o[2:], uint16(len(o)))
			refcodec.FixIPv4Checksum(o)
		}
		// keep the segment well-formed: recompute the TCP checksum
		o[lo+16], o[lo+17] = 0, 0
		var src, dst netip.Addr
		if v6 {
			src, _ = netip.AddrFromSlice(o[8:24])
			dst, _ = netip.AddrFromSlice(o[24:40])
		} else {
			src, _ = netip.AddrFromSlice(o[12:16])
			dst, _ = netip.AddrFromSlice(o[16:20])
		}
		binary.BigEndian.PutUint16(o[lo+16:], refcodec.L4Checksum(src, dst, 6, o[lo:]))
	case "l4-offset":
		if proto != 6 || len(o) < lo+13 {
			return nil
		}
		o[lo+12] = o[lo+12]&0x0f | byte(arg)<<4
	case "tcp-opt-len":
		if proto != 6 || len(o) < lo+22 {
			return nil
		}
		// first option's length byte
		vals := []byte{0, 1, 2, 3, 7, 9, 40, 255}
		o[lo+21] = vals[arg]
	case "oversize":
		pad := make([]byte, 1500-len(o))
		for i := range pad {
			pad[i] = byte(i * 7)
		}
		o = append(o, pad...)
		switch arg {
		case 1: // lengths updated to match
			if v6 {
				binary.BigEndian.PutUint16(o[4:], uint16(len(o)-40))
			} else {
				binary.BigEndian.PutUint16(o[2:], uint16(len(o)))
			}
		case 2:
			o = append(o, make([]byte, 600)...)
		}
	case "quoted-ihl":
		if !isICMP || len(o) < q+1 || v6 {
			return nil
		}
		o[q] = o[q]&0xf0 | byte(arg)
	case "quoted-version":
		if !isICMP || len(o) < q+1 {
			return nil
		}
		o[q] = o[q]&0x0f | byte(arg)<<4
	case "quoted-proto":
		if !isICMP || len(o) < q+10 {
			return nil
		}
		vals := []byte{0, 1, 6, 17, 58, 44, 255}
		if v6 {
			o[q+6] = vals[arg]
		} else {
			o[q+9] = vals[arg]
		}
	case "quoted-length":
		if !isICMP || len(o) < q+6 {
			return nil
		}
		vals := []uint16{0, 1, 19, 20, 28, 65535}
		if v6 {
			binary.BigEndian.PutUint16(o[q+4:], vals[arg])
		} else {
			binary.BigEndian.PutUint16(o[q+2:], vals[arg])
		}
	case "ts-opt-len":
		// the TCP timestamps option with a data length of arg (0..7) instead of 8, the freed bytes become NOPs:
		// a well-formed option list whose timestamps option is too short for its kind
		if proto != 6 || len(o) < lo+20 {
			return nil
		}
		end := lo + int(o[lo+12]>>4)*4
		if end > len(o) {
			return nil
		}
		found := false
		for i := lo + 20; i+1 < end; {
			k := o[i]
			if k == 0 {
				break
			}
			if k == 1 {
				i++
				continue
			}
			ln := int(o[i+1])
			if ln < 2 || i+ln > end {
				break
			}
			if k == 8 && ln == 10 {
				o[i+1] = byte(2 + arg)
				for j := i + 2 + arg; j < i+10; j++ {
					o[j] = 1
				}
				found = true
				break
			}
			i += ln
		}
		if !found {
			return nil
		}
	case "quoted-icmp-type":
		// an ICMP error whose quoted datagram is an ICMP message of another type than the echo request the run sent
		// (IPv4: 3, 5, 11, 12, 13, 0; the quote is otherwise untouched, outer checksum recomputed)
		if (proto != 1 && proto != 58) || len(o) < lo+8 {
			return nil
		}
		q := lo + 8
		qproto, qhl := byte(0), 0
		if v6 {
			if len(o) < q+40 {
				return nil
			}
			qproto, qhl = o[q+6], 40
		} else {
			if len(o) < q+20 {
				return nil
			}
			qproto, qhl = o[q+9], int(o[q]&0x0f)*4
		}
		if (qproto != 1 && qproto != 58) || len(o) < q+qhl+8 {
			return nil
		}
		if t := o[lo]; !(t == 11 || t == 3) && !(v6 && (t == 3 || t == 1)) {
			return nil
		}
		o[q+qhl] = quotedICMPTypes[arg]
		if v6 {
			o[q+qhl] = quotedICMPTypes6[arg]
			o[lo+2], o[lo+3] = 0, 0
			src, _ := netip.AddrFromSlice(o[8:24])
			dst, _ := netip.AddrFromSlice(o[24:40])
			binary.BigEndian.PutUint16(o[lo+2:], refcodec.L4Checksum(src, dst, 58, o[lo:]))
		} else {
			o[lo+2], o[lo+3] = 0, 0
			binary.BigEndian.PutUint16(o[lo+2:], refcodec.Checksum(o[lo:]))
		}
	case "sack-opt-len":
		// the SACK option keeps its complete blocks and grows by arg+1 (1..7) stray bytes - a partial trailing block - with
		// its length byte saying so; the option list stays well-formed (padded with no-operations) and so do lengths and checksums
		if proto != 6 || len(o) < lo+20 {
			return nil
		}
		end := lo + int(o[lo+12]>>4)*4
		if end > len(o) {
			return nil
		}
		var opts []byte
		found := false
		for i := lo + 20; i < end; {
			k := o[i]
			if k == 0 || k == 1 {
				opts = append(opts, k)
				i++
				continue
			}
			if i+1 >= end {
				return nil
			}
			ln := int(o[i+1])
			if ln < 2 || i+ln > end {
				return nil
			}
			if k == 5 && ln >= 10 && !found {
				found = true
				opts = append(opts, 5, byte(ln+arg+1))
				opts = append(opts, o[i+2:i+ln]...)
				for j := 0; j <= arg; j++ {
					opts = append(opts, 0xff)
				}
			} else {
				opts = append(opts, o[i:i+ln]...)
			}
			i += ln
		}
		for len(opts)%4 != 0 {
			opts = append(opts, 1)
		}
		if !found || len(opts) > 40 {
			return nil
		}
		payload := append([]byte{}, o[end:]...)
		o = append(append(append([]byte{}, o[:lo+20]...), opts...), payload...)
		o[lo+12] = byte((20+len(opts))/4) << 4
		if v6 {
			binary.BigEndian.PutUint16(o[4:], uint16(len(o)-40))
		} else {
			binary.BigEndian.PutUint16(o[2:], uint16(len(o)))
			refcodec.FixIPv4Checksum(o)
		}
		o[lo+16], o[lo+17] = 0, 0
		var src, dst netip.Addr
		if v6 {
			src, _ = netip.AddrFromSlice(o[8:24])
			dst, _ = netip.AddrFromSlice(o[24:40])
		} else {
			src, _ = netip.AddrFromSlice(o[12:16])
			dst, _ = netip.AddrFromSlice(o[16:20])
		}
		binary.BigEndian.PutUint16(o[lo+16:], refcodec.L4Checksum(src, dst, 6, o[lo:]))
	case "garbage-payload":
		// valid headers, garbage after them
		keep := []int{lo, lo + 4, lo + 8, lo + 8 + 20}[arg]
		if keep > len(o) {
			return nil
		}
		for i := keep; i < len(o); i++ {
			o[i] = byte(0xa5 ^ i)
		}
	default:
		return nil
	}
	return o
}
