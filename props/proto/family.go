package proto

import (
	"encoding/json"
	"fmt"
	"os"
	"strconv"
	"strings"
	"sync"
	"time"

	"verif/props/core"
	"verif/vsched"
)

// Item is one enumerated scenario of a protocol-level family.
type Item struct {
	Scn   Scn    `json:"scn"`
	Class string `json:"class"` // finding-key prefix: the class of the input, no incidental values
	// Extra scenarios that run concurrently on the same wire (C11)
	Also []Scn `json:"also,omitempty"`
	// Free-form expectation data for the family's oracle
	Note map[string]string `json:"note,omitempty"`
}

// Family describes a protocol-level property check.
type Family struct {
	ID    string
	Gen   func(tier string) []Item
	Check func(it *Item, r *Result) []Issue
	Bound func(tier string) int
	Clock bool // allow clock-advance deviations
	// Nontrivial: does this item exercise the oracle's interesting branch
	Nontrivial func(it *Item) bool
	// OutcomeKey: canonical outcome used to count distinct outcomes (default: hop lists without RTTs)
	OutcomeKey func(r *Result) string
	// NoFatalShortcut: the family's own Check judges crashes/hangs (it wants to name the culprit input)
	NoFatalShortcut bool
	// NoSecondRun switches the non-initial-state differential off; SecondEvery is its stride (default 7)
	NoSecondRun bool
	SecondEvery int
	// SameAcrossSchedules: every execution of an item (every schedule within the bound) must report the same hops and
	// the same success/failure as the item's default schedule
	SameAcrossSchedules bool
	// Extra: additional scenarios of the property that are not wire items (enumerators over a component); they come after the items
	ExtraCount  func(tier string) int
	ExtraRun    func(tier string, idx int, r *core.ScnResult)
	ExtraReplay func(scn json.RawMessage, choices []int) (string, bool, bool) // (report, ok, handled)

	mu    sync.Mutex
	cache map[string][]Item
}

func (f *Family) items(tier string) []Item {
	f.mu.Lock()
	defer f.mu.Unlock()
	if f.cache == nil {
		f.cache = map[string][]Item{}
	}
	if it, ok := f.cache[tier]; ok {
		return it
	}
	it := f.Gen(tier)
	f.cache[tier] = it
	return it
}

func (f *Family) Count(tier string) int {
	n := len(f.items(tier))
	if f.ExtraCount != nil {
		n += f.ExtraCount(tier)
	}
	return n
}

func (f *Family) secondEvery() int {
	if f.SecondEvery > 0 {
		return f.SecondEvery
	}
	return 7
}

func (f *Family) scns(it *Item) []*Scn {
	s0 := it.Scn
	s0.Then = append([]Scn{}, it.Scn.Then...)
	out := []*Scn{&s0}
	for k := range it.Also {
		c := it.Also[k]
		out = append(out, &c)
	}
	return out
}

func (f *Family) runItem(it *Item, prefix []int, sig []uint32, trace bool) *Result {
	return RunScns(vsched.Config{ClockDeviation: f.Clock, Prefix: prefix, PrefixSig: sig, Trace: trace, DelayBounded: len(it.Also) > 0}, f.scns(it)...)
}

func firstLines(s string, n int) string {
	out := ""
	for _, l := range strings.SplitN(s, "\n", n+1)[:min(n, strings.Count(s, "\n"))] {
		out += l + "\n"
	}
	return out
}

// RunPlain executes an item once on the default schedule (used by oracles that need a reference run).
func (f *Family) RunPlain(it *Item) *Result { return f.runItem(it, nil, nil, false) }

func (f *Family) Run(tier string, idx int, r *core.ScnResult) {
	items := f.items(tier)
	if idx >= len(items) {
		f.ExtraRun(tier, idx-len(items), r)
		return
	}
	it := &items[idx]
	bound := 0
	if f.Bound != nil {
		bound = f.Bound(tier)
	}
	if it.Scn.Bound > 0 {
		bound = it.Scn.Bound
	} else if it.Scn.Bound < 0 {
		bound = 0 // the item asks for the default schedule only
	}
	r.Nontrivial = f.Nontrivial == nil || f.Nontrivial(it)
	var last *Result
	ref, haveRef := "", false
	e := &vsched.Explorer{Bound: bound}
	debugDiv := os.Getenv("VERIF_DEBUG_DIVERGE") != ""
	type rec struct {
		choices []int
		trace   []string
		wire    string
	}
	var recs []rec
	e.RunOne = func(prefix []int, sig []uint32) *vsched.Exec {
		last = f.runItem(it, prefix, sig, debugDiv)
		if debugDiv {
			if last.X.Outcome == vsched.Diverged {
				fmt.Fprintf(os.Stderr, "DIVERGED at %d, prefix length %d\n", last.X.DivergeAt, len(prefix))
				mine := last.X.TraceLog
				for _, rc := range recs {
					if len(rc.choices) < len(prefix)-1 {
						continue
					}
					same := true
					for k := 0; k < len(prefix)-1; k++ {
						if rc.choices[k] != prefix[k] {
							same = false
							break
						}
					}
					if !same {
						continue
					}
					i := 0
					for i < len(rc.trace) && i < len(mine) && rc.trace[i] == mine[i] {
						i++
					}
					fmt.Fprintf(os.Stderr, "parent found (choices %d long); first differing step %d of %d/%d\n", len(rc.choices), i, len(rc.trace), len(mine))
					fmt.Fprintf(os.Stderr, "PARENT WIRE:\n%s\nREPLAY WIRE:\n%s\n", firstLines(rc.wire, 14), firstLines(last.WireLog(), 14))
					for j := i - 8; j < i+3; j++ {
						if j >= 0 && j < len(mine) && j < len(rc.trace) {
							fmt.Fprintf(os.Stderr, "    [%d] parent: %-60s | replay: %s\n", j, rc.trace[j], mine[j])
						}
					}
				}
			}
			recs = append(recs, rec{last.X.Choices(), last.X.TraceLog, firstLines(last.WireLog(), 14)})
		}
		return last.X
	}
	e.Check = func(x *vsched.Exec, cost int) bool {
		if x.Outcome == vsched.Diverged {
			r.Infra = fmt.Sprintf("item %d (%s): replay diverged at point %d; prefix %v", idx, it.Class, x.DivergeAt, x.Prefix)
			return false
		}
		var issues []Issue
		if fi := Fatal(last); fi != nil && !f.NoFatalShortcut {
			issues = append(issues, *fi)
		} else {
			issues = f.Check(it, last)
			if f.SameAcrossSchedules {
				k := last.Summary0()
				if !haveRef {
					ref, haveRef = k, true
				} else if k != ref {
					issues = append(issues, Issue{Key: "schedule-dependent", Detail: fmt.Sprintf("default schedule: %s ; this schedule: %s", ref, k)})
				}
			}
		}
		for _, is := range issues {
			r.Fail(core.Failure{Key: f.ID + " " + it.Class + "/" + is.Key, What: is.Detail, Scenario: core.JSON(it), Choices: x.Choices(), Bound: cost})
		}
		if f.OutcomeKey != nil {
			r.Outcome(core.Hash(f.OutcomeKey(last)))
		} else {
			r.Outcome(core.Hash(last.Summary0()))
		}
		if len(issues) == 0 {
			r.Branch("ok")
		} else {
			r.Branch("fail")
			return false
		}
		return true
	}
	t0 := time.Now()
	e.Explore()
	if d := time.Since(t0); os.Getenv("VERIF_SLOW") != "" && d > 500*time.Millisecond {
		fmt.Fprintf(os.Stderr, "SLOW item %d %s: %s for %d executions\n", idx, it.Class, d, e.Stats.Executions)
	}
	r.Stats = e.Stats
	// determinism: replay the default execution of a rotating subset and compare everything observable
	if idx%37 == 0 {
		a := f.runItem(it, nil, nil, false)
		b := f.runItem(it, nil, nil, false)
		r.DetChecked++
		if a.Canon() == b.Canon() {
			r.DetEqual++
		} else {
			// the one thing the harness does not own is the kernel's choice of ephemeral ports (they end up in packet bytes and
			// so, rarely, in what a byte-level mutation produces): a difference that does not show again is recorded, not fatal
			a2 := f.runItem(it, nil, nil, false)
			b2 := f.runItem(it, nil, nil, false)
			if a2.Canon() == b2.Canon() {
				r.DetEqual++
				fmt.Fprintf(os.Stderr, "NOTE: item %d (%s): two runs of the same schedule differed once and agreed when repeated (kernel-chosen ports)\n", idx, it.Class)
			} else {
				r.Infra = fmt.Sprintf("item %d (%s): two runs of the same schedule differ:\n%s\n---\n%s", idx, it.Class, a2.Canon(), b2.Canon())
			}
		}
	}
	// non-initial state: a rotating subset of the items is also executed as the SECOND run of the process (after a plain
	// run of the same variant, so that allocators, reused buffers and leftovers of run 1 are in play) and must be judged
	// the same and observe the same hops as when it runs first
	if !f.NoSecondRun && len(it.Also) == 0 && len(it.Scn.Then) == 0 && idx%f.secondEvery() == 0 && r.Infra == "" && len(r.Failures) == 0 {
		pre := Scn{Variant: it.Scn.Variant, First: 1, Last: 3, Dest: 2, TimeoutMs: 200, DelayMs: 10, IPIDBase: it.Scn.IPIDBase, EchoBase: it.Scn.EchoBase, Rand: it.Scn.Rand, FiltersOff: it.Scn.FiltersOff}
		pre.Faults = nil
		second := it.Scn
		pre.Then = []Scn{second}
		res := RunScns(vsched.Config{ClockDeviation: f.Clock}, &pre)
		view := *res
		view.Obs = res.Obs[1:]
		first := f.runItem(it, nil, nil, false)
		r.Branch("second-run-checked")
		if len(it.Scn.Faults) == 0 {
			if fi := Fatal(res); fi != nil && !f.NoFatalShortcut {
				r.Fail(core.Failure{Key: f.ID + " " + it.Class + "/as-second-run/" + fi.Key, What: fi.Detail, Scenario: core.JSON(it)})
			} else {
				for _, is := range f.Check(it, &view) {
					r.Fail(core.Failure{Key: f.ID + " " + it.Class + "/as-second-run/" + is.Key, What: is.Detail, Scenario: core.JSON(&Item{Scn: pre, Class: it.Class + "/as-second-run", Note: it.Note})})
				}
				a, b := HopsKey(Hops(first.Obs[0].Run)), HopsKey(Hops(view.Obs[0].Run))
				if a != b || (first.Obs[0].Err != nil) != (view.Obs[0].Err != nil) {
					r.Fail(core.Failure{Key: f.ID + " " + it.Class + "/as-second-run/differs-from-first-run", What: fmt.Sprintf("as first run: %s ; as second run: %s", a, b), Scenario: core.JSON(&Item{Scn: pre, Class: it.Class + "/as-second-run", Note: it.Note})})
				}
			}
		}
	}
	if idx%211 == 0 {
		r.Sample = core.JSON(map[string]any{"class": it.Class, "scn": it.Scn, "observed": last.Summary0()})
	}
}

func (f *Family) Replay(scn json.RawMessage, choices []int) (string, bool) {
	if f.ExtraReplay != nil {
		if s, ok, handled := f.ExtraReplay(scn, choices); handled {
			return s, ok
		}
	}
	var it Item
	if err := json.Unmarshal(scn, &it); err != nil {
		return err.Error(), false
	}
	res := f.runItem(&it, choices, nil, true)
	s := fmt.Sprintf("class: %s\nscenario: %s\nchoices: %v\noutcome=%s steps=%d virtual=%s\n%s\nwire:\n%s", it.Class, scn, choices, res.X.Outcome, res.X.Steps, res.X.Virtual, res.Summary(), res.WireLog())
	if n, _ := strconv.Atoi(os.Getenv("VERIF_REPEAT")); n > 0 {
		// determinism probe: the same schedule, n times in this process
		ref := res
		for k := 0; k < n; k++ {
			again := f.runItem(&it, choices, nil, true)
			a, b := ref.X.Sigs(), again.X.Sigs()
			same := len(a) == len(b)
			for i := 0; same && i < len(a); i++ {
				same = a[i] == b[i]
			}
			if !same {
				s += fmt.Sprintf("REPEAT %d DIFFERS: %d vs %d points\n", k, len(a), len(b))
				for i := 0; i < len(ref.X.TraceLog) && i < len(again.X.TraceLog); i++ {
					if ref.X.TraceLog[i] != again.X.TraceLog[i] {
						s += fmt.Sprintf("first differing step %d:\n  ref:   %s\n  again: %s\n", i, ref.X.TraceLog[i], again.X.TraceLog[i])
						for j := i - 6; j < i+3 && j < len(ref.X.TraceLog) && j < len(again.X.TraceLog); j++ {
							if j >= 0 {
								s += fmt.Sprintf("   [%d] %s   ||   %s\n", j, ref.X.TraceLog[j], again.X.TraceLog[j])
							}
						}
						break
					}
				}
				break
			}
		}
	}
	if os.Getenv("VERIF_TRACE") != "" {
		for i, l := range res.X.TraceLog {
			s += fmt.Sprintf("T%04d %s\n", i, l)
		}
		for i, p := range res.X.Points {
			s += fmt.Sprintf("P%03d kind=%c n=%d chosen=%d sig=%08x label=%s\n", i, p.Kind, p.N, p.Chosen, p.Sig, p.Label)
		}
	}
	var issues []Issue
	if fi := Fatal(res); fi != nil && !f.NoFatalShortcut {
		issues = append(issues, *fi)
	} else {
		issues = f.Check(&it, res)
		if f.SameAcrossSchedules && len(choices) > 0 {
			def := f.runItem(&it, nil, nil, false)
			if a, b := def.Summary0(), res.Summary0(); a != b {
				issues = append(issues, Issue{Key: "schedule-dependent", Detail: fmt.Sprintf("default schedule: %s ; this schedule: %s", a, b)})
			}
		}
	}
	for _, is := range issues {
		s += fmt.Sprintf("ORACLE FAILED: %s %s/%s: %s\n", f.ID, it.Class, is.Key, is.Detail)
	}
	if len(issues) > 0 {
		return s, false
	}
	return s + "oracle: ok\n", true
}

// Summary0 is the schedule-independent part of the observation (no ports, no RTT noise).
func (r *Result) Summary0() string {
	s := ""
	for i, o := range r.Obs {
		e := ""
		if o.Err != nil {
			e = "error"
		}
		s += fmt.Sprintf("run%d:%s:%s|", i, e, HopsKey(Hops(o.Run)))
	}
	return s
}

// Canon is the full observation with ephemeral ports masked, for determinism comparison.
func (r *Result) Canon() string {
	s := fmt.Sprintf("outcome=%s steps=%d virtual=%d\n", r.X.Outcome, r.X.Steps, r.X.Virtual)
	for i, o := range r.Obs {
		e := ""
		if o.Err != nil {
			e = "error"
		}
		s += fmt.Sprintf("run%d:%s:%s\n", i, e, HopsString(Hops(o.Run)))
	}
	for _, e := range r.Net.Ledger {
		ttl := -1
		if e.P != nil {
			ttl = int(e.P.TTL)
		}
		s += fmt.Sprintf("%d %s ttl=%d len=%d tag=%s\n", e.T, e.Dir, ttl, len(e.Raw), e.Meta.Tag)
	}
	return s
}

// Register wires a family into the worker.
func (f *Family) Register(level, rule string, assumptions []string) {
	core.Register(&core.Property{ID: f.ID, Level: level, Rule: rule, Count: f.Count, Run: f.Run, Replay: f.Replay,
		Assumptions: append([]string{
			"simulated wire: every capture handle sees every inbound packet and the run's own outgoing probes; the installed classic-BPF program is executed by x/net/bpf's VM",
			"virtual clock: computation takes no time, a packet read costs 1us; time passes only when every thread is blocked",
			"checks run in a private network namespace (veth 198.18.0.2/24, fd00:5ac::2/64, default routes) so that local-address discovery and the SACK dial use the kernel unchanged",
		}, assumptions...), Exhaustive: true, NeedsNetns: true})
}
