package proto

import (
	"context"
	"encoding/json"
	"fmt"
	"io"
	stdlog "log"
	"net"
	"net/http"
	"net/http/httptest"
	"net/netip"
	"net/url"
	"sort"
	"strings"
	"time"

	"github.com/DataDog/datadog-traceroute/cache"
	"github.com/DataDog/datadog-traceroute/cmd"
	ddlog "github.com/DataDog/datadog-traceroute/log"
	"github.com/DataDog/datadog-traceroute/packets"
	"github.com/DataDog/datadog-traceroute/publicip"
	"github.com/DataDog/datadog-traceroute/result"
	"github.com/DataDog/datadog-traceroute/reversedns"
	"github.com/DataDog/datadog-traceroute/server"
	"github.com/DataDog/datadog-traceroute/traceroute"

	"verif/refcodec"
	"verif/shim/vctx"
	"verif/shim/vnet"
	"verif/shim/vrand"
	"verif/shim/vtime"
	"verif/simnet"
	"verif/vsched"
)

// RTScn is a request to traceroute.RunTraceroute (or the HTTP handler) over the simulated wire.
type RTScn struct {
	Hostname    string `json:"hostname"` // "" = the family's default target for the protocol; "sack" targets get the listener's port
	Port        int    `json:"port"`
	Protocol    string `json:"protocol"`
	Method      string `json:"method"`
	MinTTL      int    `json:"min_ttl"`
	MaxTTL      int    `json:"max_ttl"`
	DelayMs     int    `json:"delay_ms"`
	TimeoutMs   int    `json:"timeout_ms"`
	WantV6      bool   `json:"want_v6"`
	Paris       bool   `json:"paris"`
	Queries     int    `json:"queries"`
	E2e         int    `json:"e2e"`
	ReverseDNS  bool   `json:"reverse_dns"`
	PublicIP    string `json:"public_ip"` // "", ok, fail, slow
	SkipPrivate bool   `json:"skip_private"`
	HTTP        bool   `json:"http"`          // go through server.TracerouteHandler
	CLI         bool   `json:"cli,omitempty"` // go through the command-line front end (cmd.rootCmd, in-process); fixed: first TTL 1, send delay 50 ms, no public IP
	// TrueSpelling: how an enabled boolean is written in the HTTP query ("" = "true"); any spelling strconv.ParseBool reads as true
	TrueSpelling string `json:"true_spelling,omitempty"`
	// IntSpelling: how non-negative integers are written in the HTTP query: "" = plain decimal, "leading-zero" = 0<decimal>
	// (still the same decimal number), "plus" = +<decimal>
	IntSpelling string `json:"int_spelling,omitempty"`
	// TraceLog: the process logs at trace level (lazily built trace messages are evaluated)
	TraceLog bool `json:"trace_log,omitempty"`
	// FiltersOff: capture filters are accepted and do nothing (as on platforms where they are a no-op)
	FiltersOff bool `json:"filters_off,omitempty"`
	// LingerMs: the caller goes on using the result it was given - it serialises it when the call returns and again this
	// long afterwards (virtual time: whatever the request left running gets to run); the two must agree
	LingerMs int `json:"linger_ms,omitempty"`
	// Overlap: a sibling request overlaps this one on the same Traceroute value (the HTTP server keeps one for all its
	// requests); the sibling asks for the same thing except that it does NOT ask for private hops to be skipped
	Overlap bool `json:"overlap,omitempty"`
	// SiblingQueries / SiblingE2e (with Overlap2): a sibling request for the same destination with these counts overlaps
	// this one on the same Traceroute value; both answers are kept (RTResult.Res2 / Err2)
	Overlap2       bool `json:"overlap2,omitempty"`
	SiblingQueries int  `json:"sibling_queries,omitempty"`
	SiblingE2e     int  `json:"sibling_e2e,omitempty"`
	// MustClosePort: see Scn.MustClosePort
	MustClosePort bool   `json:"must_close_port,omitempty"`
	RawQuery      string `json:"raw_query,omitempty"`

	// the world
	Dest            int               `json:"dest"` // TTL from which the target answers (0 = never)
	Hops            map[int]HopSpec   `json:"hops,omitempty"`
	Inject          []Inject          `json:"inject,omitempty"`     // extra deliveries, for every run and probe of the request
	Capability      string            `json:"capability,omitempty"` // SACK target: "", no-sack-permitted, plain-acks, closed, no-handshake, timestamps
	Faults          []simnet.Fault    `json:"faults,omitempty"`
	IPIDBase        uint32            `json:"ipid_base"`
	EchoBase        uint32            `json:"echo_base"`
	RouterBase      string            `json:"router_base,omitempty"`  // "private": routers use private addresses (C17)
	RouterAddrs     []string          `json:"router_addrs,omitempty"` // address of the router answering TTL 1, 2, ...
	RDNS            map[string]string `json:"rdns,omitempty"`         // address -> "name" | "!error" | "" (empty list)
	Bound           int               `json:"bound"`
	UseListenerPort bool              `json:"use_listener_port,omitempty"`
	CancelAtMs      int               `json:"cancel_at_ms,omitempty"` // the caller's context is cancelled at this virtual instant
	// After: an earlier request served by the same process (its own execution, default schedule) whose process-wide
	// leftovers (caches, allocators, memoised values) are still there when this request runs
	After *RTScn `json:"after,omitempty"`
	keep  bool
}

type stubFetcher struct {
	mode  string
	calls int
}

func (f *stubFetcher) GetIP(ctx context.Context) (net.IP, error) {
	f.calls++
	vsched.Yield("publicip.GetIP")
	switch f.mode {
	case "ok":
		return net.ParseIP("192.0.2.200"), nil
	case "slow":
		vtime.Sleep(20 * time.Second)
		return net.ParseIP("192.0.2.200"), nil
	}
	return nil, fmt.Errorf("public ip unavailable")
}

type hangTransport struct{}

func (hangTransport) RoundTrip(req *http.Request) (*http.Response, error) {
	vsched.Yield("http")
	if d := req.Context().Done(); d != nil {
		<-vsched.RecvCh(d)
		return nil, req.Context().Err()
	}
	vsched.Block(vsched.Never, -1, "http exchange stalled and the request carries no context")
	return nil, fmt.Errorf("unreachable")
}

type RTResult struct {
	// Res2 / Err2: the sibling request's answer (RTScn.Overlap2)
	Res2 *result.Results
	Err2 error
	// ChangedAfterReturn: the result document changed after the call had returned (RTScn.LingerMs)
	ChangedAfterReturn string
	X                  *vsched.Exec
	Net                *simnet.Net
	Script             *Script
	Res                *result.Results
	Err                error
	Status             int
	Body               []byte
	Accepted           int // TCP connections accepted by the harness listener (the target)
	Fetcher            *stubFetcher
	RDNSCalls          map[string]int
	ElapsedNs          int64
	ThreadsLeft        int
	ListenPort         uint16
}

// variantOf maps request parameters to the harness variant name ("" = none / invalid).
func (sc *RTScn) variantOf(target netip.Addr, method string) string {
	switch strings.ToLower(sc.Protocol) {
	case "udp":
		if target.Is6() {
			return "udp6"
		}
		return "udp4"
	case "icmp":
		if target.Is6() {
			return "icmp6"
		}
		return "icmp4"
	case "tcp":
		switch method {
		case "", "syn":
			if sc.Paris {
				return "synparis"
			}
			return "syn"
		case "sack", "prefer_sack":
			return "sack"
		}
	}
	return ""
}

func (sc *RTScn) targetAddr() netip.Addr {
	h := strings.Trim(sc.Hostname, "[]")
	if ap, err := netip.ParseAddrPort(sc.Hostname); err == nil {
		return ap.Addr()
	}
	if a, err := netip.ParseAddr(h); err == nil {
		return a
	}
	// host:port form with v4
	if i := strings.LastIndex(sc.Hostname, ":"); i > 0 {
		if a, err := netip.ParseAddr(strings.Trim(sc.Hostname[:i], "[]")); err == nil {
			return a
		}
	}
	return netip.Addr{}
}

func privateRouter(v6 bool, t int) netip.Addr {
	if v6 {
		return netip.AddrFrom16([16]byte{0xfd, 0x12, 0, 0, 0, 0, 0, 0, 0, 0, 0, 0, 0, 0, 0, byte(t)})
	}
	return netip.AddrFrom4([4]byte{10, 20, 30, byte(t)})
}

type cnt2 struct{ p *int }

func (c cnt2) Ready() bool { return *c.p >= 2 }

// RunRT2 executes the request twice, concurrently.
func RunRT2(cfg vsched.Config, sc *RTScn) *RTResult { return runRT(cfg, sc, true) }

// RunRT executes the request under the scheduler.
func RunRT(cfg vsched.Config, sc *RTScn) *RTResult { return runRT(cfg, sc, false) }

func runRT(cfg vsched.Config, sc *RTScn, twice bool) *RTResult {
	twice = twice || sc.Overlap || sc.Overlap2
	keepProcessState := false
	if sc.After != nil {
		prev := *sc.After
		prev.After = nil
		cache.Cache.Flush()
		prev.keep = true // (flushed just above; runRT must not flush again after its own setup has used the cache)
		runRT(vsched.Config{}, &prev, false)
		keepProcessState = true
	}
	out := &RTResult{RDNSCalls: map[string]int{}}
	target := sc.targetAddr()
	// world: one Scn per run the request may start (queries, e2e probes, prefer_sack fallback)
	var scns []*Scn
	mk := func(variant string, flow int) *Scn {
		s := &Scn{Variant: variant, First: 1, Last: 255, Dest: sc.Dest, Hops: sc.Hops, Inject: append([]Inject{}, sc.Inject...), TimeoutMs: sc.TimeoutMs, DelayMs: sc.DelayMs, Flow: flow, Port: sc.Port}
		s.Defaults()
		return s
	}
	v := sc.variantOf(target, sc.Method)
	flow := 0
	if v != "" && target.IsValid() {
		nq := sc.Queries
		if twice {
			nq *= 2
		}
		if sc.Overlap2 {
			nq = sc.Queries + sc.SiblingQueries
		}
		for q := 0; q < nq; q++ {
			scns = append(scns, mk(v, flow))
			flow++
			if sc.Method == "prefer_sack" {
				scns = append(scns, mk("syn", flow))
				flow++
			}
		}
		ev := v
		if ev == "sack" {
			ev = "syn"
		}
		ne := sc.E2e
		if twice {
			ne *= 2
		}
		if sc.Overlap2 {
			ne = sc.E2e + sc.SiblingE2e
		}
		for e := 0; e < ne; e++ {
			scns = append(scns, mk(ev, flow))
			flow++
		}
	}
	script := NewScript(scns...)
	script.anyTarget = true
	if sc.RouterBase == "private" {
		script.routerFn = privateRouter
	}
	if len(sc.RouterAddrs) > 0 {
		addrs := sc.RouterAddrs
		script.routerFn = func(v6 bool, t int) netip.Addr {
			if t >= 1 && t <= len(addrs) {
				return netip.MustParseAddr(addrs[t-1])
			}
			return Router(v6, 0, t)
		}
	}
	simnet.Install()
	vnet.Blackhole, vnet.Dials = nil, 0
	packets.VerifMustClosePort = sc.MustClosePort
	if sc.TraceLog {
		// the embedding process logs at trace level (the CLI's -v, the server's log-level setting): lazily built trace
		// messages are evaluated. The text goes to the standard logger, which is silenced for good in this worker.
		stdlog.SetOutput(io.Discard)
		ddlog.SetLogLevel(ddlog.LevelTrace)
		defer ddlog.SetLogLevel(ddlog.LevelError)
	}
	n := simnet.New(script)
	n.Faults = sc.Faults
	n.FiltersOff = sc.FiltersOff
	PrepareBases(sc.IPIDBase, sc.EchoBase)
	vrand.Src = &randSrc{}
	out.Net, out.Script = n, script
	if !keepProcessState && !sc.keep {
		cache.Cache.Flush()
	}
	// SACK target capability
	port := sc.Port
	if v == "sack" && target == SackAddr {
		spec := simnet.SynAckSpec{Enabled: true, ISN: 0x1000, AckNum: 0x2000, SackPermitted: true}
		nolisten := false
		switch sc.Capability {
		case "no-sack-permitted":
			spec.SackPermitted = false
		case "timestamps":
			spec.Timestamps = true
		case "timestamps-bsd-option-order":
			spec.Timestamps, spec.BSDOrder = true, true
		case "bsd-option-order":
			spec.BSDOrder = true
		case "ecn-setup-synack":
			// the target negotiates ECN: its SYN-ACK carries ECE next to SYN and ACK
			spec.ECN = true
		case "ecn-setup-synack-without-sack":
			spec.ECN, spec.SackPermitted = true, false
		case "duplicate-synack":
			spec.LateCopyMs = 15
		case "isn-near-wrap":
			// the connection's sequence space is such that the probe bytes (initial + ttl) wrap past 2^32 inside the TTL range
			spec.AckNum = 0xfffffffe
		case "slow-synack":
			// the target's SYN-ACK for the traced connection takes a while: SYN-ACKs answering the request's own end-to-end
			// SYN probes (other local ports, no SACK-permitted) are captured first
			spec.DelayNs = 30_000_000
		case "no-handshake":
			spec.Enabled = false
		case "greeting-before-synack":
			// a capture handle whose SYN-ACK filter does not filter (a no-op on some platforms) sees a data segment of the
			// connection before the SYN-ACK: not the SYN-ACK, and no verdict on the target's options
			spec.Greeting = true
		case "greeting-without-synack":
			spec.Greeting, spec.Enabled = true, false
		case "closed":
			nolisten = true
		case "syn-dropped":
			// nothing answers the connect's SYN (a firewall that drops): the connect gives up when its own timeout passes
			nolisten = true
			for _, s := range scns {
				if s.Variant != "sack" {
					if s.Hops == nil {
						s.Hops = map[int]HopSpec{}
					}
					for t := 1; t <= 255; t++ {
						if sc.Dest > 0 && t >= sc.Dest {
							s.Hops[t] = HopSpec{Silent: true}
						}
					}
				}
			}
		case "empty-sack-option", "half-sack-block":
			form := map[string]string{"empty-sack-option": "sack0", "half-sack-block": "sackHalf"}[sc.Capability]
			for _, s := range scns {
				if s.Variant == "sack" {
					s.Hops = map[int]HopSpec{}
					for t := 1; t <= 255; t++ {
						if sc.Dest > 0 && t >= sc.Dest {
							s.Hops[t] = HopSpec{Form: form}
						}
					}
				}
			}
		case "dsack-below-window":
			// next to its ordinary acknowledgements the target sends one whose only SACK block lies BELOW the connection's
			// initial sequence number (a duplicate-SACK for data of before): a bad packet for this trace, not a sign that
			// selective acknowledgement is missing
			for _, s := range scns {
				if s.Variant == "sack" {
					s.Inject = append(s.Inject, Inject{OnTTL: s.First, AnswerTTL: s.First, Form: "sack1", From: SackAddr.String(), DelayUs: 2500, Tag: "dsack", Rewrite: []simnet.Perturb{{Field: "sack.left", Op: "-256"}}})
				}
			}
		case "fin-during-trace", "rstack-during-trace":
			// the target closes (half-close: it keeps acknowledging) or resets its side while the probes are going out: a
			// FIN|ACK / RST|ACK on the traced connection, without SACK blocks, is not "the target acknowledging without
			// blocks" - selective acknowledgement stays available
			form := map[string]string{"fin-during-trace": "tcpfinack", "rstack-during-trace": "rstack"}[sc.Capability]
			for _, s := range scns {
				if s.Variant == "sack" {
					s.Inject = append(s.Inject, Inject{OnTTL: s.First, AnswerTTL: s.First, Form: form, From: SackAddr.String(), DelayUs: 2500, Tag: "teardown"})
				}
			}
		case "plain-acks", "plain-acks-with-timestamps", "plain-acks-with-payload":
			// (with timestamps: both options were negotiated, the acknowledgements carry NOP NOP TIMESTAMPS and no SACK option)
			form := "plainack"
			if sc.Capability == "plain-acks-with-timestamps" {
				form = "plainackTS"
				spec.Timestamps = true
			}
			if sc.Capability == "plain-acks-with-payload" {
				// a server that speaks first: every segment of the traced connection carries data (its banner and the
				// retransmissions of it) and acknowledges without SACK blocks
				form = "tcppshack"
			}
			for _, s := range scns {
				if s.Variant == "sack" {
					s.Hops = map[int]HopSpec{}
					for t := 1; t <= 255; t++ {
						if sc.Dest > 0 && t >= sc.Dest {
							s.Hops[t] = HopSpec{Form: form}
						}
					}
				}
			}
		}
		tmp := &Scn{Variant: "sack", SynAck: &spec, NoListen: nolisten}
		p, err := Listen(n, tmp)
		if err != nil {
			panic("listen: " + err.Error())
		}
		for _, l := range n.Listeners {
			l.Expect = sc.Queries
		}
		out.ListenPort = p
		if sc.Capability == "syn-dropped" {
			BlackholePort(p)
		}
		if sc.UseListenerPort || sc.Port == 0 {
			port = int(p)
		}
	} else if v == "syn" || v == "synparis" {
		// a real listener so that "syn never opens a connection" is observable (only when the target is local)
		if target == SackAddr {
			tmp := &Scn{Variant: "sack", SynAck: &simnet.SynAckSpec{Enabled: false}}
			p, err := Listen(n, tmp)
			if err == nil {
				n.Listeners[len(n.Listeners)-1].Expect = -1
				out.ListenPort = p
				if sc.UseListenerPort || sc.Port == 0 {
					port = int(p)
				}
			}
		}
	}
	for _, s := range scns {
		s.Port = port
	}
	// reverse DNS stub
	oldLookup := reversedns.LookupAddrFn
	reversedns.LookupAddrFn = func(ctx context.Context, addr string) ([]string, error) {
		vsched.Yield("rdns.lookup")
		out.RDNSCalls[addr]++
		r, ok := sc.RDNS[addr]
		if !ok {
			r, ok = sc.RDNS["*"]
		}
		if r == "!hang" {
			if d := ctx.Done(); d != nil {
				<-vsched.RecvCh(d)
				return nil, ctx.Err()
			}
			vsched.Block(vsched.Never, -1, "resolver stalled and the lookup carries no context")
		}
		switch {
		case !ok:
			return []string{"host-" + addr + "."}, nil
		case r == "!error":
			return nil, fmt.Errorf("no such host")
		case r == "":
			return nil, nil
		}
		return []string{r}, nil
	}
	defer func() { reversedns.LookupAddrFn = oldLookup }()
	f := &stubFetcher{mode: sc.PublicIP}
	out.Fetcher = f
	tr := traceroute.VerifNewTraceroute(f)
	if sc.PublicIP == "hang" {
		tr = traceroute.VerifNewTraceroute(publicip.VerifNewFetcher(&http.Client{Transport: hangTransport{}}))
	}
	params := traceroute.TracerouteParams{Hostname: sc.Hostname, Port: port, Protocol: sc.Protocol, MinTTL: sc.MinTTL, MaxTTL: sc.MaxTTL, Delay: sc.DelayMs,
		Timeout: time.Duration(sc.TimeoutMs) * time.Millisecond, TCPMethod: traceroute.TCPMethod(sc.Method), WantV6: sc.WantV6, TCPSynParisTracerouteMode: sc.Paris,
		ReverseDns: sc.ReverseDNS, CollectSourcePublicIP: sc.PublicIP != "", TracerouteQueries: sc.Queries, E2eQueries: sc.E2e, SkipPrivateHops: sc.SkipPrivate}
	if cfg.MaxVirtual == 0 {
		cfg.MaxVirtual = 3 * time.Hour
	}
	out.X = vsched.Run(cfg, n, func() {
		if sc.CLI {
			argv := []string{"--proto", sc.Protocol, "--port", fmt.Sprint(port), "--traceroute-queries", fmt.Sprint(sc.Queries), "--e2e-queries", fmt.Sprint(sc.E2e),
				"--max-ttl", fmt.Sprint(sc.MaxTTL), "--timeout", fmt.Sprint(sc.TimeoutMs)}
			if sc.Method != "" {
				argv = append(argv, "--tcp-method", sc.Method)
			}
			if sc.WantV6 {
				argv = append(argv, "--ipv6")
			}
			if sc.ReverseDNS {
				argv = append(argv, "--reverse-dns")
			}
			if sc.SkipPrivate {
				argv = append(argv, "--skip-private-hops")
			}
			argv = append(argv, "--", sc.Hostname)
			stdout, err := cmd.VerifRun(argv)
			out.Body = []byte(stdout)
			out.Err = err
			if err == nil {
				var res result.Results
				if jerr := json.Unmarshal(out.Body, &res); jerr == nil {
					out.Res = &res
				} else {
					out.Err = fmt.Errorf("the command succeeded but did not print the JSON document: %v", jerr)
				}
			}
		} else if sc.HTTP {
			q := sc.RawQuery
			if q == "" {
				vals := url.Values{}
				b := func(v bool) string {
					if v && sc.TrueSpelling != "" {
						return sc.TrueSpelling
					}
					return fmt.Sprint(v)
				}
				iv := func(n int) string {
					switch {
					case n >= 0 && sc.IntSpelling == "leading-zero":
						return "0" + fmt.Sprint(n)
					case n >= 0 && sc.IntSpelling == "plus":
						return "+" + fmt.Sprint(n)
					}
					return fmt.Sprint(n)
				}
				vals.Set("target", sc.Hostname)
				vals.Set("protocol", sc.Protocol)
				vals.Set("port", iv(port))
				vals.Set("traceroute-queries", iv(sc.Queries))
				vals.Set("e2e-queries", iv(sc.E2e))
				vals.Set("max-ttl", iv(sc.MaxTTL))
				vals.Set("timeout", iv(sc.TimeoutMs))
				if sc.Method != "" {
					vals.Set("tcp-method", sc.Method)
				}
				vals.Set("ipv6", b(sc.WantV6))
				vals.Set("reverse-dns", b(sc.ReverseDNS))
				vals.Set("source-public-ip", b(sc.PublicIP != ""))
				vals.Set("skip-private-hops", b(sc.SkipPrivate))
				q = vals.Encode()
			}
			srv := server.VerifNewServer(tr)
			req := httptest.NewRequest("GET", "/traceroute?"+q, nil)
			rec := httptest.NewRecorder()
			srv.TracerouteHandler(rec, req)
			out.Status = rec.Code
			out.Body = rec.Body.Bytes()
			if rec.Code == 200 {
				var res result.Results
				if err := json.Unmarshal(out.Body, &res); err == nil {
					out.Res = &res
				} else {
					out.Err = fmt.Errorf("handler returned 200 with an undecodable body: %v", err)
				}
			} else {
				out.Err = fmt.Errorf("http %d: %s", rec.Code, strings.TrimSpace(rec.Body.String()))
			}
		} else if twice {
			// two overlapping requests (as the HTTP server serves them), same parameters
			n2 := 0
			for k := 0; k < 2; k++ {
				vsched.Go(func() {
					params := params
					if k == 1 && sc.Overlap {
						params.SkipPrivateHops = false
					}
					if k == 1 && sc.Overlap2 {
						params.TracerouteQueries, params.E2eQueries = sc.SiblingQueries, sc.SiblingE2e
					}
					res, err := tr.RunTraceroute(context.Background(), params)
					if k == 1 {
						out.Res2, out.Err2 = res, err
					}
					if k == 0 {
						out.Res, out.Err = res, err
					}
					n2++
				})
			}
			vsched.Block(cnt2{&n2}, -1, "join requests")
		} else if sc.CancelAtMs != 0 {
			// (negative: the caller's context is already cancelled when the call is made)
			ctx, cancel := vctx.WithCancelAt(context.Background(), int64(sc.CancelAtMs)*1_000_000)
			if sc.CancelAtMs < 0 {
				cancel()
			}
			out.Res, out.Err = tr.RunTraceroute(ctx, params)
			cancel()
		} else {
			out.Res, out.Err = tr.RunTraceroute(context.Background(), params)
		}
		out.ElapsedNs = vsched.Now()
		// (a thread that only has to return - the sender of a rendezvous that has just completed - is not "outliving the
		// call": everything runnable at this instant runs before the count; what is still alive then waits for time or input)
		vtime.Sleep(time.Nanosecond)
		out.ThreadsLeft = vsched.LiveThreads()
		if sc.LingerMs > 0 && out.Res != nil {
			b1 := CallerSerialises(out.Res)
			vtime.Sleep(time.Duration(sc.LingerMs) * time.Millisecond)
			b2 := CallerSerialises(out.Res)
			if string(b1) != string(b2) {
				out.ChangedAfterReturn = fmt.Sprintf("as returned: %s ; %d ms later: %s", b1, sc.LingerMs, b2)
			}
		}
	})
	for _, l := range n.Listeners {
		l.Expect = 1 << 20
	}
	n.Shutdown()
	for _, l := range n.Listeners {
		out.Accepted += len(l.Accepted)
	}
	vrand.Src = nil
	return out
}

// CallerSerialises plays the caller of RunTraceroute using the result it was returned. An access under this frame is the
// caller's, not the harness's: the race pass (C14) counts it as one side of a report.
//
//go:noinline
func CallerSerialises(res *result.Results) []byte {
	b, _ := json.Marshal(res)
	return b
}

// ProbesBySink groups the emitted probes by run.
func (r *RTResult) ProbesBySink() map[int][]*refcodec.Packet {
	m := map[int][]*refcodec.Packet{}
	for _, e := range r.Net.Ledger {
		if e.Dir == "tx" && e.P != nil {
			m[e.Sink] = append(m[e.Sink], e.P)
		}
	}
	return m
}

func (r *RTResult) Summary() string {
	s := fmt.Sprintf("outcome=%s err=%v status=%d accepted=%d", r.X.Outcome, r.Err, r.Status, r.Accepted)
	if r.Res != nil {
		var runs []string
		for _, run := range r.Res.Traceroute.Runs {
			run := run
			runs = append(runs, HopsKey(Hops(&run)))
		}
		sort.Strings(runs)
		s += fmt.Sprintf(" runs=%v rtts=%d", runs, len(r.Res.E2eProbe.RTTs))
	}
	return s
}
