// Package proto runs the repository's real protocol entry points
// (icmp.RunICMPTraceroute, (*udp.UDPv4).Traceroute, (*tcp.TCPv4).Traceroute,
// sack.RunSackTraceroute) over the simulated wire under the controlled scheduler.
// The protocol-level property harnesses (C01..C06, C08..C11, C14, C19, C20) are
// scenario enumerators and oracles on top of it.
package proto

import (
	"context"
	"encoding/binary"
	"fmt"
	"net"
	"net/netip"
	"os"
	"sort"
	"strings"
	"sync"
	"time"

	"github.com/DataDog/datadog-traceroute/common"
	"github.com/DataDog/datadog-traceroute/icmp"
	"github.com/DataDog/datadog-traceroute/packets"
	"github.com/DataDog/datadog-traceroute/result"
	"github.com/DataDog/datadog-traceroute/sack"
	"github.com/DataDog/datadog-traceroute/tcp"
	"github.com/DataDog/datadog-traceroute/udp"

	"verif/refcodec"
	"verif/shim/vctx"
	"verif/shim/vnet"
	"verif/shim/vrand"
	"verif/shim/vtime"
	"verif/simnet"
	"verif/vsched"
)

var (
	Local4   = netip.MustParseAddr("198.18.0.2")
	Local6   = netip.MustParseAddr("fd00:5ac::2")
	Target4  = netip.MustParseAddr("203.0.113.77")
	Target6  = netip.MustParseAddr("2001:db8::77")
	SackAddr = netip.MustParseAddr("198.18.0.9")
	Evil4    = netip.MustParseAddr("198.51.100.66")
	Evil6    = netip.MustParseAddr("2001:db8:bad::66")
)

// Variants of the design's V.
var Variants = []string{"icmp4", "icmp6", "udp4", "udp6", "udp4r", "syn", "synparis", "synr", "sack", "sackstrict"}

type VInfo struct {
	Kind     string // icmp4 icmp6 udp4 udp6 tcp tcpparis sack : identifier scheme
	V6       bool
	Relaxed  bool
	Parallel bool
	DestForm string
	TEForm   string
}

func Info(v string) VInfo {
	switch v {
	case "icmp4":
		return VInfo{Kind: "icmp4", Parallel: true, DestForm: "echo", TEForm: "te28"}
	case "icmp6":
		return VInfo{Kind: "icmp6", V6: true, Parallel: true, DestForm: "echo", TEForm: "teFull"}
	case "udp4":
		return VInfo{Kind: "udp4", Parallel: true, DestForm: "duPort", TEForm: "te28"}
	case "udp4r":
		return VInfo{Kind: "udp4", Relaxed: true, Parallel: true, DestForm: "duPort", TEForm: "te28"}
	case "udp6":
		return VInfo{Kind: "udp6", V6: true, Parallel: true, DestForm: "duPort", TEForm: "teFull"}
	case "syn":
		return VInfo{Kind: "tcp", DestForm: "synack", TEForm: "te28"}
	case "synr":
		return VInfo{Kind: "tcp", Relaxed: true, DestForm: "synack", TEForm: "te28"}
	case "synparis":
		return VInfo{Kind: "tcpparis", DestForm: "synack", TEForm: "te28"}
	case "sack":
		return VInfo{Kind: "sack", Relaxed: true, Parallel: true, DestForm: "sack3", TEForm: "te28"}
	case "sackstrict":
		return VInfo{Kind: "sack", Parallel: true, DestForm: "sack3", TEForm: "te28"}
	}
	panic("unknown variant " + v)
}

// HopSpec overrides what answers the probe with a given TTL.
type HopSpec struct {
	Form      string          `json:"form,omitempty"`     // "" = default for the position
	From      string          `json:"from,omitempty"`     // responder address override
	DelayUs   int             `json:"delay_us,omitempty"` // 0 = default; <0 = no latency at all
	Silent    bool            `json:"silent,omitempty"`
	LostReply bool            `json:"lost_reply,omitempty"` // the probe reached the responder but its reply was lost
	AtTarget  bool            `json:"at_target,omitempty"`  // the target itself answers this probe (destination form by default)
	Copies    int             `json:"copies,omitempty"`     // extra identical copies, each 1ms later
	Perturb   *simnet.Perturb `json:"perturb,omitempty"`
	Tag       string          `json:"tag,omitempty"`
	Truncate  int             `json:"truncate,omitempty"` // deliver only the first n bytes
	Mutate    []ByteMut       `json:"mutate,omitempty"`
	// ForwardDelayUs: the probe itself takes this long to reach the responder, so probes sent later may reach it first
	// (reordering on the forward path); the responder's state (SACK scoreboard) is updated on arrival
	ForwardDelayUs int `json:"forward_delay_us,omitempty"`
	// AliasTTL: the perturbed per-probe identifier is the identifier of this other probe of the same run;
	// if that probe has been sent when the packet is built, the packet is a genuine reply to it
	AliasTTL int `json:"alias_ttl,omitempty"`
	// Extra perturbations that keep the reply genuine (e.g. NAT rewrote the quoted source)
	Rewrite []simnet.Perturb `json:"rewrite,omitempty"`
	// IPOptWords (6..15, IPv4): the reply's own IP header carries options and is that many words long; still genuine
	IPOptWords int `json:"ip_opt_words,omitempty"`
}

type ByteMut struct {
	Off int  `json:"off"`
	Val byte `json:"val"`
}

// Inject is an additional packet caused by seeing the probe with TTL OnTTL.
type Inject struct {
	OnTTL     int             `json:"on_ttl"`
	AnswerTTL int             `json:"answer_ttl"` // the probe the packet claims to answer (may not have been sent yet)
	Form      string          `json:"form"`
	From      string          `json:"from,omitempty"`
	DelayUs   int             `json:"delay_us"`
	Perturb   *simnet.Perturb `json:"perturb,omitempty"`
	Tag       string          `json:"tag"`
	Genuine   bool            `json:"genuine,omitempty"`
	Truncate  int             `json:"truncate,omitempty"`
	Mutate    []ByteMut       `json:"mutate,omitempty"`
	RawHex    string          `json:"raw_hex,omitempty"`  // deliver these bytes instead of a built reply
	PrevRun   bool            `json:"prev_run,omitempty"` // build the reply for the probe AnswerTTL of the previous run on this wire (stale traffic)
	AliasTTL  int             `json:"alias_ttl,omitempty"`
	// Noise: instead of the built reply deliver its mutation(s) of this kind; NoiseArg -1 = every variant, 1us apart
	NoiseKind string           `json:"noise_kind,omitempty"`
	NoiseArg  int              `json:"noise_arg,omitempty"`
	Rewrite   []simnet.Perturb `json:"rewrite,omitempty"`  // applied before the noise mutation (e.g. move the reply to a foreign flow)
	Repeat    int              `json:"repeat,omitempty"`   // deliver this many copies ...
	EveryUs   int              `json:"every_us,omitempty"` // ... this far apart (a flood)
}

type Scn struct {
	Variant   string             `json:"variant"`
	First     int                `json:"first"`
	Last      int                `json:"last"`
	TimeoutMs int                `json:"timeout_ms"`
	DelayMs   int                `json:"delay_ms"`
	Dest      int                `json:"dest"` // TTL from which the target answers (0 = never)
	Hops      map[int]HopSpec    `json:"hops,omitempty"`
	Inject    []Inject           `json:"inject,omitempty"`
	Faults    []simnet.Fault     `json:"faults,omitempty"`
	IPIDBase  uint32             `json:"ipid_base"`
	EchoBase  uint32             `json:"echo_base"`
	Rand      []uint32           `json:"rand,omitempty"`
	SynAck    *simnet.SynAckSpec `json:"synack,omitempty"`
	NoListen  bool               `json:"no_listen,omitempty"` // SACK: target port closed
	// DialBlackhole (SACK): the TCP connect never completes - the SYN is silently dropped, nothing comes back
	DialBlackhole bool `json:"dial_blackhole,omitempty"`
	// MustClosePort: the platform's handle says the run must close the socket it reserved its port with (the Windows
	// raw-socket handle does; the SACK variant is not available there)
	MustClosePort bool `json:"must_close_port,omitempty"`
	// Target16: the IPv4 target is handed to the variant's constructor in its 16-byte form (what net.ParseIP, net.IPv4 and
	// resolvers return)
	Target16   bool  `json:"target16,omitempty"`
	FiltersOff bool  `json:"filters_off,omitempty"`
	Port       int   `json:"port,omitempty"`
	Flow       int   `json:"flow,omitempty"` // distinguishes router addresses of concurrent runs
	Bound      int   `json:"bound"`
	CancelAtMs int   `json:"cancel_at_ms,omitempty"` // cancel the caller's context (icmp/sack take one)
	EpsNs      int64 `json:"eps_ns,omitempty"`
	NoOwnLoop  bool  `json:"no_own_loop,omitempty"`
	// DirectIP: the capture source hands over IP packets directly (a read can fill the whole buffer)
	DirectIP bool `json:"direct_ip,omitempty"`
	// SilentElsewhere: a probe whose TTL has no entry in Hops is not answered either (a TTL the run was never asked to probe)
	SilentElsewhere bool `json:"silent_elsewhere,omitempty"`
	// WallStepSec / WallStepAtMs: the wall clock is stepped by that many seconds at that virtual instant (NTP step, resumed
	// VM); the monotonic clock is not. Elapsed times measured across the step are unaffected.
	WallStepSec    int    `json:"wall_step_sec,omitempty"`
	WallStepAtMs   int    `json:"wall_step_at_ms,omitempty"`
	MaxSteps       int    `json:"max_steps,omitempty"`       // scheduler step horizon (0 = default 200000)
	TargetOverride string `json:"target_override,omitempty"` // probe another address than the variant's default
	ShareListener  int    `json:"share_listener,omitempty"`  // SACK: 1+index of the scenario whose listener (same address and port) this one connects to
	// Then: scenarios run one after the other in the same thread after this one (non-initial states, stale traffic)
	Then []Scn `json:"then,omitempty"`
	done bool
}

// SendDelayMs is the pacing the run is given: DelayMs, with a negative value standing for "no delay between probes".
func (sc *Scn) SendDelayMs() int {
	if sc.DelayMs < 0 {
		return 0
	}
	return sc.DelayMs
}

func (sc *Scn) Defaults() {
	if sc.TimeoutMs == 0 {
		sc.TimeoutMs = 300
	}
	if sc.DelayMs == 0 {
		sc.DelayMs = 10
	}
	if sc.Port == 0 {
		sc.Port = 33434
	}
}

func (sc *Scn) Target() netip.Addr {
	if sc.TargetOverride != "" {
		return netip.MustParseAddr(sc.TargetOverride)
	}
	vi := Info(sc.Variant)
	switch {
	case vi.Kind == "sack":
		return SackAddr
	case vi.V6:
		return Target6
	}
	return Target4
}

func (sc *Scn) LocalAddr() netip.Addr {
	if Info(sc.Variant).V6 {
		return Local6
	}
	return Local4
}

// Router returns the address of the router answering TTL t of flow f.
func Router(v6 bool, flow, t int) netip.Addr {
	if v6 {
		return netip.AddrFrom16([16]byte{0x20, 0x01, 0x0d, 0xb8, 0, byte(0x10 + flow), 0, 0, 0, 0, 0, 0, 0, 0, 0, byte(t)})
	}
	return netip.AddrFrom4([4]byte{100, byte(64 + flow), 0, byte(t)})
}

func DefaultDelayUs(t int) int { return 3000 + 1700*(t%23) + 131*(t/23) }

// Expected describes what the script delivered for one probe TTL (ground truth for oracles).
type Delivered struct {
	Conditional bool // an alias of another probe's identifier: genuine only if that probe had been sent on arrival
	TTL         int
	From        netip.Addr
	AtNs        int64 // delivery time
	Genuine     bool
	Form        string
	Tag         string
}

// Script implements simnet.Script for one or several Scn sharing a wire.
type Script struct {
	Scns     []*Scn // by flow: a probe is attributed to the scenario whose target/kind match and (for several) whose sink matches
	bySink   map[int]*Scn
	held     map[int][]uint8                  // sink -> SACK segments held by the target (most recent first)
	arriving bool                             // OnProbe is being run for a probe whose forward delay has elapsed
	Seen     map[int]map[int]*refcodec.Packet // sink -> ttl -> probe
	Sent     map[int][]Delivered
	initSeq  map[int]uint32
	// RunTraceroute mode: the target is whatever address the probes go to; routers may be renumbered
	anyTarget bool
	routerFn  func(v6 bool, t int) netip.Addr
	// threadScns: scenarios run by a given managed thread, in order (binds a sink to the scenario whose thread built it)
	threadScns map[int][]*Scn
}

// TargetOf returns the address that plays the target for scenario sc (given one of its probes).
func (s *Script) TargetOf(sc *Scn, p *refcodec.Packet) netip.Addr {
	if s.anyTarget && p != nil {
		return p.Dst
	}
	return sc.Target()
}

func NewScript(scns ...*Scn) *Script {
	return &Script{Scns: scns, bySink: map[int]*Scn{}, held: map[int][]uint8{}, Seen: map[int]map[int]*refcodec.Packet{}, Sent: map[int][]Delivered{}, initSeq: map[int]uint32{}}
}

func kindOf(p *refcodec.Packet) string {
	switch p.Proto {
	case refcodec.ProtoICMP:
		return "icmp4"
	case refcodec.ProtoICMPv6:
		return "icmp6"
	case refcodec.ProtoUDP:
		if p.V == 4 {
			return "udp4"
		}
		return "udp6"
	case refcodec.ProtoTCP:
		if p.Flags&refcodec.SYN != 0 {
			return "tcp"
		}
		return "sack"
	}
	return "?"
}

func (s *Script) scnFor(sink *simnet.Sink, p *refcodec.Packet) *Scn {
	if sc, ok := s.bySink[sink.ID]; ok {
		return sc
	}
	k := kindOf(p)
	if cands, ok := s.threadScns[sink.Creator]; ok {
		for _, sc := range cands {
			taken := false
			for _, o := range s.bySink {
				if o == sc {
					taken = true
				}
			}
			if !taken && !sc.done {
				s.bySink[sink.ID] = sc
				return sc
			}
		}
	}
	for _, sc := range s.Scns {
		if sc.done {
			continue
		}
		taken := false
		for _, o := range s.bySink {
			if o == sc {
				taken = true
			}
		}
		if taken {
			continue
		}
		vk := Info(sc.Variant).Kind
		if vk == "tcpparis" {
			vk = "tcp"
		}
		if vk == k && (s.anyTarget || sc.Target() == p.Dst) {
			s.bySink[sink.ID] = sc
			return sc
		}
	}
	return nil
}

// Hypo re-encodes probe p as the probe of the same run with another TTL.
func Hypo(kind string, p *refcodec.Packet, ttl int, initSeq uint32) *refcodec.Packet {
	var raw []byte
	switch kind {
	case "icmp4":
		var rest [4]byte
		binary.BigEndian.PutUint16(rest[0:], p.EchoID)
		binary.BigEndian.PutUint16(rest[2:], uint16(ttl))
		m := refcodec.ICMP(4, p.Src, p.Dst, 8, 0, rest, []byte{byte(ttl)})
		raw = refcodec.IPv4(p.Src, p.Dst, refcodec.ProtoICMP, refcodec.IPv4Opts{TTL: uint8(ttl), ID: p.IPID}, m)
	case "icmp6":
		var rest [4]byte
		binary.BigEndian.PutUint16(rest[0:], p.EchoID)
		binary.BigEndian.PutUint16(rest[2:], uint16(ttl))
		m := refcodec.ICMP(6, p.Src, p.Dst, 128, 0, rest, []byte{byte(ttl)})
		raw = refcodec.IPv6(p.Src, p.Dst, refcodec.ProtoICMPv6, uint8(ttl), m)
	case "udp4":
		id := 41821 + uint16(ttl)
		pl := []byte("NSMNC\x00\x00\x00")
		pl[6], pl[7] = byte(id>>8), byte(id)
		raw = refcodec.IPv4(p.Src, p.Dst, refcodec.ProtoUDP, refcodec.IPv4Opts{TTL: uint8(ttl), ID: id, FragWord: 0x4000}, refcodec.UDP(p.Src, p.Dst, p.SrcPort, p.DstPort, pl))
	case "udp6":
		n := 5 + ttl
		pl := []byte(strings.Repeat("NSMNC", n/5+1))[:n]
		raw = refcodec.IPv6(p.Src, p.Dst, refcodec.ProtoUDP, uint8(ttl), refcodec.UDP(p.Src, p.Dst, p.SrcPort, p.DstPort, pl))
	case "tcp":
		id := p.IPID + uint16(ttl) - uint16(p.TTL)
		raw = refcodec.IPv4(p.Src, p.Dst, refcodec.ProtoTCP, refcodec.IPv4Opts{TTL: uint8(ttl), ID: id}, refcodec.TCP(p.Src, p.Dst, p.SrcPort, p.DstPort, p.Seq, 0, refcodec.SYN, 1024, nil, nil))
	case "tcpparis":
		// the sequence number is random per probe: a not-yet-sent probe cannot be predicted; use seq+ttl as a guess
		raw = refcodec.IPv4(p.Src, p.Dst, refcodec.ProtoTCP, refcodec.IPv4Opts{TTL: uint8(ttl), ID: p.IPID}, refcodec.TCP(p.Src, p.Dst, p.SrcPort, p.DstPort, p.Seq+uint32(ttl)-uint32(p.TTL), 0, refcodec.SYN, 1024, nil, nil))
	case "sack":
		seq := p.Seq + uint32(ttl) - uint32(p.TTL)
		raw = refcodec.IPv4(p.Src, p.Dst, refcodec.ProtoTCP, refcodec.IPv4Opts{TTL: uint8(ttl), ID: p.IPID}, refcodec.TCP(p.Src, p.Dst, p.SrcPort, p.DstPort, seq, p.Ack, refcodec.ACK|refcodec.PSH, 1024, p.TCPOpts, []byte{byte(ttl)}))
	}
	q, _ := refcodec.Parse(raw)
	return q
}

func parseAddr(s string, def netip.Addr) netip.Addr {
	if s == "" {
		return def
	}
	switch s {
	case "target":
		return def
	}
	return netip.MustParseAddr(s)
}

func finish(raw []byte, trunc int, mut []ByteMut) []byte {
	for _, m := range mut {
		if m.Off >= 0 && m.Off < len(raw) {
			raw[m.Off] = m.Val
		}
	}
	if trunc > 0 && trunc < len(raw) {
		raw = raw[:trunc]
	}
	return raw
}

type fnFire func()

func (f fnFire) Fire() { f() }

func (s *Script) OnProbe(n *simnet.Net, sink *simnet.Sink, p *refcodec.Packet, raw []byte) []simnet.Reply {
	sc := s.scnFor(sink, p)
	if sc == nil {
		return nil
	}
	if hs, ok := sc.Hops[int(p.TTL)]; ok && hs.ForwardDelayUs > 0 && !s.arriving {
		vsched.AddTimer(vsched.Now()+int64(hs.ForwardDelayUs)*1000, fnFire(func() {
			s.arriving = true
			rs := s.OnProbe(n, sink, p, raw)
			s.arriving = false
			for _, r := range rs {
				n.Schedule(r)
			}
		}))
		return nil
	}
	vi := Info(sc.Variant)
	t := int(p.TTL)
	if s.Seen[sink.ID] == nil {
		s.Seen[sink.ID] = map[int]*refcodec.Packet{}
	}
	s.Seen[sink.ID][t] = p
	target := s.TargetOf(sc, p)
	var out []simnet.Reply
	hs, has := sc.Hops[t]
	if !has && sc.SilentElsewhere {
		hs, has = HopSpec{Silent: true}, true
	}
	atDest := (sc.Dest > 0 && t >= sc.Dest) || (has && hs.AtTarget)
	initSeq := p.Seq - uint32(t) // sack: localInitSeq
	s.initSeq[sink.ID] = initSeq
	if atDest && vi.Kind == "sack" && !(has && hs.Silent) {
		s.held[sink.ID] = append([]uint8{uint8(t)}, s.held[sink.ID]...)
	}
	ctx := simnet.BuildCtx{ServerSeq: 0x51515151, SackInitSeq: initSeq, SackHeld: s.held[sink.ID], TSVal: 0x22220000 + uint32(t)}
	// a real TCP stack only SACKs segments inside the connection's window: a probe whose sequence base is not the one
	// of the connection it is sent on gets a bare duplicate ACK
	outOfWindow := false
	if vi.Kind == "sack" {
		for _, l := range n.Listeners {
			if l.Addr.Port() == p.DstPort {
				if base, ok := l.ConnAck[p.SrcPort]; ok && l.Spec.Enabled && base != initSeq {
					outOfWindow = true
				}
			}
		}
	}
	if !(has && (hs.Silent || hs.LostReply)) {
		form := hs.Form
		from := Router(vi.V6, sc.Flow, t)
		if s.routerFn != nil {
			from = s.routerFn(p.V == 6, t)
		}
		if atDest {
			from = target
			if form == "" {
				form = vi.DestForm
			}
		} else if form == "" {
			form = vi.TEForm
		}
		from = parseAddr(hs.From, from)
		if outOfWindow && atDest && strings.HasPrefix(form, "sack") {
			form = "plainack"
		}
		delay := hs.DelayUs
		if delay == 0 {
			delay = DefaultDelayUs(t)
		} else if delay < 0 {
			delay = 0 // the reply is on the capture handle when the send call returns (loopback, same host)
		}
		if b, err := simnet.Build(form, p, from, ctx); err == nil {
			genuine := hs.Perturb == nil && hs.Truncate == 0 && len(hs.Mutate) == 0 && !strings.HasPrefix(form, "v6mapped:")
			if hs.IPOptWords != 0 {
				if b, err = simnet.WithIPOptions(b, hs.IPOptWords); err != nil {
					panic(fmt.Sprintf("ip options on %s: %v", form, err))
				}
			}
			for _, rw := range hs.Rewrite {
				b, err = rw.Apply(b)
				if err != nil {
					panic(fmt.Sprintf("rewrite %+v on %s: %v", rw, form, err))
				}
			}
			if hs.Perturb != nil {
				orig := b
				b, err = hs.Perturb.Apply(b)
				if err != nil {
					panic(fmt.Sprintf("perturb %+v on %s: %v", hs.Perturb, form, err))
				}
				if string(orig) == string(b) {
					genuine = hs.Truncate == 0 && len(hs.Mutate) == 0
				}
			}
			b = finish(b, hs.Truncate, hs.Mutate)
			tag := hs.Tag
			if tag == "" {
				tag = "path"
			}
			answers := t
			if strings.HasPrefix(form, "sack") {
				answers = simnet.SackMinTTL(form, ctx.SackHeld) // a duplicate ACK reports the lowest held segment
			}
			conditional := false
			if !genuine && hs.AliasTTL > 0 {
				genuine, answers, conditional = true, hs.AliasTTL, true
			}
			for c := 0; c <= hs.Copies; c++ {
				d := int64(delay)*1000 + int64(c)*1_000_000
				out = append(out, simnet.Reply{DelayNs: d, Raw: b, Meta: simnet.Meta{ToTTL: answers, Genuine: genuine, Tag: tag, From: from, Flow: sink.ID,
					Dest: genuine && !conditional && answers >= sc.First && answers <= sc.Last && (ProvesArrival(vi.Kind, form, from == target) || (vi.Kind == "sack" && (form == "plainack" || form == "plainackTS") && from == target))}})
				if genuine {
					s.Sent[sink.ID] = append(s.Sent[sink.ID], Delivered{TTL: answers, From: from, AtNs: vsched.Now() + d, Genuine: true, Form: form, Tag: tag, Conditional: conditional})
				}
			}
		} else {
			panic(err)
		}
	}
	for _, in := range sc.Inject {
		if in.OnTTL != t {
			continue
		}
		var b []byte
		noop := false
		from := parseAddr(in.From, Evil(vi.V6))
		if in.RawHex != "" {
			b = unhex(in.RawHex)
		} else {
			q := p
			if in.PrevRun {
				prev, ok := s.Seen[sink.ID-1][in.AnswerTTL]
				if !ok {
					continue
				}
				if prev.Proto != refcodec.ProtoICMP && prev.Proto != refcodec.ProtoICMPv6 && prev.SrcPort == p.SrcPort {
					continue // the kernel handed this run the previous run's ephemeral port: the flows are identical, nothing is stale
				}
				q = prev
			} else if in.AnswerTTL != t {
				if prev, ok := s.Seen[sink.ID][in.AnswerTTL]; ok {
					q = prev
				} else {
					q = Hypo(vi.Kind, p, in.AnswerTTL, initSeq)
				}
			}
			c2 := ctx
			if vi.Kind == "sack" && strings.HasPrefix(strings.TrimPrefix(in.Form, "v6mapped:"), "sack") {
				c2.SackHeld = []uint8{uint8(in.AnswerTTL)}
			}
			var err error
			b, err = simnet.Build(in.Form, q, from, c2)
			if err != nil {
				panic(err)
			}
			if in.Perturb != nil {
				orig := b
				b, err = in.Perturb.Apply(b)
				if err != nil {
					panic(fmt.Sprintf("perturb %+v on %s: %v", in.Perturb, in.Form, err))
				}
				if string(orig) == string(b) {
					noop = true // e.g. byte-swapping a port whose two bytes are equal: the packet is the genuine reply
				}
			}
		}
		for _, rw := range in.Rewrite {
			var err error
			b, err = rw.Apply(b)
			if err != nil {
				panic(fmt.Sprintf("rewrite %+v on %s: %v", rw, in.Form, err))
			}
		}
		if in.NoiseKind != "" {
			lo, hi := in.NoiseArg, in.NoiseArg+1
			if in.NoiseArg < 0 {
				lo, hi = 0, NoiseCount(in.NoiseKind, b)
			}
			for a := lo; a < hi; a++ {
				nb := NoiseApply(in.NoiseKind, b, a)
				if len(nb) == 0 {
					continue
				}
				out = append(out, simnet.Reply{DelayNs: int64(in.DelayUs)*1000 + int64(a-lo)*1000, Raw: nb, Meta: simnet.Meta{ToTTL: -1, Tag: in.Tag, From: from, Flow: sink.ID}})
			}
			continue
		}
		b = finish(b, in.Truncate, in.Mutate)
		d := int64(in.DelayUs) * 1000
		gen, ans, conditional := in.Genuine || (noop && in.RawHex == "" && in.NoiseKind == "" && !in.PrevRun), in.AnswerTTL, false
		if !gen && in.AliasTTL > 0 {
			gen, ans, conditional = true, in.AliasTTL, true
		}
		for k := 1; k < in.Repeat; k++ {
			out = append(out, simnet.Reply{DelayNs: d + int64(k)*int64(in.EveryUs)*1000, Raw: b, Meta: simnet.Meta{ToTTL: -1, Tag: in.Tag, From: from, Flow: sink.ID}})
		}
		out = append(out, simnet.Reply{DelayNs: d, Raw: b, Meta: simnet.Meta{ToTTL: ans, Genuine: gen, Tag: in.Tag, From: from, Flow: sink.ID}})
		if gen {
			s.Sent[sink.ID] = append(s.Sent[sink.ID], Delivered{TTL: ans, From: from, AtNs: vsched.Now() + d, Genuine: true, Form: in.Form, Tag: in.Tag, Conditional: conditional})
		}
	}
	return out
}

func Evil(v6 bool) netip.Addr {
	if v6 {
		return Evil6
	}
	return Evil4
}

func unhex(s string) []byte {
	b := make([]byte, len(s)/2)
	for i := range b {
		fmt.Sscanf(s[2*i:2*i+2], "%02x", &b[i])
	}
	return b
}

// ---- running -----------------------------------------------------------------------

type randSrc struct {
	vals []uint32
	i    int
}

func (r *randSrc) Uint32() uint32 {
	if r.i < len(r.vals) {
		v := r.vals[r.i]
		r.i++
		return v
	}
	r.i++
	return 0x9e3779b9 * uint32(r.i+7)
}
func (r *randSrc) Float64() float64 { return 0.5 }

// Obs is everything observed about one protocol run.
type Obs struct {
	Run         *result.TracerouteRun
	Err         error
	SinkID      int
	Done        bool
	EndNs       int64
	ThreadsLeft int // managed threads still alive when the entry point returned (single-chain runs only)
}

// Hop is the canonical view of a reported hop.
type Hop struct {
	TTL   int
	Addr  netip.Addr // zero = empty hop
	RTTus int64
	Dest  bool
}

func Hops(r *result.TracerouteRun) []Hop {
	if r == nil {
		return nil
	}
	var hs []Hop
	for _, h := range r.Hops {
		x := Hop{TTL: h.TTL, Dest: h.IsDest, RTTus: int64(h.RTT*1000 + 0.5)}
		if len(h.IPAddress) > 0 {
			a, _ := netip.AddrFromSlice(h.IPAddress)
			x.Addr = a.Unmap()
		}
		hs = append(hs, x)
	}
	return hs
}

func HopsString(hs []Hop) string {
	var sb strings.Builder
	for _, h := range hs {
		if !h.Addr.IsValid() {
			fmt.Fprintf(&sb, "%d:* ", h.TTL)
		} else {
			d := ""
			if h.Dest {
				d = "!"
			}
			fmt.Fprintf(&sb, "%d:%s%s(%dus) ", h.TTL, h.Addr, d, h.RTTus)
		}
	}
	return sb.String()
}

// HopsKey is HopsString without RTTs.
func HopsKey(hs []Hop) string {
	var sb strings.Builder
	for _, h := range hs {
		if !h.Addr.IsValid() {
			fmt.Fprintf(&sb, "%d:* ", h.TTL)
		} else {
			d := ""
			if h.Dest {
				d = "!"
			}
			fmt.Fprintf(&sb, "%d:%s%s ", h.TTL, h.Addr, d)
		}
	}
	return sb.String()
}

// PrepareBases resets the process-wide identifier allocators.
func PrepareBases(ipid, echo uint32) {
	packets.VerifSetPacketIDBase(ipid)
	icmp.VerifSetEchoIDBase(echo)
}

// Prepare resets process-wide state for an execution and returns the Net with listeners set up.
func Prepare(script *Script, scns ...*Scn) *simnet.Net {
	simnet.Install()
	n := simnet.New(script)
	sc0 := scns[0]
	packets.VerifSetPacketIDBase(sc0.IPIDBase)
	icmp.VerifSetEchoIDBase(sc0.EchoBase)
	vrand.Src = &randSrc{vals: sc0.Rand}
	n.Faults = sc0.Faults
	n.FiltersOff = sc0.FiltersOff
	n.NoOutgoingLoop = sc0.NoOwnLoop
	n.DirectIP = sc0.DirectIP
	vnet.Blackhole, vnet.Dials = nil, 0
	packets.VerifMustClosePort = sc0.MustClosePort
	if sc0.EpsNs > 0 {
		n.EpsNs = sc0.EpsNs
	}
	vtime.WallStepAtNs, vtime.WallStepSec = int64(sc0.WallStepAtMs)*1_000_000, int64(sc0.WallStepSec)
	return n
}

// BlackholePort declares connects to SackAddr:port black holes for the execution being prepared (vnet.Dialer).
func BlackholePort(port uint16) {
	prev := vnet.Blackhole
	vnet.Blackhole = func(network, address string) bool {
		if ap, err := netip.ParseAddrPort(address); err == nil && ap.Port() == port && ap.Addr() == SackAddr {
			return true
		}
		return prev != nil && prev(network, address)
	}
}

// Listen opens the real listener a SACK scenario needs and returns the port to target.
func Listen(n *simnet.Net, sc *Scn) (uint16, error) {
	spec := simnet.SynAckSpec{Enabled: true, ISN: 0x1000, AckNum: 0x2000, SackPermitted: true}
	if sc.SynAck != nil {
		spec = *sc.SynAck
	}
	if sc.NoListen || sc.DialBlackhole {
		// reserve a port and close it again: nothing listens there
		l, err := net.ListenTCP("tcp4", &net.TCPAddr{IP: SackAddr.AsSlice()})
		if err != nil {
			return 0, err
		}
		p := uint16(l.Addr().(*net.TCPAddr).Port)
		l.Close()
		return p, nil
	}
	li, err := n.Listen(netip.AddrPortFrom(SackAddr, 0), spec)
	if err != nil {
		return 0, err
	}
	li.Mutate = func(kind string, arg int, raw []byte) [][]byte {
		lo, hi := arg, arg+1
		if arg < 0 {
			lo, hi = 0, NoiseCount(kind, raw)
		}
		var out [][]byte
		for a := lo; a < hi; a++ {
			if nb := NoiseApply(kind, raw, a); len(nb) > 0 {
				out = append(out, nb)
			}
		}
		return out
	}
	return li.Addr.Port(), nil
}

func targetSlice(sc *Scn) net.IP {
	ip := net.IP(sc.Target().AsSlice())
	if sc.Target16 && sc.Target().Is4() {
		return ip.To16()
	}
	return ip
}

// RunVariant calls the variant's exported entry point (inside a managed thread).
func RunVariant(ctx context.Context, sc *Scn, port uint16) (*result.TracerouteRun, error) {
	vi := Info(sc.Variant)
	timeout := time.Duration(sc.TimeoutMs) * time.Millisecond
	delay := time.Duration(sc.SendDelayMs()) * time.Millisecond
	pp := common.TracerouteParallelParams{TracerouteParams: common.TracerouteParams{
		MinTTL: uint8(sc.First), MaxTTL: uint8(sc.Last), TracerouteTimeout: timeout, PollFrequency: 100 * time.Millisecond, SendDelay: delay}}
	switch vi.Kind {
	case "icmp4", "icmp6":
		return icmp.RunICMPTraceroute(ctx, icmp.Params{Target: sc.Target(), ParallelParams: pp})
	case "udp4", "udp6":
		u := udp.NewUDPv4(targetSlice(sc), uint16(sc.Port), uint8(sc.First), uint8(sc.Last), delay, timeout, false)
		u.LoosenICMPSrc = vi.Relaxed
		return u.Traceroute()
	case "tcp", "tcpparis":
		t := tcp.NewTCPv4(targetSlice(sc), uint16(sc.Port), uint8(sc.First), uint8(sc.Last), delay, timeout, vi.Kind == "tcpparis", false)
		t.LoosenICMPSrc = vi.Relaxed
		return t.Traceroute()
	case "sack":
		// HandshakeTimeout is also the REAL-time limit of the kernel dial to the harness listener: generous, so that a loaded
		// machine cannot turn it into a spurious failure (it plays no role on the virtual clock before the handshake read)
		hs := timeout
		if hs < 3*time.Second && !sc.DialBlackhole {
			hs = 3 * time.Second
		}
		return sack.RunSackTraceroute(ctx, sack.Params{Target: netip.AddrPortFrom(SackAddr, port), HandshakeTimeout: hs, FinTimeout: 500 * time.Millisecond,
			ParallelParams: pp, LoosenICMPSrc: vi.Relaxed})
	}
	return nil, fmt.Errorf("unknown variant")
}

type Result struct {
	X                   *vsched.Exec
	Net                 *simnet.Net
	Script              *Script
	Obs                 []*Obs
	FDsBefore, FDsAfter int
}

var warmOnce sync.Once

func countFDs() int {
	ents, err := os.ReadDir("/proc/self/fd")
	if err != nil {
		return -1
	}
	return len(ents)
}

// RunScns executes the scenarios concurrently (one managed thread each; a single scenario runs in the main thread)
// on one shared wire.
func RunScns(cfg vsched.Config, top ...*Scn) *Result {
	// flatten: chains[i] = indices of the scenarios thread i runs in order
	var scns []*Scn
	var chains [][]int
	for _, sc := range top {
		ch := []int{len(scns)}
		scns = append(scns, sc)
		for k := range sc.Then {
			ch = append(ch, len(scns))
			scns = append(scns, &sc.Then[k])
		}
		chains = append(chains, ch)
	}
	for _, sc := range scns {
		sc.Defaults()
		sc.done = false
	}
	script := NewScript(scns...)
	n := Prepare(script, scns...)
	res := &Result{Net: n, Script: script}
	warmOnce.Do(func() {
		if l, err := net.Listen("tcp4", "127.0.0.1:0"); err == nil {
			l.Close()
		}
		if c, err := net.Dial("udp4", "198.18.0.9:9"); err == nil {
			c.Close()
		}
	})
	res.FDsBefore = countFDs()
	ports := make([]uint16, len(scns))
	listenerOf := map[int]*simnet.Listener{}
	for i, sc := range scns {
		res.Obs = append(res.Obs, &Obs{SinkID: -1})
		if Info(sc.Variant).Kind != "sack" || sc.ShareListener > 0 {
			continue
		}
		before := len(n.Listeners)
		p, err := Listen(n, sc)
		if err != nil {
			panic("listen: " + err.Error())
		}
		ports[i] = p
		if sc.DialBlackhole {
			BlackholePort(p)
		}
		if len(n.Listeners) > before {
			listenerOf[i] = n.Listeners[len(n.Listeners)-1]
			listenerOf[i].Expect = 1
			listenerOf[i].NotYet = true
		}
	}
	for i, sc := range scns {
		if sc.ShareListener > 0 {
			ports[i] = ports[sc.ShareListener-1]
			if l := listenerOf[sc.ShareListener-1]; l != nil {
				l.Expect++
			}
		}
	}
	if cfg.MaxVirtual == 0 {
		cfg.MaxVirtual = 30 * time.Minute
	}
	for _, sc := range scns {
		if sc.MaxSteps > cfg.MaxSteps {
			cfg.MaxSteps = sc.MaxSteps
		}
	}
	res.X = vsched.Run(cfg, n, func() {
		one := func(i int) {
			sc := scns[i]
			ctx := context.Context(context.Background())
			if sc.CancelAtMs > 0 {
				var cancel context.CancelFunc
				ctx, cancel = vctxWithCancelAt(sc.CancelAtMs)
				defer cancel()
			}
			if l := listenerOf[i]; l != nil {
				l.NotYet = false
			} else if sc.ShareListener > 0 && listenerOf[sc.ShareListener-1] != nil {
				listenerOf[sc.ShareListener-1].NotYet = false
			}
			var r *result.TracerouteRun
			var err error
			if k := Info(sc.Variant).Kind; sc.CancelAtMs > 0 && (k == "udp4" || k == "udp6" || k == "tcp" || k == "tcpparis") {
				// these entry points take no context and start their engine on context.Background(): the caller's context
				// stands in for it (vctx.WithRoot), so that the engine run over the REAL driver is the one that is cancelled
				vctx.WithRoot(ctx, func() { r, err = RunVariant(ctx, sc, ports[i]) })
			} else {
				r, err = RunVariant(ctx, sc, ports[i])
			}
			o := res.Obs[i]
			o.Run, o.Err, o.Done, o.EndNs = r, err, true, vsched.Now()
			if len(chains) == 1 {
				// (a thread that only has to return - the sender of a rendezvous that has just completed - is not "outliving the
				// call": everything runnable at this instant runs before the count; what is still alive then waits for time or input)
				vtime.Sleep(time.Nanosecond)
				o.ThreadsLeft = vsched.LiveThreads()
			}
			sc.done = true
		}
		chain := func(c []int) {
			if script.threadScns == nil {
				script.threadScns = map[int][]*Scn{}
			}
			for _, i := range c {
				script.threadScns[vsched.CurrentThread()] = append(script.threadScns[vsched.CurrentThread()], scns[i])
			}
			for _, i := range c {
				one(i)
			}
		}
		if len(chains) == 1 {
			chain(chains[0])
			return
		}
		for _, c := range chains {
			c := c
			vsched.Go(func() { chain(c) })
		}
	})
	n.Shutdown()
	res.FDsAfter = countFDs()
	vrand.Src = nil
	// attribute sinks to scenarios
	for sid, sc := range script.bySink {
		for i := range scns {
			if scns[i] == sc {
				res.Obs[i].SinkID = sid
			}
		}
	}
	return res
}

// SortedHops returns a stable rendering of every run's hops.
func (r *Result) Summary() string {
	var parts []string
	for i, o := range r.Obs {
		parts = append(parts, fmt.Sprintf("run%d: err=%v hops=%s", i, o.Err, HopsString(Hops(o.Run))))
	}
	sort.Strings(parts)
	return strings.Join(parts, "\n")
}

// WireLog renders the ledger.
func (r *Result) WireLog() string {
	var sb strings.Builder
	for _, e := range r.Net.Ledger {
		desc := ""
		if e.P != nil {
			p := e.P
			desc = fmt.Sprintf("v%d %s>%s ttl=%d proto=%d id=%d", p.V, p.Src, p.Dst, p.TTL, p.Proto, p.IPID)
			switch p.Proto {
			case refcodec.ProtoICMP, refcodec.ProtoICMPv6:
				desc += fmt.Sprintf(" icmp type=%d code=%d echo=%d/%d", p.ICMPType, p.ICMPCode, p.EchoID, p.EchoSeq)
			case refcodec.ProtoUDP:
				desc += fmt.Sprintf(" udp %d>%d len=%d", p.SrcPort, p.DstPort, p.UDPLen)
			case refcodec.ProtoTCP:
				desc += fmt.Sprintf(" tcp %d>%d seq=%d ack=%d flags=%02x", p.SrcPort, p.DstPort, p.Seq, p.Ack, p.Flags)
			}
			if len(p.Problems) > 0 {
				desc += fmt.Sprintf(" PROBLEMS=%v", p.Problems)
			}
		} else {
			desc = fmt.Sprintf("(unparseable %d bytes)", len(e.Raw))
		}
		fmt.Fprintf(&sb, "  %10.3fms %-4s %s", float64(e.T)/1e6, e.Dir, desc)
		if e.Dir != "tx" {
			fmt.Fprintf(&sb, " [%s to_ttl=%d genuine=%v seen=%v]", e.Meta.Tag, e.Meta.ToTTL, e.Meta.Genuine, e.Seen)
		}
		sb.WriteString("\n")
	}
	return sb.String()
}

func vctxWithCancelAt(ms int) (context.Context, context.CancelFunc) {
	return vctx.WithCancelAt(context.Background(), int64(ms)*1_000_000)
}
