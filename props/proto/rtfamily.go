package proto

import (
	"encoding/json"
	"fmt"
	"strings"
	"sync"

	"verif/props/core"
	"verif/vsched"
)

// RTItem is one enumerated request of a RunTraceroute-level family.
type RTItem struct {
	Scn   RTScn             `json:"rt"`
	Class string            `json:"class"`
	Note  map[string]string `json:"note,omitempty"`
}

type RTFamily struct {
	ID         string
	Gen        func(tier string) []RTItem
	Check      func(it *RTItem, r *RTResult) []Issue
	Bound      func(tier string) int
	Clock      bool
	OutcomeKey func(r *RTResult) string
	// SecondEvery > 0: every SecondEvery-th item is also executed AFTER another request of the same kind in the same process
	// (different port, TTL range and flags) and must be judged the same and observe the same hops as when it comes first
	SecondEvery int

	mu    sync.Mutex
	cache map[string][]RTItem
}

func (f *RTFamily) items(tier string) []RTItem {
	f.mu.Lock()
	defer f.mu.Unlock()
	if f.cache == nil {
		f.cache = map[string][]RTItem{}
	}
	if it, ok := f.cache[tier]; ok {
		return it
	}
	it := f.Gen(tier)
	f.cache[tier] = it
	return it
}

func (f *RTFamily) Count(tier string) int { return len(f.items(tier)) }

func (f *RTFamily) RunPlain(it *RTItem) *RTResult {
	sc := it.Scn
	return RunRT(vsched.Config{}, &sc)
}

func rtFatal(r *RTResult) *Issue {
	switch r.X.Outcome {
	case vsched.Crash:
		return &Issue{Key: "crash", Detail: r.X.Crash.Value + "\n" + r.X.Crash.Stack}
	case vsched.Deadlock:
		return &Issue{Key: "hang", Detail: fmt.Sprint(r.X.Blocked)}
	case vsched.Horizon:
		return &Issue{Key: "no-termination-within-horizon", Detail: fmt.Sprintf("virtual=%s steps=%d", r.X.Virtual, r.X.Steps)}
	}
	return nil
}

func (f *RTFamily) Run(tier string, idx int, r *core.ScnResult) {
	items := f.items(tier)
	it := &items[idx]
	bound := 0
	if f.Bound != nil {
		bound = f.Bound(tier)
	}
	if it.Scn.Bound > 0 {
		bound = it.Scn.Bound
	} else if it.Scn.Bound < 0 {
		bound = 0 // the item asks for the default schedule only (large requests)
	}
	r.Nontrivial = true
	var last *RTResult
	e := &vsched.Explorer{Bound: bound}
	e.RunOne = func(prefix []int, sig []uint32) *vsched.Exec {
		sc := it.Scn
		last = RunRT(vsched.Config{ClockDeviation: f.Clock, Prefix: prefix, PrefixSig: sig, DelayBounded: sc.Queries+sc.E2e > 1 || sc.Overlap || sc.Overlap2}, &sc)
		return last.X
	}
	e.Check = func(x *vsched.Exec, cost int) bool {
		if x.Outcome == vsched.Diverged {
			r.Infra = fmt.Sprintf("item %d (%s): replay diverged at point %d", idx, it.Class, x.DivergeAt)
			return false
		}
		var issues []Issue
		if fi := rtFatal(last); fi != nil {
			issues = append(issues, *fi)
		} else {
			issues = f.Check(it, last)
		}
		for _, is := range issues {
			r.Fail(core.Failure{Key: f.ID + " " + it.Class + "/" + is.Key, What: is.Detail, Scenario: core.JSON(it), Choices: x.Choices(), Bound: cost})
		}
		if f.OutcomeKey != nil {
			r.Outcome(core.Hash(f.OutcomeKey(last)))
		} else {
			r.Outcome(core.Hash(last.Err != nil, last.Summary0()))
		}
		return len(issues) == 0
	}
	e.Explore()
	r.Stats = e.Stats
	if f.SecondEvery > 0 && idx%f.SecondEvery == 0 && it.Scn.After == nil && r.Infra == "" && len(r.Failures) == 0 {
		first := f.RunPlain(it)
		second := *it
		pre := EarlierRequest(&it.Scn)
		second.Scn.After = &pre
		second.Class = it.Class + "/after-an-earlier-request"
		res := f.RunPlain(&second)
		r.Branch("after-earlier-request-checked")
		var issues []Issue
		if fi := rtFatal(res); fi != nil {
			issues = append(issues, *fi)
		} else {
			issues = f.Check(&second, res)
			if a, b := first.Summary0(), res.Summary0(); a != b {
				issues = append(issues, Issue{Key: "differs-from-first-request", Detail: fmt.Sprintf("as first request: %s ; after an earlier request: %s", a, b)})
			}
		}
		for _, is := range issues {
			r.Fail(core.Failure{Key: f.ID + " " + second.Class + "/" + is.Key, What: is.Detail, Scenario: core.JSON(&second)})
		}
	}
	if idx%29 == 0 {
		a := f.RunPlain(it)
		b := f.RunPlain(it)
		r.DetChecked++
		if a.Summary0() == b.Summary0() && a.X.Steps == b.X.Steps && a.X.Virtual == b.X.Virtual {
			r.DetEqual++
		} else {
			r.Infra = fmt.Sprintf("item %d (%s): two runs of the same schedule differ: %s / %s", idx, it.Class, a.Summary(), b.Summary())
		}
	}
	if idx%101 == 0 {
		r.Sample = core.JSON(map[string]any{"class": it.Class, "request": it.Scn, "observed": last.Summary()})
	}
}

func (f *RTFamily) Replay(scn json.RawMessage, choices []int) (string, bool) {
	var it RTItem
	if err := json.Unmarshal(scn, &it); err != nil {
		return err.Error(), false
	}
	sc := it.Scn
	res := RunRT(vsched.Config{ClockDeviation: f.Clock, Prefix: choices, Trace: false, DelayBounded: sc.Queries+sc.E2e > 1 || sc.Overlap || sc.Overlap2}, &sc)
	s := fmt.Sprintf("class: %s\nrequest: %s\nchoices: %v\n%s virtual=%s steps=%d\nwire:\n", it.Class, scn, choices, res.Summary(), res.X.Virtual, res.X.Steps)
	wl := (&Result{Net: res.Net}).WireLog()
	if len(wl) > 6000 {
		wl = wl[:6000] + "  ...\n"
	}
	s += wl
	var issues []Issue
	if fi := rtFatal(res); fi != nil {
		issues = append(issues, *fi)
	} else {
		issues = f.Check(&it, res)
		if it.Scn.After != nil && strings.HasSuffix(it.Class, "/after-an-earlier-request") {
			alone := it
			alone.Scn.After = nil
			first := f.RunPlain(&alone)
			if a, b := first.Summary0(), res.Summary0(); a != b {
				issues = append(issues, Issue{Key: "differs-from-first-request", Detail: fmt.Sprintf("as first request: %s ; after an earlier request: %s", a, b)})
			}
		}
	}
	for _, is := range issues {
		s += fmt.Sprintf("ORACLE FAILED: %s %s/%s: %s\n", f.ID, it.Class, is.Key, is.Detail)
	}
	if len(issues) > 0 {
		return s, false
	}
	return s + "oracle: ok\n", true
}

// EarlierRequest is a plain request of the same kind as sc (same target string, protocol, method) whose every other
// parameter differs: the request that "came before" in the non-initial-state checks.
func EarlierRequest(sc *RTScn) RTScn {
	pre := RTScn{Hostname: sc.Hostname, Protocol: sc.Protocol, Method: sc.Method, WantV6: sc.WantV6, Paris: sc.Paris, MinTTL: 1, MaxTTL: 2, DelayMs: 10, TimeoutMs: 100,
		Queries: 1, Dest: 2, IPIDBase: sc.IPIDBase, EchoBase: sc.EchoBase, UseListenerPort: sc.UseListenerPort, Capability: sc.Capability, HTTP: sc.HTTP,
		ReverseDNS: !sc.ReverseDNS, SkipPrivate: !sc.SkipPrivate}
	switch {
	case sc.UseListenerPort:
		pre.Port = sc.Port
	case sc.Port == 4444:
		pre.Port = 5555
	default:
		pre.Port = 4444
	}
	if pre.Protocol != "udp" && pre.Protocol != "tcp" && pre.Protocol != "icmp" {
		pre.Protocol = "udp"
	}
	return pre
}

// Summary0: schedule-independent summary.
func (r *RTResult) Summary0() string {
	s := fmt.Sprintf("err=%v", r.Err != nil)
	if r.Res != nil {
		s += fmt.Sprintf(" runs=%d rtts=%d", len(r.Res.Traceroute.Runs), len(r.Res.E2eProbe.RTTs))
		var ks []string
		for i := range r.Res.Traceroute.Runs {
			ks = append(ks, HopsKey(Hops(&r.Res.Traceroute.Runs[i])))
		}
		sortStrings(ks)
		s += fmt.Sprint(ks)
	}
	return s
}

func sortStrings(a []string) {
	for i := 1; i < len(a); i++ {
		for j := i; j > 0 && a[j] < a[j-1]; j-- {
			a[j], a[j-1] = a[j-1], a[j]
		}
	}
}

func (f *RTFamily) Register(level, rule string, assumptions []string) {
	core.Register(&core.Property{ID: f.ID, Level: level, Rule: rule, Count: f.Count, Run: f.Run, Replay: f.Replay,
		Assumptions: append([]string{
			"requests go through traceroute.RunTraceroute (or server.TracerouteHandler via httptest) over the simulated wire; targets are IP literals (name resolution is outside every property)",
			"virtual clock; private network namespace as for the protocol-level checks",
		}, assumptions...), Exhaustive: true, NeedsNetns: true})
}
