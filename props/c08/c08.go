// Package c08: bounded termination and prompt cancellation.
package c08

import (
	"context"
	"encoding/json"
	"errors"
	"fmt"
	"io"
	"net"
	"net/http"
	"strings"
	"time"

	"github.com/DataDog/datadog-traceroute/cache"
	"github.com/DataDog/datadog-traceroute/common"
	"github.com/DataDog/datadog-traceroute/publicip"
	"github.com/DataDog/datadog-traceroute/reversedns"
	"github.com/cenkalti/backoff/v5"

	"verif/props/core"
	"verif/props/proto"
	"verif/shim/vctx"
	"verif/shim/vtime"
	"verif/simnet"
	"verif/vsched"
)

// ---- (1) protocol runs under hostile network behaviour ---------------------------------------------------

func bound(sc *proto.Scn, extraPackets int) time.Duration {
	vi := proto.Info(sc.Variant)
	n := time.Duration(sc.Last - sc.First + 1)
	timeout, delay, poll := time.Duration(sc.TimeoutMs)*time.Millisecond, time.Duration(sc.DelayMs)*time.Millisecond, 100*time.Millisecond
	var b time.Duration
	if vi.Parallel {
		b = timeout + n*delay + poll
	} else {
		per := timeout + poll
		if delay > per {
			per = delay
		}
		b = n * per
	}
	if vi.Kind == "sack" {
		b += 500*time.Millisecond + poll // handshake read deadline
	}
	return b + time.Duration(extraPackets)*2*time.Microsecond + time.Millisecond
}

func gen(tier string) []proto.Item {
	var items []proto.Item
	cfgs := [][2]int{{300, 10}}
	ranges := [][2]int{{1, 4}, {1, 30}, {28, 30}, {30, 30}, {254, 255}} // (a first TTL above 1: the budget counts the probes of the range, not the last TTL)
	if tier == "thorough" {
		cfgs = [][2]int{{300, 10}, {3000, 50}}
		ranges = [][2]int{{1, 4}, {1, 30}, {250, 255}, {1, 255}}
	}
	for _, v := range proto.Variants {
		vi := proto.Info(v)
		for _, cfg := range cfgs {
			for _, r := range ranges {
				mk := func() proto.Scn {
					s := proto.Scn{Variant: v, First: r[0], Last: r[1], Dest: 0, IPIDBase: 800, EchoBase: 80, TimeoutMs: cfg[0], DelayMs: cfg[1], Hops: map[int]proto.HopSpec{}, SilentElsewhere: true}
					for t := r[0]; t <= r[1]; t++ {
						s.Hops[t] = proto.HopSpec{Silent: true}
					}
					return s
				}
				total := cfg[0] + (r[1]-r[0]+1)*cfg[1]
				if !vi.Parallel {
					total = (r[1] - r[0] + 1) * (cfg[0] + 100)
				}
				cls := fmt.Sprintf("%s/r%d-%d/t%d-d%d", v, r[0], r[1], cfg[0], cfg[1])
				items = append(items, proto.Item{Scn: mk(), Class: cls + "/silence", Note: map[string]string{"extra": "0"}})
				if !vi.Parallel && r[1]-r[0] > 40 {
					continue // serial floods over hundreds of TTL windows: covered by the shorter ranges
				}
				evil := proto.Evil(vi.V6).String()
				form := vi.TEForm
				// irrelevant packets every millisecond for the whole run
				s := mk()
				cnt := total + 200
				s.MaxSteps = 200000 + 20*cnt
				s.Inject = []proto.Inject{{OnTTL: r[0], AnswerTTL: r[0], Form: form, From: evil, DelayUs: 100, Tag: "flood", Rewrite: []simnet.Perturb{{Field: "q.dst", Op: "+1"}}, Repeat: cnt, EveryUs: 1000}}
				items = append(items, proto.Item{Scn: s, Class: cls + "/irrelevant-flood", Note: map[string]string{"extra": fmt.Sprint(cnt)}})
				// only malformed packets
				s = mk()
				s.MaxSteps = 200000 + 20*cnt
				s.Inject = []proto.Inject{{OnTTL: r[0], AnswerTTL: r[0], Form: form, From: evil, DelayUs: 100, Tag: "flood", Truncate: 11, Repeat: cnt, EveryUs: 1000}}
				items = append(items, proto.Item{Scn: s, Class: cls + "/malformed-flood", Note: map[string]string{"extra": fmt.Sprint(cnt)}})
				// copies of a GENUINE reply (a reply the run accepts) every millisecond, across the deadline
				s = mk()
				s.MaxSteps = 200000 + 20*cnt
				delete(s.Hops, r[0])
				s.Inject = []proto.Inject{{OnTTL: r[0], AnswerTTL: r[0], Form: form, From: proto.Router(vi.V6, 0, r[0]).String(), DelayUs: 20000, Tag: "duplicate-flood", Genuine: true, Repeat: cnt, EveryUs: 1000}}
				items = append(items, proto.Item{Scn: s, Class: cls + "/genuine-duplicates-flood", Note: map[string]string{"extra": fmt.Sprint(cnt)}})
				// an answer to a probe that has not been sent yet (stale / forged traffic on the run's own flow), then silence
				if r[1] > r[0] {
					for _, f := range []string{vi.TEForm, vi.DestForm} {
						if vi.Kind == "tcp" && f != vi.TEForm {
							continue // (a SYN-ACK / RST carries no per-probe identifier: not an "early" reply in the default SYN mode)
						}
						s = mk()
						from := evil
						if f == vi.DestForm {
							from = s.Target().String()
						}
						s.Inject = []proto.Inject{{OnTTL: r[0], AnswerTTL: r[1], Form: f, From: from, DelayUs: 500, Tag: "early"}}
						items = append(items, proto.Item{Scn: s, Class: cls + "/reply-before-its-probe", Note: map[string]string{"extra": "1"}})
					}
				}
				// a burst right at the deadline
				s = mk()
				at := cfg[0]*1000 - 500
				s.Inject = []proto.Inject{{OnTTL: r[0], AnswerTTL: r[0], Form: form, From: evil, DelayUs: at, Tag: "burst", Rewrite: []simnet.Perturb{{Field: "q.dst", Op: "+1"}}, Repeat: 2000, EveryUs: 1}}
				items = append(items, proto.Item{Scn: s, Class: cls + "/burst-at-deadline", Note: map[string]string{"extra": "2000"}})
			}
		}
		// the destination's first answer arrives late - after the last probe has gone out, inside the listening window: the
		// run still ends within the bound computed from its parameters (an answer does not buy more time)
		for _, cfg := range cfgs {
			for _, late := range []int{cfg[0] * 1000 / 2, cfg[0]*1000 - 10000, cfg[0] * 1000} {
				s := proto.Scn{Variant: v, First: 1, Last: 4, Dest: 3, IPIDBase: 800, EchoBase: 80, TimeoutMs: cfg[0], DelayMs: cfg[1]}
				s.Hops = map[int]proto.HopSpec{3: {DelayUs: late}, 4: {DelayUs: late}}
				items = append(items, proto.Item{Scn: s, Class: fmt.Sprintf("%s/r1-4/t%d-d%d/destination-answers-late-%dms", v, cfg[0], cfg[1], late/1000), Note: map[string]string{"extra": "0"}})
			}
		}
		if vi.Kind == "sack" {
			// the handshake is never captured while SYN-ACKs of other connections keep arriving
			for _, every := range []int{100, 400, 499} {
				s := proto.Scn{Variant: v, First: 1, Last: 4, Dest: 3, TimeoutMs: 300, DelayMs: 10}
				s.SynAck = &simnet.SynAckSpec{Enabled: false, FloodCount: 60000 / every, FloodEveryMs: every}
				items = append(items, proto.Item{Scn: s, Class: fmt.Sprintf("%s/handshake/synack-flood-every-%dms", v, every), Note: map[string]string{"extra": "0", "handshake_only": "1"}})
			}
			s := proto.Scn{Variant: v, First: 1, Last: 4, Dest: 3, TimeoutMs: 300, DelayMs: 10}
			s.SynAck = &simnet.SynAckSpec{Enabled: false}
			items = append(items, proto.Item{Scn: s, Class: v + "/handshake/never-captured", Note: map[string]string{"extra": "0", "handshake_only": "1"}})
			// the connect itself is never answered: the run ends when the handshake timeout (here: the run's timeout) has passed
			{
				s := proto.Scn{Variant: v, First: 1, Last: 4, Dest: 3, TimeoutMs: 300, DelayMs: 10, DialBlackhole: true}
				items = append(items, proto.Item{Scn: s, Class: v + "/handshake/connect-never-answered", Note: map[string]string{"extra": "0", "dial_only": "1"}})
			}
			// degenerate SACK option contents on the run's own connection (a block whose edges coincide, an option without a
			// complete block): whatever the run makes of them, it ends within its bound
			for _, f := range []string{"sackEmpty", "sack0", "sackHalf"} {
				for _, on := range []int{1, 3} {
					s := proto.Scn{Variant: v, First: 1, Last: 4, Dest: 0, TimeoutMs: 300, DelayMs: 10, SilentElsewhere: true, MaxSteps: 20000, Hops: map[int]proto.HopSpec{1: {Silent: true}, 2: {Silent: true}, 3: {Silent: true}, 4: {Silent: true}}}
					s.Inject = []proto.Inject{{OnTTL: on, AnswerTTL: on, Form: f, From: s.Target().String(), DelayUs: 500, Tag: "degenerate-sack"}}
					items = append(items, proto.Item{Scn: s, Class: fmt.Sprintf("%s/degenerate-sack-option/%s-after-probe-%d", v, f, on), Note: map[string]string{"extra": "1"}})
				}
			}
		}
		// not the first run of its process: the packet-identifier allocator stands just below the 16-bit wrap (where it has
		// to skip a range): the run still starts, and ends within its bound on a silent network
		if vi.Kind == "tcp" {
			for _, base := range []uint32{65535, 65530, 65536 - 30} {
				s := proto.Scn{Variant: v, First: 1, Last: 4, Dest: 0, IPIDBase: base, EchoBase: 80, TimeoutMs: 300, DelayMs: 10, SilentElsewhere: true, MaxSteps: 20000, Hops: map[int]proto.HopSpec{1: {Silent: true}, 2: {Silent: true}, 3: {Silent: true}, 4: {Silent: true}}}
				items = append(items, proto.Item{Scn: s, Class: fmt.Sprintf("%s/r1-4/t300-d10/silence/packet-ids-at-%d", v, base), Note: map[string]string{"extra": "0"}})
			}
		}
		// cancellation of the caller's context (the variants that take one) on a grid of instants
		// (udp and tcp-syn entry points take no context; there the caller's context stands in for the context.Background()
		// their engine is started on, so that the engine run over the real driver is cancelled: proto.RunScns)
		if vi.Kind == "icmp4" || vi.Kind == "sack" || v == "udp4" || v == "syn" || v == "synparis" {
			step := 20
			if tier == "thorough" {
				step = 5
			}
			if vi.Parallel {
				// a long range, cancelled while most of its probes are still to be sent: the sender notices as well
				for _, at := range []int{5, 25, 105, 255} {
					s := proto.Scn{Variant: v, First: 1, Last: 30, Dest: 0, TimeoutMs: 300, DelayMs: 10, CancelAtMs: at, SilentElsewhere: true, MaxSteps: 40000, Hops: map[int]proto.HopSpec{}}
					for t := 1; t <= 30; t++ {
						s.Hops[t] = proto.HopSpec{Silent: true}
					}
					items = append(items, proto.Item{Scn: s, Class: v + "/cancel-grid/thirty-probes", Note: map[string]string{"cancel": fmt.Sprint(at)}})
				}
			}
			for at := step; at <= 360; at += step {
				s := proto.Scn{Variant: v, First: 1, Last: 4, Dest: 0, TimeoutMs: 300, DelayMs: 10, CancelAtMs: at, Hops: map[int]proto.HopSpec{1: {Silent: true}, 2: {Silent: true}, 3: {Silent: true}, 4: {Silent: true}}}
				items = append(items, proto.Item{Scn: s, Class: v + "/cancel-grid", Note: map[string]string{"cancel": fmt.Sprint(at)}})
				if at%60 == 0 {
					// the same, while copies of an accepted reply keep arriving
					s2 := s
					s2.Hops = map[int]proto.HopSpec{2: {Silent: true}, 3: {Silent: true}, 4: {Silent: true}}
					s2.MaxSteps = 400000
					s2.Inject = []proto.Inject{{OnTTL: 1, AnswerTTL: 1, Form: vi.TEForm, From: proto.Router(vi.V6, 0, 1).String(), DelayUs: 5000, Tag: "duplicate-flood", Genuine: true, Repeat: 600, EveryUs: 1000}}
					items = append(items, proto.Item{Scn: s2, Class: v + "/cancel-grid/genuine-duplicates-flood", Note: map[string]string{"cancel": fmt.Sprint(at), "extra": "600"}})
				}
			}
		}
	}
	return items
}

func check(it *proto.Item, r *proto.Result) []proto.Issue {
	o := r.Obs[0]
	sc := &it.Scn
	if c := it.Note["cancel"]; c != "" {
		var at int
		fmt.Sscan(c, &at)
		cancelNs := int64(at) * 1e6
		total := int64(sc.TimeoutMs+(sc.Last-sc.First+1)*sc.DelayMs) * 1e6
		if proto.Info(sc.Variant).Kind == "sack" {
			total += 0 // the handshake completes at once here
		}
		if cancelNs < total {
			if o.Err == nil || !errors.Is(o.Err, context.Canceled) {
				// the run may legitimately have finished before the cancellation instant
				if o.EndNs > cancelNs {
					return []proto.Issue{{Key: "cancellation-not-reported", Detail: fmt.Sprintf("cancelled at %dms, returned at %.3fms with err=%v", at, float64(o.EndNs)/1e6, o.Err)}}
				}
			}
			limit := cancelNs + int64(100+sc.DelayMs)*1e6 + 1e6
			if o.EndNs > limit {
				return []proto.Issue{{Key: "cancellation-not-prompt", Detail: fmt.Sprintf("cancelled at %dms, returned at %.3fms (poll 100ms + delay %dms allowed)", at, float64(o.EndNs)/1e6, sc.DelayMs)}}
			}
		}
		return nil
	}
	var extra int
	fmt.Sscan(it.Note["extra"], &extra)
	b := bound(sc, extra)
	if it.Note["handshake_only"] != "" {
		b = 500*time.Millisecond + 100*time.Millisecond + time.Millisecond
	}
	if it.Note["dial_only"] != "" {
		b = time.Duration(sc.TimeoutMs)*time.Millisecond + time.Millisecond
	}
	if time.Duration(o.EndNs) > b {
		return []proto.Issue{{Key: "bound-exceeded", Detail: fmt.Sprintf("returned after %s of virtual time, the bound computed from the parameters is %s (err=%v)", time.Duration(o.EndNs), b, o.Err)}}
	}
	return nil
}

var F = &proto.Family{ID: "C08", Gen: gen, NoSecondRun: true} // its bounds are absolute virtual times

// ---- (2) public IP against stalled / failing providers ------------------------------------------------------

var pKinds = []string{"200-valid", "4xx", "5xx", "transport-error", "hang-before-headers", "hang-after-headers", "hang-mid-body"}

type hangBody struct {
	ctx  context.Context
	head string
	sent bool
}

func waitCtx(ctx context.Context) {
	d := ctx.Done()
	if d == nil {
		vsched.Block(vsched.Never, -1, "http exchange stalled and the request carries no context")
		return
	}
	<-vsched.RecvCh(d)
}

func (b *hangBody) Read(p []byte) (int, error) {
	if !b.sent && b.head != "" {
		b.sent = true
		return copy(p, b.head), nil
	}
	waitCtx(b.ctx)
	return 0, b.ctx.Err()
}
func (b *hangBody) Close() error { return nil }

type prt struct {
	script []int
	then   []int // per provider: the kind of its second and later exchanges (-1 / absent: as the first)
	seen   map[int]int
	order  []string
	reqs   int
}

func (t *prt) RoundTrip(req *http.Request) (*http.Response, error) {
	vsched.Yield("http")
	t.reqs++
	idx := 0
	for i, u := range t.order {
		if req.URL.String() == u {
			idx = i
		}
	}
	mk := func(code int, body io.ReadCloser) *http.Response {
		return &http.Response{StatusCode: code, Status: fmt.Sprintf("%d status", code), Body: body, Header: http.Header{}, Request: req}
	}
	vtime.Sleep(20 * time.Millisecond)
	kind := t.script[idx]
	if t.seen == nil {
		t.seen = map[int]int{}
	}
	t.seen[idx]++
	if t.seen[idx] > 1 && idx < len(t.then) && t.then[idx] >= 0 {
		kind = t.then[idx]
	}
	switch pKinds[kind] {
	case "200-valid":
		return mk(200, io.NopCloser(strings.NewReader("192.0.2.44\n"))), nil
	case "4xx":
		return mk(404, io.NopCloser(strings.NewReader("nope"))), nil
	case "5xx":
		return mk(500, io.NopCloser(strings.NewReader("oops"))), nil
	case "transport-error":
		return nil, errors.New("connection refused")
	case "hang-before-headers":
		waitCtx(req.Context())
		return nil, req.Context().Err()
	case "hang-after-headers":
		return mk(200, &hangBody{ctx: req.Context()}), nil
	}
	return mk(200, &hangBody{ctx: req.Context(), head: "192.0."}), nil
}

type PScn struct {
	Script []int `json:"script"`
	// Then: per provider, the kind of its second and later exchanges (-1: as the first): a provider that first fails in a
	// way that is retried and then stalls
	Then []int `json:"then,omitempty"`
}

// twoStep: provider 1 (or 2, after a provider that refuses) first fails retriably - transport error, 5xx - and every later
// exchange with it hangs before the headers / after them / in the middle of the body; the remaining providers answer.
func twoStep() []PScn {
	var out []PScn
	for pos := 0; pos < 2; pos++ {
		for _, first := range []int{3, 2} {
			for _, later := range []int{4, 5, 6} {
				sc := PScn{Script: []int{0, 0, 0, 0, 0}, Then: []int{-1, -1, -1, -1, -1}}
				if pos == 1 {
					sc.Script[0] = 1
				}
				sc.Script[pos], sc.Then[pos] = first, later
				out = append(out, sc)
			}
		}
	}
	return out
}

func runP(sc *PScn) (*vsched.Exec, time.Duration, error) {
	t := &prt{script: sc.Script, then: sc.Then, order: publicip.VerifCheckers()}
	var took time.Duration
	var err error
	x := vsched.Run(vsched.Config{MaxVirtual: 10 * time.Minute}, nil, func() {
		bp := backoff.NewExponentialBackOff()
		bp.InitialInterval = 500 * time.Millisecond
		bp.MaxInterval = 3 * time.Second
		_, err = publicip.GetPublicIP(context.Background(), &http.Client{Transport: t}, bp)
		took = time.Duration(vsched.Now())
	})
	return x, took, err
}

func checkP(sc *PScn, x *vsched.Exec, took time.Duration) (string, string) {
	var names []string
	for _, k := range sc.Script {
		names = append(names, pKinds[k])
	}
	switch x.Outcome {
	case vsched.Deadlock:
		return "never-returns", fmt.Sprintf("providers %v: %v", names, x.Blocked)
	case vsched.Horizon:
		return "never-returns", fmt.Sprintf("providers %v: still running after %s", names, x.Virtual)
	case vsched.Crash:
		return "crash", x.Crash.Value
	}
	limit := 5 * (2*time.Second + 100*time.Millisecond)
	if took > limit {
		return "bound-exceeded", fmt.Sprintf("providers %v: returned after %s, bound %s", names, took, limit)
	}
	return "", ""
}

// ---- (3) reverse DNS against a resolver that only returns when its context ends; (4) whole requests -----------

type RScn struct {
	What string `json:"what"` // rdns-one | request-stalled-rdns | request-stalled-publicip | request-both
}

func runR(sc *RScn) (*vsched.Exec, time.Duration, string) {
	cache.Cache.Flush()
	old := reversedns.LookupAddrFn
	reversedns.LookupAddrFn = func(ctx context.Context, a string) ([]string, error) {
		vsched.Yield("rdns")
		waitCtx(ctx)
		return nil, ctx.Err()
	}
	defer func() { reversedns.LookupAddrFn = old }()
	var took time.Duration
	info := ""
	switch sc.What {
	case "rdns-one":
		x := vsched.Run(vsched.Config{MaxVirtual: 10 * time.Minute}, nil, func() {
			_, err := reversedns.GetReverseDns("198.51.100.7")
			info = fmt.Sprint(err)
			took = time.Duration(vsched.Now())
		})
		return x, took, info
	case "rdns-many":
		x := vsched.Run(vsched.Config{MaxVirtual: 10 * time.Minute}, nil, func() {
			ips := []net.IP{{198, 51, 100, 7}, {198, 51, 100, 8}, net.ParseIP("2001:db8::1"), nil}
			_, err := reversedns.GetReverseDnsForIPs(ips)
			info = fmt.Sprint(err)
			took = time.Duration(vsched.Now())
		})
		return x, took, info
	case "rdns-long-path":
		// the addresses of a three-run request over a 10-hop path (duplicates across runs, unanswered hops in between): the
		// lookups share ONE lookup timeout, the enrichment does not take one timeout per batch of addresses
		x := vsched.Run(vsched.Config{MaxVirtual: 10 * time.Minute}, nil, func() {
			var ips []net.IP
			for run := 0; run < 3; run++ {
				for hop := 1; hop <= 10; hop++ {
					switch {
					case hop%4 == 0:
						ips = append(ips, nil)
					case hop%3 == 0:
						ips = append(ips, net.IP{198, 51, byte(100 + run), byte(hop)}) // this hop differs per run (load balancing)
					default:
						ips = append(ips, net.IP{198, 51, 100, byte(hop)})
					}
				}
				ips = append(ips, net.IP{203, 0, 113, 77})
			}
			_, err := reversedns.GetReverseDnsForIPs(ips)
			info = fmt.Sprint(err)
			took = time.Duration(vsched.Now())
		})
		return x, took, info
	}
	return nil, 0, ""
}

func genRT(tier string) []proto.RTItem {
	var items []proto.RTItem
	for _, pr := range []struct{ p, m, h string }{{"udp", "", "203.0.113.77"}, {"icmp", "", "203.0.113.77"}, {"tcp", "syn", "203.0.113.77"}, {"tcp", "sack", "198.18.0.9"}} {
		for _, what := range []string{"stalled-rdns", "stalled-publicip", "stalled-both"} {
			r := proto.RTScn{Hostname: pr.h, Protocol: pr.p, Method: pr.m, MinTTL: 1, MaxTTL: 4, DelayMs: 10, TimeoutMs: 300, Queries: 2, E2e: 1, Dest: 3, IPIDBase: 800, EchoBase: 80, UseListenerPort: pr.m == "sack"}
			r.ReverseDNS = what != "stalled-publicip"
			if what != "stalled-rdns" {
				r.PublicIP = "hang"
			}
			r.RDNS = map[string]string{"*": "!hang"}
			items = append(items, proto.RTItem{Scn: r, Class: fmt.Sprintf("request/%s-%s/%s", pr.p, pr.m, what)})
		}
	}
	// a destination that never answers and six end-to-end probes: the probes are launched one pacing delay apart
	// (MaxTTL*Timeout/6 = 200 ms) and run side by side, so the request takes five delays plus ONE probe's listening time
	// (timeout + one send delay + one poll interval; serial: timeout + poll), not six listening times
	for _, pr := range []struct{ p, m, h string }{{"udp", "", "203.0.113.77"}, {"icmp", "", "203.0.113.77"}, {"tcp", "syn", "203.0.113.77"}} {
		r := proto.RTScn{Hostname: pr.h, Protocol: pr.p, Method: pr.m, MinTTL: 1, MaxTTL: 4, DelayMs: 10, TimeoutMs: 300, Queries: 1, E2e: 6, Dest: 0, IPIDBase: 800, EchoBase: 80}
		r.Hops = map[int]proto.HopSpec{1: {Silent: true}, 2: {Silent: true}, 3: {Silent: true}, 4: {Silent: true}}
		one := 300 + 10 + 100 + 100
		items = append(items, proto.RTItem{Scn: r, Class: fmt.Sprintf("request/%s-%s/silent-destination-six-probes", pr.p, pr.m), Note: map[string]string{"limit_ms": fmt.Sprint(5*200 + one)}})
	}
	// one send of the request fails (the position is enumerated: a run's probe, an end-to-end probe's): the request still
	// returns - with the error - within the bound of a request none of whose runs is answered
	for _, pr := range []struct{ p, m, h string }{{"udp", "", "203.0.113.77"}, {"icmp", "", "203.0.113.77"}, {"tcp", "syn", "203.0.113.77"}} {
		r := proto.RTScn{Hostname: pr.h, Protocol: pr.p, Method: pr.m, MinTTL: 1, MaxTTL: 4, DelayMs: 10, TimeoutMs: 300, Queries: 1, E2e: 3, Dest: 3, IPIDBase: 800, EchoBase: 80,
			Faults: []simnet.Fault{{Op: "WriteTo", K: -1, Class: "fatal"}}}
		items = append(items, proto.RTItem{Scn: r, Class: fmt.Sprintf("request/%s-%s/one-send-fails", pr.p, pr.m), Note: map[string]string{"limit_ms": fmt.Sprint(3*200 + 4*(300+100) + 600), "error_ok": "1"}})
	}
	// the target's port swallows the SACK variant's connect (the SYN is dropped, nothing comes back): the connect gives up
	// after the handshake timeout (the request's timeout); `sack` then fails, `prefer_sack` runs its SYN trace over the
	// equally silent destination
	for _, m := range []string{"sack", "prefer_sack"} {
		r := proto.RTScn{Hostname: "198.18.0.9", Protocol: "tcp", Method: m, MinTTL: 1, MaxTTL: 4, DelayMs: 10, TimeoutMs: 300, Queries: 1, E2e: 0, Dest: 3, IPIDBase: 800, EchoBase: 80, UseListenerPort: true, Capability: "syn-dropped"}
		limit := 300 + 100
		if m == "prefer_sack" {
			limit += 4*(300+100) + 100
		}
		items = append(items, proto.RTItem{Scn: r, Class: fmt.Sprintf("request/tcp-%s/connect-never-answered", m), Note: map[string]string{"limit_ms": fmt.Sprint(limit), "error_ok": "1"}})
	}
	return items
}

func checkRT(it *proto.RTItem, r *proto.RTResult) []proto.Issue {
	if l := it.Note["limit_ms"]; l != "" {
		var ms int
		fmt.Sscan(l, &ms)
		if time.Duration(r.ElapsedNs) > time.Duration(ms)*time.Millisecond {
			return []proto.Issue{{Key: "bound-exceeded", Detail: fmt.Sprintf("request returned after %s, bound %dms", time.Duration(r.ElapsedNs), ms)}}
		}
		if r.Err != nil && it.Note["error_ok"] == "" {
			return []proto.Issue{{Key: "silence-failed-the-request", Detail: r.Err.Error()}}
		}
		return nil
	}
	// the runs themselves are bounded by timeout + n*delay + poll (serial: per TTL); enrichment by 5s; public IP by 5*(2s+op)
	limit := 4*(300+100)*time.Millisecond + 600*time.Millisecond
	if it.Scn.ReverseDNS {
		limit += 5*time.Second + 100*time.Millisecond
	}
	if it.Scn.PublicIP != "" {
		pl := 5 * (2*time.Second + 100*time.Millisecond)
		if pl > 4*(300+100)*time.Millisecond+600*time.Millisecond {
			limit = pl
			if it.Scn.ReverseDNS {
				limit += 5*time.Second + 100*time.Millisecond
			}
		}
	}
	if time.Duration(r.ElapsedNs) > limit {
		return []proto.Issue{{Key: "bound-exceeded", Detail: fmt.Sprintf("request returned after %s, bound %s", time.Duration(r.ElapsedNs), limit)}}
	}
	if r.Err != nil {
		return []proto.Issue{{Key: "stalled-service-failed-the-request", Detail: r.Err.Error()}}
	}
	return nil
}

var FR = &proto.RTFamily{ID: "C08", Gen: genRT}

// ---- (5) cancellation of the engines at every instant of a grid -------------------------------------------------

type CScn struct {
	Engine string `json:"engine"`
	AtMs   int    `json:"at_ms"`
	N      int    `json:"n"`
}

type silent struct{ par bool }

func (d silent) GetDriverInfo() common.TracerouteDriverInfo {
	return common.TracerouteDriverInfo{SupportsParallel: d.par}
}
func (d silent) SendProbe(ttl uint8) error { vsched.Yield("send"); return nil }
func (d silent) ReceiveProbe(to time.Duration) (*common.ProbeResponse, error) {
	vtime.Sleep(to)
	return nil, common.ErrPacketDidNotMatchTraceroute
}

const (
	cTimeout = 200 * time.Millisecond
	cPoll    = 50 * time.Millisecond
	cDelay   = 20 * time.Millisecond
)

func runC(sc *CScn, prefix []int, sig []uint32) (*vsched.Exec, time.Duration, error) {
	var took time.Duration
	var err error
	x := vsched.Run(vsched.Config{Prefix: prefix, PrefixSig: sig, MaxVirtual: time.Minute}, nil, func() {
		ctx, cancel := vctx.WithCancelAt(context.Background(), int64(sc.AtMs)*1e6)
		defer cancel()
		tp := common.TracerouteParams{MinTTL: 1, MaxTTL: uint8(sc.N), TracerouteTimeout: cTimeout, PollFrequency: cPoll, SendDelay: cDelay}
		if sc.Engine == "parallel" {
			_, err = common.TracerouteParallel(ctx, silent{true}, common.TracerouteParallelParams{TracerouteParams: tp})
		} else {
			_, err = common.TracerouteSerial(ctx, silent{false}, common.TracerouteSerialParams{TracerouteParams: tp})
		}
		took = time.Duration(vsched.Now())
	})
	return x, took, err
}

func checkC(sc *CScn, x *vsched.Exec, took time.Duration, err error) (string, string) {
	if x.Outcome != vsched.Normal {
		return "abnormal-" + x.Outcome.String(), fmt.Sprint(x.Blocked)
	}
	at := time.Duration(sc.AtMs) * time.Millisecond
	natural := cTimeout + time.Duration(sc.N)*cDelay
	if sc.Engine == "serial" {
		natural = time.Duration(sc.N) * cTimeout
	}
	if at >= natural {
		return "", ""
	}
	if took > at+cPoll+cDelay+time.Millisecond {
		return "cancellation-not-prompt", fmt.Sprintf("cancelled at %s, returned at %s (allowed: one poll %s + one send delay %s)", at, took, cPoll, cDelay)
	}
	if took >= at && !errors.Is(err, context.Canceled) {
		return "cancellation-not-reported", fmt.Sprintf("cancelled at %s, returned at %s with err=%v", at, took, err)
	}
	return "", ""
}

func cItems(tier string) []CScn {
	var out []CScn
	step := 5
	for _, e := range []string{"parallel", "serial"} {
		for at := 0; at <= 700; at += step {
			out = append(out, CScn{e, at, 3})
		}
	}
	return out
}

func pCount(tier string) int {
	if tier == "thorough" {
		return 7 * 7 * 7 * 7 * 7
	}
	return 7 * 7 * 7 * 7 // quick: the first four providers vary, the fifth is a valid answer
}

const pChunk = 343

var rItems = []RScn{{"rdns-one"}, {"rdns-many"}, {"rdns-long-path"}}

func init() {
	F.Check = check
	FR.Check = checkRT
	count := func(tier string) int {
		return F.Count(tier) + pCount(tier)/pChunk + 1 + len(rItems) + FR.Count(tier) + len(cItems(tier))
	}
	run := func(tier string, idx int, r *core.ScnResult) {
		if idx < F.Count(tier) {
			F.Run(tier, idx, r)
			return
		}
		idx -= F.Count(tier)
		if np := pCount(tier) / pChunk; idx < np {
			r.Nontrivial = true
			for i := idx * pChunk; i < (idx+1)*pChunk; i++ {
				sc := &PScn{}
				k := i
				for p := 0; p < 5; p++ {
					if tier != "thorough" && p == 4 {
						sc.Script = append(sc.Script, 0)
						continue
					}
					sc.Script = append(sc.Script, k%7)
					k /= 7
				}
				x, took, _ := runP(sc)
				r.Evals++
				r.Stats.Executions++
				r.Stats.Steps += int64(x.Steps)
				key, d := checkP(sc, x, took)
				if key != "" {
					hang := "mixed"
					for _, s := range sc.Script {
						if strings.HasPrefix(pKinds[s], "hang") {
							hang = pKinds[s]
							break
						}
					}
					r.Fail(core.Failure{Key: "C08 public-ip/" + hang + "/" + key, What: d, Scenario: core.JSON(map[string]any{"providers": sc})})
				}
				r.Outcome(fmt.Sprintf("public-ip/%s/%ds", x.Outcome, int(took.Seconds())))
			}
			return
		} else {
			idx -= np
		}
		if idx == 0 {
			r.Nontrivial = true
			for _, sc := range twoStep() {
				sc := sc
				x, took, _ := runP(&sc)
				r.Evals++
				r.Stats.Executions++
				r.Stats.Steps += int64(x.Steps)
				if key, d := checkP(&sc, x, took); key != "" {
					name := ""
					for p, k := range sc.Then {
						if k >= 0 {
							name = fmt.Sprintf("provider-%d-%s-then-%s", p+1, pKinds[sc.Script[p]], pKinds[k])
						}
					}
					r.Fail(core.Failure{Key: "C08 public-ip/" + name + "/" + key, What: d, Scenario: core.JSON(map[string]any{"providers": sc})})
				}
				r.Outcome(fmt.Sprintf("public-ip/two-step/%s/%ds", x.Outcome, int(took.Seconds())))
			}
			return
		}
		idx--
		if idx < len(rItems) {
			sc := &rItems[idx]
			x, took, info := runR(sc)
			r.Nontrivial = true
			r.Evals++
			r.Outcome(fmt.Sprintf("%s/%s", sc.What, took))
			if x.Outcome != vsched.Normal {
				r.Fail(core.Failure{Key: "C08 reverse-dns/" + sc.What + "/never-returns", What: fmt.Sprint(x.Outcome, x.Blocked), Scenario: core.JSON(map[string]any{"rdns": sc})})
			} else if took > 5*time.Second+100*time.Millisecond {
				r.Fail(core.Failure{Key: "C08 reverse-dns/" + sc.What + "/bound-exceeded", What: fmt.Sprintf("returned after %s (%s)", took, info), Scenario: core.JSON(map[string]any{"rdns": sc})})
			}
			return
		}
		idx -= len(rItems)
		if idx < FR.Count(tier) {
			FR.Run(tier, idx, r)
			return
		}
		idx -= FR.Count(tier)
		sc := &cItems(tier)[idx]
		r.Nontrivial = true
		var took time.Duration
		var err error
		e := &vsched.Explorer{Bound: 1}
		e.RunOne = func(prefix []int, sig []uint32) *vsched.Exec {
			var x *vsched.Exec
			x, took, err = runC(sc, prefix, sig)
			return x
		}
		e.Check = func(x *vsched.Exec, cost int) bool {
			if x.Outcome == vsched.Diverged {
				r.Infra = "replay diverged"
				return false
			}
			k, d := checkC(sc, x, took, err)
			if k != "" {
				r.Fail(core.Failure{Key: "C08 engine-" + sc.Engine + "/" + k, What: d, Scenario: core.JSON(map[string]any{"cancel": sc}), Choices: x.Choices(), Bound: cost})
				return false
			}
			r.Outcome(fmt.Sprintf("%s/%v/%dms", sc.Engine, err != nil, took.Milliseconds()/50*50))
			return true
		}
		e.Explore()
		r.Stats.Add(e.Stats)
	}
	replay := func(scn json.RawMessage, choices []int) (string, bool) {
		var w struct {
			P  *PScn           `json:"providers"`
			R  *RScn           `json:"rdns"`
			C  *CScn           `json:"cancel"`
			RT json.RawMessage `json:"rt"`
		}
		json.Unmarshal(scn, &w)
		switch {
		case w.P != nil:
			x, took, err := runP(w.P)
			k, d := checkP(w.P, x, took)
			if k != "" {
				return fmt.Sprintf("providers %s took %s err=%v\nORACLE FAILED: %s: %s\n", scn, took, err, k, d), false
			}
			return "oracle: ok\n", true
		case w.R != nil:
			x, took, info := runR(w.R)
			if x.Outcome != vsched.Normal || took > 5*time.Second+100*time.Millisecond {
				return fmt.Sprintf("ORACLE FAILED: %s %s %s\n", x.Outcome, took, info), false
			}
			return "oracle: ok\n", true
		case w.C != nil:
			x, took, err := runC(w.C, choices, nil)
			k, d := checkC(w.C, x, took, err)
			if k != "" {
				return fmt.Sprintf("cancel %s\nORACLE FAILED: %s: %s\n", scn, k, d), false
			}
			return "oracle: ok\n", true
		case w.RT != nil:
			return FR.Replay(scn, choices)
		}
		return F.Replay(scn, choices)
	}
	core.Register(&core.Property{ID: "C08", Level: "model_checking",
		Rule: "(1) every variant x TTL range x {silence, an irrelevant packet every millisecond for the whole run, only malformed packets, a burst of 2000 packets at the deadline} (SACK: SYN-ACKs of other connections every 100/400/499 ms for 60 s while the own handshake is never captured), elapsed virtual time against the bound computed from the parameters; the caller's context cancelled on a grid of instants (ICMP, SACK); " +
			"(2) GetPublicIP against all 7^4 (thorough 7^5) provider scripts over {200 valid, 4xx, 5xx, transport error, hang before headers, hang after headers, hang mid-body}; (3) reverse DNS against a resolver that only returns when its context ends; (4) whole requests (2 runs + 1 probe) with stalled resolver and/or public-IP providers; " +
			"(5) TracerouteParallel/Serial cancelled at every instant of a 5 ms grid over the run, every schedule with <= 1 preemption; oracle: returns within the bound (a deadlock or an exceeded horizon is 'never returns'), a cancelled engine returns the cancellation error within one poll interval plus one send delay; distinct = (outcome, elapsed) classes",
		Count: count, Run: run, Replay: replay, Exhaustive: true, NeedsNetns: true,
		Assumptions: []string{"clock-advance deviations are off: the bounds are stated on the virtual clock", "the real resolver and HTTP transport honouring their contexts is trusted standard-library behaviour; what is decided is that the repository hands them a context that ends"}})
}
