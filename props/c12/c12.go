// Package c12: capture filters are exact on what they inspect and never hide a matchable reply.
package c12

import (
	"encoding/binary"
	"encoding/json"
	"fmt"
	"net/netip"

	"golang.org/x/net/bpf"

	"github.com/DataDog/datadog-traceroute/packets"

	"verif/props/c02"
	"verif/props/core"
	"verif/props/proto"
	"verif/simnet"
)

var ethertypes = []uint16{0x0800, 0x86dd, 0x0806, 0x8100, 0x0008}
var protos = []byte{1, 6, 17, 58, 44, 0, 2, 7}

// flag bits alone, every single bit of the 13-bit fragment offset, all offset bits, offset with a flag
var fragWords = []uint16{0, 0x2000, 0x4000, 0x8000, 0x0001, 0x0002, 0x0004, 0x0008, 0x0010, 0x0020, 0x0040, 0x0080, 0x0100, 0x0200, 0x0400, 0x0800, 0x1000, 0x1fff, 0x2001, 0x3e00}
var cfgAddrs = []string{"1.2.3.4", "0.0.0.1", "127.255.255.255", "128.0.0.1", "255.255.255.255"}
var cfgPorts = []uint16{1, 255, 256, 0x1234, 0x8000, 65535}

type prog struct {
	name string
	spec packets.PacketFilterSpec
	cfg  int // tuple configuration index (-1 for the static programs)
}

// tupleCfg: configuration i; i >= numCfgs() selects the same tuple with the source (mode 1), the destination (2) or both (3)
// given in their IPv4-mapped IPv6 representation (::ffff:a.b.c.d), as net.TCPAddr.AddrPort() hands them out.
func tupleCfg(i int) (netip.AddrPort, netip.AddrPort) {
	mode := i / numCfgs()
	i %= numCfgs()
	s, d := tupleCfgPlain(i)
	mapped := func(a netip.AddrPort) netip.AddrPort {
		return netip.AddrPortFrom(netip.AddrFrom16(a.Addr().As16()), a.Port())
	}
	if mode&1 != 0 {
		s = mapped(s)
	}
	if mode&2 != 0 {
		d = mapped(d)
	}
	return s, d
}

func tupleCfgPlain(i int) (netip.AddrPort, netip.AddrPort) {
	na, np := len(cfgAddrs), len(cfgPorts)
	sa := cfgAddrs[i%na]
	i /= na
	da := cfgAddrs[i%na]
	i /= na
	sp := cfgPorts[i%np]
	i /= np
	dp := cfgPorts[i%np]
	return netip.AddrPortFrom(netip.MustParseAddr(sa), sp), netip.AddrPortFrom(netip.MustParseAddr(da), dp)
}

func numCfgs() int { return len(cfgAddrs) * len(cfgAddrs) * len(cfgPorts) * len(cfgPorts) }

func quickCfgs() []int {
	// four configurations touching sign/endianness boundaries
	na, np := len(cfgAddrs), len(cfgPorts)
	idx := func(sa, da, sp, dp int) int { return sa + na*(da+na*(sp+np*dp)) }
	return []int{idx(0, 3, 3, 1), idx(4, 1, 5, 0), idx(2, 0, 2, 4), idx(3, 4, 1, 2)}
}

func vmOf(spec packets.PacketFilterSpec, dropAll bool) (*bpf.VM, error) {
	var raw []bpf.RawInstruction
	var err error
	if dropAll {
		raw = packets.VerifDropAll()
	} else {
		raw, err = packets.VerifClassicBPF(spec)
		if err != nil {
			return nil, err
		}
	}
	ins := make([]bpf.Instruction, len(raw))
	for i, r := range raw {
		ins[i] = r.Disassemble()
	}
	return bpf.NewVM(ins)
}

// ---- reference predicates, written directly on the byte layout (out-of-frame load => reject) -----------

func refICMP(f []byte, udp bool) bool {
	if len(f) < 14 {
		return false
	}
	switch binary.BigEndian.Uint16(f[12:]) {
	case 0x0800:
		if len(f) < 24 {
			return false
		}
		return f[23] == 1 || (udp && f[23] == 17)
	case 0x86dd:
		if len(f) < 21 {
			return false
		}
		n := f[20]
		if n == 58 {
			return true
		}
		if n == 44 {
			if len(f) < 55 {
				return false
			}
			return f[54] == 58 || (udp && f[54] == 17)
		}
		return udp && n == 17
	}
	return false
}

func refSynAck(f []byte) bool {
	if len(f) < 24 || binary.BigEndian.Uint16(f[12:]) != 0x0800 || f[23] != 6 {
		return false
	}
	if binary.BigEndian.Uint16(f[20:])&0x1fff != 0 {
		return false
	}
	x := int(f[14]&0xf) * 4
	if len(f) < x+28 {
		return false
	}
	fl := f[x+27]
	return fl&0x02 != 0 && fl&0x10 != 0
}

func refTuple(f []byte, src, dst netip.AddrPort) bool {
	if len(f) < 24 || binary.BigEndian.Uint16(f[12:]) != 0x0800 {
		return false
	}
	if f[23] == 1 {
		return true
	}
	if f[23] != 6 || len(f) < 34 {
		return false
	}
	s, d := src.Addr().As4(), dst.Addr().As4()
	if [4]byte(f[26:30]) != s || [4]byte(f[30:34]) != d {
		return false
	}
	if binary.BigEndian.Uint16(f[20:])&0x1fff != 0 {
		return false
	}
	x := int(f[14]&0xf) * 4
	if len(f) < x+18 {
		return false
	}
	return binary.BigEndian.Uint16(f[x+14:]) == src.Port() && binary.BigEndian.Uint16(f[x+16:]) == dst.Port()
}

// ---- frame enumeration ------------------------------------------------------------------------------------

func lengthsFor(x int, full int) []int {
	set := map[int]bool{}
	for _, l := range []int{0, 1, 12, 13, 14, 15, 20, 21, 22, 23, 24, 25, 26, 29, 30, 31, 33, 34, 35, 54, 55, 56, full} {
		set[l] = true
	}
	for k := -1; k <= 5; k++ {
		set[x+14+k] = true
		set[x+14+13+k] = true
	}
	var out []int
	for l := range set {
		if l >= 0 && l <= full {
			out = append(out, l)
		}
	}
	return out
}

const frameLen = 14 + 60 + 40

type blockResult struct {
	evals    int64
	accepted int64
	fail     string
}

// sweep runs the product for one program over one (ethertype, protocol) slice.
func sweep(p prog, ei, pi int, fullLengths bool) blockResult {
	var br blockResult
	dropAll := p.name == "drop-all"
	var src, dst netip.AddrPort
	spec := p.spec
	if p.cfg >= 0 {
		src, dst = tupleCfg(p.cfg)
		spec.FilterConfig = packets.FilterConfig{Src: src, Dst: dst}
	}
	vm, err := vmOf(spec, dropAll)
	if err != nil {
		if p.cfg >= numCfgs() {
			return br // a configuration in mapped representation may be refused (nothing is then installed); if a program IS produced it must be exact
		}
		br.fail = "program does not assemble / load: " + err.Error()
		return br
	}
	src, dst = netip.AddrPortFrom(src.Addr().Unmap(), src.Port()), netip.AddrPortFrom(dst.Addr().Unmap(), dst.Port())
	ref := func(f []byte) bool {
		switch p.name {
		case "drop-all":
			return false
		case "icmp":
			return refICMP(f, false)
		case "udp":
			return refICMP(f, true)
		case "synack":
			return refSynAck(f)
		}
		return refTuple(f, src, dst)
	}
	et, pr := ethertypes[ei], protos[pi]
	f := make([]byte, frameLen)
	addrClasses, portClasses := 1, 1
	flagVals := []int{0x12}
	if p.cfg >= 0 {
		addrClasses, portClasses = 5, 5 // (port class 4: the OTHER end's port - a cross-field coincidence)
		// the tuple filter is exact on the tuple whatever the TCP flags: SYN-ACK, bare RST, RST-ACK, ACK, SYN, none, RST|PSH, all
		// (for the quick tier's configurations; the other configurations of the thorough tier take SYN-ACK and the bare RST)
		flagVals = []int{0x12, 0x04}
		for _, q := range quickCfgs() {
			if p.cfg%numCfgs() == q {
				flagVals = []int{0x12, 0x04, 0x14, 0x10, 0x02, 0x00, 0x0c, 0xff}
			}
		}
	}
	if p.name == "synack" {
		flagVals = flagVals[:0]
		for v := 0; v < 256; v++ {
			flagVals = append(flagVals, v)
		}
	}
	v6next := []byte{0}
	if et == 0x86dd {
		v6next = []byte{58, 44, 17, 6, 0}
	}
	for ihl := 0; ihl < 16; ihl++ {
		x := ihl * 4
		lens := lengthsFor(x, frameLen)
		if fullLengths {
			lens = lens[:0]
			for l := 0; l <= frameLen; l++ {
				lens = append(lens, l)
			}
		}
		for _, fw := range fragWords {
			for sa := 0; sa < addrClasses; sa++ {
				for da := 0; da < addrClasses; da++ {
					for sp := 0; sp < portClasses; sp++ {
						for dp := 0; dp < portClasses; dp++ {
							for _, n20 := range v6next {
								for i := range f {
									f[i] = 0
								}
								binary.BigEndian.PutUint16(f[12:], et)
								f[14] = 0x40 | byte(ihl)
								binary.BigEndian.PutUint16(f[20:], fw)
								f[23] = pr
								if et == 0x86dd {
									f[14] = 0x60
									f[20] = n20
									f[54] = pr // the header after a fragment header
								}
								if p.cfg >= 0 {
									s, d := src.Addr().As4(), dst.Addr().As4()
									copy(f[26:], s[:])
									copy(f[30:], d[:])
									if sa > 0 {
										f[26+sa-1] ^= 0x81
									}
									if da > 0 {
										f[30+da-1] ^= 0x81
									}
									ps, pd := src.Port(), dst.Port()
									switch sp {
									case 1:
										ps ^= 0x0100
									case 2:
										ps ^= 0x0001
									case 3:
										ps = ps<<8 | ps>>8
										if ps == src.Port() {
											ps ^= 0x8000
										}
									case 4:
										ps = dst.Port()
										if ps == src.Port() {
											ps ^= 0x0004
										}
									}
									switch dp {
									case 1:
										pd ^= 0x0100
									case 2:
										pd ^= 0x0001
									case 3:
										pd = pd<<8 | pd>>8
										if pd == dst.Port() {
											pd ^= 0x8000
										}
									case 4:
										pd = src.Port()
										if pd == dst.Port() {
											pd ^= 0x0004
										}
									}
									if x+18 <= frameLen {
										binary.BigEndian.PutUint16(f[x+14:], ps)
										binary.BigEndian.PutUint16(f[x+16:], pd)
									}
								}
								for _, fl := range flagVals {
									if x+27 < frameLen && p.cfg < 0 {
										f[x+27] = byte(fl)
									}
									for _, l := range lens {
										fr := f[:l]
										n, err := vm.Run(fr)
										got := err == nil && n > 0
										want := ref(fr)
										br.evals++
										if got {
											br.accepted++
										}
										if got != want && br.fail == "" {
											br.fail = fmt.Sprintf("ethertype %04x proto %d ihl %d frag %04x addr-classes %d/%d port-classes %d/%d flags %02x v6next %d frame-length %d: program %v, reference %v", et, pr, ihl, fw, sa, da, sp, dp, fl, n20, l, got, want)
										}
									}
								}
							}
						}
					}
				}
			}
		}
	}
	return br
}

func progs(tier string) []prog {
	ps := []prog{{"drop-all", packets.PacketFilterSpec{}, -1}, {"icmp", packets.PacketFilterSpec{FilterType: packets.FilterTypeICMP}, -1},
		{"udp", packets.PacketFilterSpec{FilterType: packets.FilterTypeUDP}, -1}, {"synack", packets.PacketFilterSpec{FilterType: packets.FilterTypeSYNACK}, -1}}
	cfgs := quickCfgs()
	if tier == "thorough" {
		cfgs = cfgs[:0]
		for i := 0; i < numCfgs(); i++ {
			cfgs = append(cfgs, i)
		}
	}
	for _, c := range cfgs {
		ps = append(ps, prog{"tcp-tuple", packets.PacketFilterSpec{FilterType: packets.FilterTypeTCP}, c})
	}
	// the address REPRESENTATION of the configuration: the first tuple with source / destination / both IPv4-mapped
	for mode := 1; mode <= 3; mode++ {
		ps = append(ps, prog{"tcp-tuple-mapped", packets.PacketFilterSpec{FilterType: packets.FilterTypeTCP}, quickCfgs()[0] + mode*numCfgs()})
	}
	return ps
}

// ---- filters on vs off over the C02 scenarios ----------------------------------------------------------------

var onOff = &proto.Family{ID: "C12", Gen: func(tier string) []proto.Item {
	items := c02.F.Gen("quick")
	var out []proto.Item
	for i, it := range items {
		if tier != "thorough" && i%3 != 0 {
			continue
		}
		it.Class = "filters-on-vs-off/" + it.Class
		out = append(out, it)
	}
	// direct TCP replies from the target address whose ports are not the flow's (another port of the target, a sibling
	// connection's local port): the tuple filter drops them, so the matcher must not use them either
	for _, v := range proto.Variants {
		vi := proto.Info(v)
		var forms []string
		switch vi.Kind {
		case "tcp", "tcpparis":
			forms = []string{"synack", "rst", "rstack"}
		case "sack":
			forms = []string{"sack1"}
		}
		for _, form := range forms {
			for _, f := range []string{"tcp.sport", "tcp.dport"} {
				for _, op := range []string{"+1", "+256"} {
					s := proto.Scn{Variant: v, First: 1, Last: 4, Dest: 3, IPIDBase: 1200, EchoBase: 121, TimeoutMs: 300, DelayMs: 10}
					s.Hops = map[int]proto.HopSpec{3: {Form: form, AtTarget: true, Perturb: &simnet.Perturb{Field: f, Op: op}, Tag: "wrong-port"}, 4: {Silent: true}}
					out = append(out, proto.Item{Scn: s, Class: fmt.Sprintf("filters-on-vs-off/%s/%s/wrong-%s", v, form, f)})
				}
			}
		}
	}
	// SACK handshake: segments of the run's own connection carrying every flag byte other than SYN|ACK (a challenge ACK,
	// a bare SYN of a simultaneous open, RST, FIN-ACK, ...) precede the genuine SYN-ACK; the SYN-ACK filter drops them,
	// so the matcher must ignore them as well
	for _, v := range proto.Variants {
		if proto.Info(v).Kind != "sack" {
			continue
		}
		args := []int{-1}
		if tier == "thorough" {
			for a := 0; a < 255; a++ {
				args = append(args, a)
			}
		} else {
			args = append(args, 0x10, 0x02, 0x04, 0x11) // ACK, SYN, RST, FIN|ACK alone (indices below 0x12 are the flag bytes themselves)
		}
		for _, a := range args {
			s := proto.Scn{Variant: v, First: 1, Last: 4, Dest: 3, IPIDBase: 1200, EchoBase: 121, TimeoutMs: 300, DelayMs: 10}
			s.SynAck = &simnet.SynAckSpec{Enabled: true, ISN: 0x4000, AckNum: 0x9000, SackPermitted: true, NoiseKind: "tcp-flags", NoiseArg: a}
			out = append(out, proto.Item{Scn: s, Class: fmt.Sprintf("filters-on-vs-off/%s/handshake/own-flow-segment-with-other-flags", v)})
		}
	}
	return out
}}

func init() {
	onOff.Check = func(it *proto.Item, r *proto.Result) []proto.Issue {
		off := *it
		off.Scn.FiltersOff = true
		ro := onOff.RunPlain(&off)
		a, b := proto.HopsKey(proto.Hops(r.Obs[0].Run)), proto.HopsKey(proto.Hops(ro.Obs[0].Run))
		if (r.Obs[0].Err != nil) != (ro.Obs[0].Err != nil) || a != b {
			return []proto.Issue{{Key: "filter-changes-result", Detail: fmt.Sprintf("with the filters: err=%v %s ; without: err=%v %s", r.Obs[0].Err, a, ro.Obs[0].Err, b)}}
		}
		return nil
	}
	nSlices := len(ethertypes) * len(protos)
	count := func(tier string) int { return len(progs(tier))*nSlices + onOff.Count(tier) + len(attachScns(tier)) + 1 }
	run := func(tier string, idx int, r *core.ScnResult) {
		ps := progs(tier)
		if k := idx - len(ps)*nSlices - onOff.Count(tier); k >= len(attachScns(tier)) {
			r.Nontrivial = true
			for _, sc := range swapScns() {
				sc := sc
				r.Evals++
				if key, d := runSwap(&sc); key != "" {
					r.Fail(core.Failure{Key: "C12 source/filter-replaced-on-a-live-handle/" + key, What: d, Scenario: core.JSON(map[string]any{"swap": sc})})
				}
			}
			r.Outcome("filter-swaps")
			return
		} else if k >= 0 {
			runAttachScn(&attachScns(tier)[k], r)
			return
		}
		if idx >= len(ps)*nSlices {
			onOff.Run(tier, idx-len(ps)*nSlices, r)
			return
		}
		p := ps[idx/nSlices]
		s := idx % nSlices
		full := tier == "thorough" && p.cfg >= 0 && p.cfg%30 == 0 || p.cfg < 0
		br := sweep(p, s/len(protos), s%len(protos), full)
		r.Evals = br.evals
		r.Nontrivial = true
		r.Outcome(fmt.Sprintf("%s/accepted>0=%v", p.name, br.accepted > 0))
		if br.fail != "" {
			r.Fail(core.Failure{Key: "C12 exactness/" + p.name + "/verdict-differs-from-reference", What: br.fail, Scenario: core.JSON(map[string]any{"sweep": map[string]any{"prog": p.name, "cfg": p.cfg, "slice": s, "full": full}})})
		}
		if idx%37 == 0 {
			d := map[string]any{"program": p.name, "ethertype": fmt.Sprintf("%04x", ethertypes[s/len(protos)]), "protocol": protos[s%len(protos)], "frames": br.evals, "accepted": br.accepted}
			if p.cfg >= 0 {
				a, b := tupleCfg(p.cfg)
				d["src"], d["dst"] = a.String(), b.String()
			}
			r.Sample = core.JSON(d)
		}
	}
	replay := func(scn json.RawMessage, choices []int) (string, bool) {
		var w struct {
			Sweep *struct {
				Prog  string `json:"prog"`
				Cfg   int    `json:"cfg"`
				Slice int    `json:"slice"`
				Full  bool   `json:"full"`
			} `json:"sweep"`
		}
		json.Unmarshal(scn, &w)
		if w.Sweep != nil {
			for _, p := range progs("thorough") {
				if p.name == w.Sweep.Prog && p.cfg == w.Sweep.Cfg {
					br := sweep(p, w.Sweep.Slice/len(protos), w.Sweep.Slice%len(protos), w.Sweep.Full)
					if br.fail != "" {
						return "ORACLE FAILED: " + br.fail + "\n", false
					}
					return "oracle: ok\n", true
				}
			}
			return "unknown program", false
		}
		if s, ok, handled := replayAttach(scn, choices); handled {
			return s, ok
		}
		var sw struct {
			S *SScn `json:"swap"`
		}
		if json.Unmarshal(scn, &sw); sw.S != nil {
			if key, d := runSwap(sw.S); key != "" {
				return fmt.Sprintf("swap %s\nORACLE FAILED: %s: %s\n", scn, key, d), false
			}
			return "oracle: ok\n", true
		}
		return onOff.Replay(scn, choices)
	}
	core.Register(&core.Property{ID: "C12", Level: "model_checking",
		Rule: "every emitted classic-BPF program (drop-all, ICMP, ICMP+UDP, SYN-ACK, and the TCP-tuple program for quick: 4 / thorough: all 900 configurations of source/destination from {1.2.3.4, 0.0.0.1, 127.255.255.255, 128.0.0.1, 255.255.255.255} x ports {1,255,256,0x1234,0x8000,65535}) is executed in x/net/bpf's VM on the full product of the equivalence classes of every inspected field: " +
			"ethertype {0800,86dd,0806,8100,0008} x protocol/next-header {1,6,17,58,44,0,2,7} (IPv6: first next-header x header after a fragment header) x IHL 0..15 x fragment word {0,2000,4000,0001,1fff,2001,8000} x per address {equal, each byte differs} x per port {equal, high byte, low byte, swapped} x all 256 TCP flag bytes (SYN-ACK) x frame lengths around every load offset (static programs and every 30th configuration: every length 0..114); " +
			"oracle: a reference predicate written on the byte layout (out-of-frame load => reject), exact equality; plus every third C02 scenario (thorough: all) executed with the filters installed and with filtering off must give identical hops; distinct = (program, accepts-something) classes",
		Count: count, Run: run, Replay: replay, Exhaustive: true, NeedsNetns: true,
		Assumptions: []string{"'unfragmented' is read as fragment offset 0 (DESIGN.md §6.1)", "x/net/bpf's VM is trusted to implement classic-BPF semantics (an out-of-frame load terminates the program with verdict 0)"}})
}
