package c12

// The Linux attach layer under concurrency: the REAL packets.SetBPFAndDrain installs two different programs on two
// real sockets (AF_UNIX datagram pairs: the kernel runs the attached program on every datagram, no privileges needed)
// from two managed threads. The syscall.RawConn handed to it makes every Control call a scheduling point, so all
// interleavings of the two attach sequences within the preemption bound are executed. Afterwards the kernel is asked:
// each socket must pass exactly the frames its own program accepts (judged by x/net/bpf's VM on the same program).

import (
	"encoding/binary"
	"encoding/json"
	"fmt"
	"net/netip"
	"syscall"
	"time"
	"unsafe"

	"golang.org/x/net/bpf"

	"github.com/DataDog/datadog-traceroute/packets"

	"verif/props/core"
	"verif/vsched"
)

type AScn struct {
	A     string `json:"program_a"`
	B     string `json:"program_b"`
	Bound int    `json:"bound"`
	// RefuseA k > 0: the kernel refuses the attach made by the k-th control call on socket A (the socket's filter is locked
	// - SO_LOCK_FILTER - just before it, so the real setsockopt answers EPERM): the installation reports an error
	RefuseA int `json:"refuse_a,omitempty"`
	// DrainErrA: socket A has a pending socket error (a UDP socket on the loopback whose datagram to a closed port drew an
	// ICMP error: the next receive answers ECONNREFUSED, not EAGAIN), so the drain read between the two attaches fails: the
	// installation either reports that or goes on to install the intended program - it never reports success with the
	// drop-everything program still attached
	DrainErrA bool `json:"drain_err_a,omitempty"`
}

// errSocket returns a non-blocking UDP socket with a pending ECONNREFUSED.
func errSocket() (int, error) {
	probe, err := syscall.Socket(syscall.AF_INET, syscall.SOCK_DGRAM|syscall.SOCK_CLOEXEC, 0)
	if err != nil {
		return -1, err
	}
	if err := syscall.Bind(probe, &syscall.SockaddrInet4{Addr: [4]byte{127, 0, 0, 1}}); err != nil {
		syscall.Close(probe)
		return -1, err
	}
	sa, _ := syscall.Getsockname(probe)
	port := sa.(*syscall.SockaddrInet4).Port
	syscall.Close(probe) // nothing listens there any more
	fd, err := syscall.Socket(syscall.AF_INET, syscall.SOCK_DGRAM|syscall.SOCK_NONBLOCK|syscall.SOCK_CLOEXEC, 0)
	if err != nil {
		return -1, err
	}
	if err := syscall.Connect(fd, &syscall.SockaddrInet4{Addr: [4]byte{127, 0, 0, 1}, Port: port}); err != nil {
		syscall.Close(fd)
		return -1, err
	}
	syscall.Write(fd, []byte{0})
	time.Sleep(2 * time.Millisecond) // (the loopback answers at once; if no error is pending the scenario is simply uneventful)
	return fd, nil
}

// filterLen asks the kernel how many instructions the program attached to the socket has (0 = none).
func filterLen(fd int) int {
	var l uint32
	const soGetFilter = 26
	_, _, e := syscall.Syscall6(syscall.SYS_GETSOCKOPT, uintptr(fd), uintptr(syscall.SOL_SOCKET), soGetFilter, 0, uintptr(unsafe.Pointer(&l)), 0)
	if e != 0 {
		return -1
	}
	return int(l)
}

type schedConn struct {
	fd     int
	lockAt int
	calls  *int
}

const soLockFilter = 44

func (c schedConn) Control(f func(fd uintptr)) error {
	vsched.Yield("rawconn.Control")
	if c.calls != nil {
		*c.calls++
		if *c.calls == c.lockAt {
			syscall.SetsockoptInt(c.fd, syscall.SOL_SOCKET, soLockFilter, 1)
		}
	}
	f(uintptr(c.fd))
	return nil
}
func (c schedConn) Read(func(fd uintptr) bool) error  { return syscall.ENOTSUP }
func (c schedConn) Write(func(fd uintptr) bool) error { return syscall.ENOTSUP }

func attachSpec(name string) (packets.PacketFilterSpec, bool) {
	switch name {
	case "icmp":
		return packets.PacketFilterSpec{FilterType: packets.FilterTypeICMP}, true
	case "udp":
		return packets.PacketFilterSpec{FilterType: packets.FilterTypeUDP}, true
	case "synack":
		return packets.PacketFilterSpec{FilterType: packets.FilterTypeSYNACK}, true
	case "tuple-1":
		return packets.PacketFilterSpec{FilterType: packets.FilterTypeTCP, FilterConfig: packets.FilterConfig{Src: netip.MustParseAddrPort("203.0.113.77:443"), Dst: netip.MustParseAddrPort("198.18.0.2:40001")}}, true
	case "tuple-2":
		return packets.PacketFilterSpec{FilterType: packets.FilterTypeTCP, FilterConfig: packets.FilterConfig{Src: netip.MustParseAddrPort("203.0.113.78:443"), Dst: netip.MustParseAddrPort("198.18.0.2:40002")}}, true
	}
	return packets.PacketFilterSpec{}, false
}

// probe frames: one per program that only that program (and the ICMP-accepting ones) lets through
func attachFrames() map[string][]byte {
	eth := func(et uint16, ip []byte) []byte {
		f := make([]byte, 14+len(ip))
		binary.BigEndian.PutUint16(f[12:], et)
		copy(f[14:], ip)
		return f
	}
	ip4 := func(proto byte, src, dst string, l4 []byte) []byte {
		b := make([]byte, 20+len(l4))
		b[0], b[8], b[9] = 0x45, 64, proto
		binary.BigEndian.PutUint16(b[2:], uint16(len(b)))
		s, d := netip.MustParseAddr(src).As4(), netip.MustParseAddr(dst).As4()
		copy(b[12:], s[:])
		copy(b[16:], d[:])
		copy(b[20:], l4)
		return b
	}
	tcp := func(sp, dp uint16, flags byte) []byte {
		t := make([]byte, 20)
		binary.BigEndian.PutUint16(t[0:], sp)
		binary.BigEndian.PutUint16(t[2:], dp)
		t[12], t[13] = 5<<4, flags
		return t
	}
	return map[string][]byte{
		"icmp-te":      eth(0x0800, ip4(1, "100.64.0.1", "198.18.0.2", []byte{11, 0, 0, 0, 0, 0, 0, 0})),
		"udp":          eth(0x0800, ip4(17, "100.64.0.1", "198.18.0.2", []byte{0x82, 0x9a, 0x9c, 0x40, 0, 8, 0, 0})),
		"synack-flow1": eth(0x0800, ip4(6, "203.0.113.77", "198.18.0.2", tcp(443, 40001, 0x12))),
		"synack-flow2": eth(0x0800, ip4(6, "203.0.113.78", "198.18.0.2", tcp(443, 40002, 0x12))),
		"rst-flow1":    eth(0x0800, ip4(6, "203.0.113.77", "198.18.0.2", tcp(443, 40001, 0x04))),
		"rst-flow2":    eth(0x0800, ip4(6, "203.0.113.78", "198.18.0.2", tcp(443, 40002, 0x04))),
		"arp":          eth(0x0806, make([]byte, 28)),
		// a perfectly good time-exceeded, but inside a frame of another EtherType (local experimental)
		"icmp-te-in-foreign-ethertype": eth(0x88b5, ip4(1, "100.64.0.2", "198.18.0.2", []byte{11, 0, 0, 0, 0, 0, 0, 0})),
	}
}

// refFor is the reference predicate (written on the byte layout, see c12.go) of the named filter: what the socket must
// let through, independently of whatever program object the repository handed out.
func refFor(name string) func(f []byte) bool {
	switch name {
	case "none":
		// no filter: everything that is an IP frame (every filter program starts by rejecting other EtherTypes, so the
		// unfiltered handle must not hand those out either, or enabling a filter would change what the run sees)
		return func(f []byte) bool {
			if len(f) < 14 {
				return false
			}
			et := binary.BigEndian.Uint16(f[12:])
			return et == 0x0800 || et == 0x86dd
		}
	case "icmp":
		return func(f []byte) bool { return refICMP(f, false) }
	case "udp":
		return func(f []byte) bool { return refICMP(f, true) }
	case "synack":
		return refSynAck
	}
	spec, _ := attachSpec(name)
	return func(f []byte) bool { return refTuple(f, spec.FilterConfig.Src, spec.FilterConfig.Dst) }
}

func vmFor(raw []bpf.RawInstruction) *bpf.VM {
	ins := make([]bpf.Instruction, len(raw))
	for i, r := range raw {
		ins[i] = r.Disassemble()
	}
	vm, err := bpf.NewVM(ins)
	if err != nil {
		panic(err)
	}
	return vm
}

type sockPair struct{ rx, tx int }

func newPair() (sockPair, error) {
	fds, err := syscall.Socketpair(syscall.AF_UNIX, syscall.SOCK_DGRAM|syscall.SOCK_NONBLOCK|syscall.SOCK_CLOEXEC, 0)
	if err != nil {
		return sockPair{}, err
	}
	return sockPair{fds[0], fds[1]}, nil
}

func (p sockPair) close() { syscall.Close(p.rx); syscall.Close(p.tx) }

// passes reports which of the named frames the kernel lets through on the pair's receiving socket.
func (p sockPair) passes(frames map[string][]byte, names []string) map[string]bool {
	out := map[string]bool{}
	buf := make([]byte, 2048)
	for _, n := range names {
		if err := syscall.Sendto(p.tx, frames[n], 0, nil); err != nil {
			continue
		}
		if k, _, err := syscall.Recvfrom(p.rx, buf, syscall.MSG_DONTWAIT); err == nil && k > 0 {
			out[n] = true
		}
	}
	return out
}

func runAttach(sc *AScn, prefix []int, sig []uint32) (*vsched.Exec, string, string) {
	specA, _ := attachSpec(sc.A)
	specB, _ := attachSpec(sc.B)
	progA, errA := packets.VerifClassicBPF(specA)
	progB, errB := packets.VerifClassicBPF(specB)
	if errA != nil || errB != nil {
		return &vsched.Exec{}, "program-does-not-assemble", fmt.Sprint(errA, errB)
	}
	pa, err := newPair()
	if err != nil {
		return &vsched.Exec{}, "", "" // no sockets here: nothing to judge
	}
	defer pa.close()
	pb, err := newPair()
	if err != nil {
		return &vsched.Exec{}, "", ""
	}
	defer pb.close()
	aFd := pa.rx
	if sc.DrainErrA {
		fd, err := errSocket()
		if err != nil {
			return &vsched.Exec{}, "", "" // no such sockets here: nothing to judge
		}
		defer syscall.Close(fd)
		aFd = fd
	}
	var ea, eb error
	x := vsched.Run(vsched.Config{Prefix: prefix, PrefixSig: sig}, nil, func() {
		done := 0
		callsA := 0
		vsched.Go(func() {
			ea = packets.SetBPFAndDrain(schedConn{fd: aFd, lockAt: sc.RefuseA, calls: &callsA}, progA)
			done++
		})
		vsched.Go(func() { eb = packets.SetBPFAndDrain(schedConn{fd: pb.rx}, progB); done++ })
		vsched.Block(doneW{&done, 2}, -1, "join attaches")
	})
	if x.Outcome != vsched.Normal {
		return x, "", ""
	}
	if sc.DrainErrA {
		if n := filterLen(aFd); ea == nil && n >= 0 && n != len(progA) {
			return x, "failed-drain-reported-as-success", fmt.Sprintf("the drain read on socket A=%s failed with a socket error; the installation returned nil and the socket carries a program of %d instructions, the intended one has %d", sc.A, n, len(progA))
		}
		if eb != nil {
			return x, "attach-error", fmt.Sprint(eb)
		}
		return x, "", ""
	}
	if sc.RefuseA > 0 {
		if ea == nil {
			return x, "refused-attach-reported-as-success", fmt.Sprintf("the kernel refused the attach of control call %d on socket A=%s, the installation returned nil", sc.RefuseA, sc.A)
		}
		if eb != nil {
			return x, "attach-error", fmt.Sprint(eb)
		}
		return x, "", ""
	}
	if ea != nil || eb != nil {
		return x, "attach-error", fmt.Sprint(ea, eb)
	}
	frames := attachFrames()
	var names []string
	for n := range frames {
		names = append(names, n)
	}
	sortStr(names)
	for _, side := range []struct {
		name string
		pair sockPair
		ref  func([]byte) bool
	}{{"A=" + sc.A, pa, refFor(sc.A)}, {"B=" + sc.B, pb, refFor(sc.B)}} {
		got := side.pair.passes(frames, names)
		for _, n := range names {
			if want := side.ref(frames[n]); want != got[n] {
				return x, "socket-carries-another-program", fmt.Sprintf("socket %s: frame %q passes=%v, the filter it asked for says %v", side.name, n, got[n], want)
			}
		}
	}
	return x, "", ""
}

type doneW struct {
	n    *int
	want int
}

func (d doneW) Ready() bool { return *d.n >= d.want }

func sortStr(a []string) {
	for i := 1; i < len(a); i++ {
		for j := i; j > 0 && a[j] < a[j-1]; j-- {
			a[j], a[j-1] = a[j-1], a[j]
		}
	}
}

func attachScns(tier string) []AScn {
	names := []string{"icmp", "udp", "synack", "tuple-1", "tuple-2"}
	b := 2
	if tier == "thorough" {
		b = 3
	}
	var out []AScn
	for i, a := range names {
		for j, c := range names {
			if i < j {
				out = append(out, AScn{A: a, B: c, Bound: b})
			}
		}
	}
	for _, a := range names {
		for _, k := range []int{1, 2} {
			out = append(out, AScn{A: a, B: "icmp", Bound: 0, RefuseA: k})
		}
	}
	for _, a := range names {
		out = append(out, AScn{A: a, B: "icmp", Bound: 0, DrainErrA: true})
	}
	return out
}

func runAttachScn(sc *AScn, r *core.ScnResult) {
	r.Nontrivial = true
	e := &vsched.Explorer{Bound: sc.Bound}
	var key, detail string
	e.RunOne = func(prefix []int, sig []uint32) *vsched.Exec {
		var x *vsched.Exec
		x, key, detail = runAttach(sc, prefix, sig)
		return x
	}
	e.Check = func(x *vsched.Exec, cost int) bool {
		switch x.Outcome {
		case vsched.Diverged:
			r.Infra = "replay diverged"
			return false
		case vsched.Crash:
			key, detail = "crash", x.Crash.Value
		case vsched.Deadlock:
			key, detail = "hang", fmt.Sprint(x.Blocked)
		}
		if key != "" {
			r.Fail(core.Failure{Key: "C12 attach/two-concurrent-attaches/" + key, What: detail, Scenario: core.JSON(map[string]any{"attach": sc}), Choices: x.Choices(), Bound: cost})
			return false
		}
		r.Outcome("attach/" + sc.A + "+" + sc.B)
		return true
	}
	e.Explore()
	r.Stats = e.Stats
}

func replayAttach(scn json.RawMessage, choices []int) (string, bool, bool) {
	var w struct {
		A *AScn `json:"attach"`
	}
	json.Unmarshal(scn, &w)
	if w.A == nil {
		return "", false, false
	}
	x, key, detail := runAttach(w.A, choices, nil)
	s := fmt.Sprintf("attach %s choices %v outcome %s\n", scn, choices, x.Outcome)
	if key != "" {
		return s + "ORACLE FAILED: " + key + ": " + detail + "\n", false, true
	}
	return s + "oracle: ok\n", true, true
}

// ---- the real capture source when its filter is replaced while frames are queued -------------------------------
//
// The SACK run installs the SYN-ACK filter and later the tuple filter on the same handle. After SetPacketFilter(B)
// returns, the handle must only hand out frames B accepts (frames queued under the previous program are drained), and
// a frame B accepts that arrives afterwards must come through.

type SScn struct {
	A string `json:"first_filter"`  // "none" = no filter yet
	B string `json:"second_filter"` // "none" = filtering removed
}

func swapScns() []SScn {
	names := []string{"none", "icmp", "udp", "synack", "tuple-1", "tuple-2"}
	var out []SScn
	for _, a := range names {
		for _, b := range names {
			if a != b {
				out = append(out, SScn{a, b})
			}
		}
	}
	return out
}

func specOrNone(name string) packets.PacketFilterSpec {
	if name == "none" {
		return packets.PacketFilterSpec{FilterType: packets.FilterTypeNone}
	}
	s, _ := attachSpec(name)
	return s
}

func acceptsFn(name string) func(frame []byte) bool {
	if name == "none" {
		return func([]byte) bool { return true }
	}
	spec, _ := attachSpec(name)
	prog, err := packets.VerifClassicBPF(spec)
	if err != nil {
		panic(err)
	}
	vm := vmFor(prog)
	return func(f []byte) bool { k, _ := vm.Run(f); return k > 0 }
}

func runSwap(sc *SScn) (string, string) {
	p, err := newPair()
	if err != nil {
		return "", ""
	}
	defer syscall.Close(p.tx)
	src := packets.VerifAFPacketSourceFromFD(p.rx)
	defer src.Close()
	frames := attachFrames()
	var names []string
	for n := range frames {
		if n != "arp" {
			names = append(names, n)
		}
	}
	sortStr(names)
	if err := src.SetPacketFilter(specOrNone(sc.A)); err != nil && sc.A != "none" {
		return "set-filter-failed", err.Error()
	}
	for _, n := range names {
		syscall.Sendto(p.tx, frames[n], 0, nil)
	}
	if err := src.SetPacketFilter(specOrNone(sc.B)); err != nil {
		if sc.B == "none" {
			return "", "" // removing a filter that was never attached may be refused by the kernel
		}
		return "set-filter-failed", err.Error()
	}
	okB := refFor(sc.B)
	// frames sent after the swap carry a marker in the IP identification field
	for _, n := range names {
		f := append([]byte{}, frames[n]...)
		f[18], f[19] = 0xab, 0xcd
		syscall.Sendto(p.tx, f, 0, nil)
	}
	got := map[string]bool{}
	buf := make([]byte, 2048)
	for {
		src.SetReadDeadline(time.Now().Add(30 * time.Millisecond))
		k, err := src.Read(buf)
		if err != nil {
			break
		}
		pkt := buf[:k]
		name, after := "", false
		for _, n := range names {
			ip := frames[n][14:]
			if len(pkt) == len(ip) && string(pkt[:4]) == string(ip[:4]) && string(pkt[6:]) == string(ip[6:]) {
				name, after = n, pkt[4] == 0xab && pkt[5] == 0xcd
			}
		}
		if name == "" {
			return "unknown-frame-read", fmt.Sprintf("% x", pkt)
		}
		if !okB(frames[name]) {
			return "handle-returned-a-frame-its-filter-rejects", fmt.Sprintf("after SetPacketFilter(%s) returned (previous filter %s), the handle handed out frame %q (sent after the swap: %v)", sc.B, sc.A, name, after)
		}
		if sc.B != "none" && !after {
			return "frame-queued-before-the-swap-survived", fmt.Sprintf("previous filter %s, new filter %s: frame %q was queued before SetPacketFilter returned", sc.A, sc.B, name)
		}
		if after {
			got[name] = true
		}
	}
	for _, n := range names {
		if okB(frames[n]) && !got[n] {
			return "matchable-frame-hidden", fmt.Sprintf("filter %s (after %s): frame %q arrived after the swap and was not handed out", sc.B, sc.A, n)
		}
	}
	return "", ""
}
