// Package c03: path shape. One entry per TTL from the first TTL up to the lowest
// TTL answered by the destination (or the maximum), consecutive, unanswered =
// empty, never empty, only the last entry can be the destination.
package c03

import (
	"context"
	"encoding/json"
	"fmt"
	"net/netip"
	"time"

	"github.com/DataDog/datadog-traceroute/common"

	"verif/props/c05"
	"verif/props/core"
	"verif/props/proto"
	"verif/shim/vtime"
	"verif/simnet"
	"verif/vsched"
)

// ---- (a) engine level: scripted driver ---------------------------------------------------------

type EScn struct {
	Engine string `json:"engine"` // parallel | serial
	First  int    `json:"first"`
	Last   int    `json:"last"`
	Ans    []int  `json:"ans"`   // per TTL from First: 0 none, 1 hop, 2 destination
	Extra  string `json:"extra"` // "", "dup:<k>", "late:<k>" (k = index into Ans)
	K      int    `json:"k"`
	Bound  int    `json:"bound"`
	// OffMs (Extra "at-deadline", parallel engine): the answer of TTL index K arrives this long after the run's overall
	// deadline - inside the receive poll that straddles it, if that poll was entered in time
	OffMs int `json:"off_ms,omitempty"`
}

type resp struct {
	at  int64
	ttl uint8
	dst bool
}

type sdriver struct {
	sc     *EScn
	pend   []resp
	sent   []uint8
	par    bool
	t0     int64
	handed []resp // what ReceiveProbe handed to the engine
}

func (d *sdriver) GetDriverInfo() common.TracerouteDriverInfo {
	return common.TracerouteDriverInfo{SupportsParallel: d.par}
}

const (
	eTimeout = 40 * time.Millisecond
	ePoll    = 10 * time.Millisecond
	eDelay   = 5 * time.Millisecond
)

func (d *sdriver) SendProbe(ttl uint8) error {
	vsched.Yield("drv.send")
	d.sent = append(d.sent, ttl)
	k := int(ttl) - d.sc.First
	a := d.sc.Ans[k]
	now := vsched.Now()
	if len(d.sent) == 1 {
		d.t0 = now
	}
	if len(d.sent) == 1 && d.sc.Extra == "below-first" && d.sc.First > 1 {
		// a driver that hands over a destination answer for a TTL BELOW the first one (a misbehaving third-party driver):
		// the engine refuses the run or ignores the answer - it never returns an empty or mis-shaped list
		d.pend = append(d.pend, resp{now + 1e6, uint8(d.sc.First - 1 - d.sc.K), true})
	}
	if a != 0 {
		lat := int64(2+k%3) * 1e6
		if d.sc.Extra == "at-deadline" && d.sc.K == k {
			budget := int64(eTimeout) + int64(eDelay)*int64(d.sc.Last-d.sc.First+1)
			lat = d.t0 + budget + int64(d.sc.OffMs)*1e6 - now
		}
		if d.sc.Extra == "late" && d.sc.K == k {
			lat = int64(eDelay) + 3e6 // arrives while the next TTL is being waited for (but inside the overall budget)
			if !d.par {
				lat = int64(eTimeout) + 2e6
			}
		}
		d.pend = append(d.pend, resp{now + lat, ttl, a == 2})
		if d.sc.Extra == "dup" && d.sc.K == k {
			d.pend = append(d.pend, resp{now + lat + int64(eDelay) + 1e6, ttl, a == 2})
		}
		if d.sc.Extra == "then-dest" && d.sc.K == k {
			// the same TTL is answered a second time, by the destination (route change, ECMP): a destination answer for TTL k
			d.pend = append(d.pend, resp{now + lat + int64(eDelay) + 1e6, ttl, true})
		}
		if d.sc.Extra == "then-router" && d.sc.K == k {
			// the converse: the destination answered TTL k, and a router's answer for the same TTL arrives later
			// (a late or duplicated time-exceeded); the destination has still been reached at TTL k
			d.pend = append(d.pend, resp{now + lat + int64(eDelay) + 1e6, ttl, false})
		}
	}
	return nil
}

func (d *sdriver) Ready() bool {
	for _, r := range d.pend {
		if r.at <= vsched.Now() {
			return true
		}
	}
	return false
}

type pendW struct{ d *sdriver }

func (w pendW) Ready() bool { return w.d.Ready() }

func (d *sdriver) ReceiveProbe(to time.Duration) (*common.ProbeResponse, error) {
	// wait until a response is due or the timeout passes
	deadline := vsched.Now() + int64(to)
	next := deadline
	for _, r := range d.pend {
		if r.at < next {
			next = r.at
		}
	}
	if next > vsched.Now() {
		vtime.Sleep(time.Duration(next - vsched.Now()))
	} else {
		vsched.Yield("drv.recv")
	}
	best := -1
	for i, r := range d.pend {
		if r.at <= vsched.Now() && (best < 0 || r.at < d.pend[best].at) {
			best = i
		}
	}
	if best < 0 {
		return nil, common.ErrPacketDidNotMatchTraceroute
	}
	r := d.pend[best]
	d.pend = append(d.pend[:best], d.pend[best+1:]...)
	d.handed = append(d.handed, r)
	return &common.ProbeResponse{TTL: r.ttl, IP: netip.AddrFrom4([4]byte{192, 0, 2, r.ttl}), RTT: time.Millisecond, IsDest: r.dst}, nil
}

func runE(sc *EScn, prefix []int, sig []uint32, trace bool) (*vsched.Exec, []*common.ProbeResponse, error, *sdriver) {
	d := &sdriver{sc: sc, par: sc.Engine == "parallel"}
	var res []*common.ProbeResponse
	var err error
	x := vsched.Run(vsched.Config{Prefix: prefix, PrefixSig: sig, Trace: trace, MaxVirtual: time.Minute}, nil, func() {
		tp := common.TracerouteParams{MinTTL: uint8(sc.First), MaxTTL: uint8(sc.Last), TracerouteTimeout: eTimeout, PollFrequency: ePoll, SendDelay: eDelay}
		if d.par {
			res, err = common.TracerouteParallel(context.Background(), d, common.TracerouteParallelParams{TracerouteParams: tp})
		} else {
			res, err = common.TracerouteSerial(context.Background(), d, common.TracerouteSerialParams{TracerouteParams: tp})
		}
	})
	return x, res, err, d
}

func checkE(sc *EScn, x *vsched.Exec, res []*common.ProbeResponse, err error, d *sdriver) (string, string) {
	switch x.Outcome {
	case vsched.Crash:
		return "crash", x.Crash.Value + "\n" + x.Crash.Stack
	case vsched.Deadlock:
		return "hang", fmt.Sprint(x.Blocked)
	case vsched.Horizon:
		return "horizon", ""
	}
	if err != nil {
		if sc.Extra == "below-first" {
			return "", "" // refused: fine
		}
		return "unexpected-error", err.Error()
	}
	lowestDest := -1
	for k, a := range sc.Ans {
		// "then-dest": TTL k is answered by a router first and by the destination later; the serial engine can only see
		// the second answer while it waits for a later TTL
		thenDest := sc.Extra == "then-dest" && sc.K == k && (sc.Engine == "parallel" || k < len(sc.Ans)-1)
		if a == 2 || thenDest {
			lowestDest = sc.First + k
			break
		}
	}
	if sc.Extra == "at-deadline" {
		// the answer of TTL index K arrives after the deadline: it counts if (and only if) the engine was handed it - by the
		// poll it had entered before the deadline; every destination answer the engine was handed ends the list
		lowestDest = -1
		for _, h := range d.handed {
			if h.dst && (lowestDest < 0 || int(h.ttl) < lowestDest) {
				lowestDest = int(h.ttl)
			}
		}
	}
	// the serial engine stops probing at the first destination answer it sees, so TTLs beyond were never sent;
	// a destination answer only counts if its probe was sent
	if lowestDest > 0 {
		sentIt := false
		for _, t := range d.sent {
			if int(t) == lowestDest {
				sentIt = true
			}
		}
		if !sentIt {
			lowestDest = -1
		}
	}
	want := sc.Last - sc.First + 1
	if lowestDest > 0 {
		want = lowestDest - sc.First + 1
	}
	desc := func() string {
		s := ""
		for _, r := range res {
			if r == nil {
				s += "- "
			} else {
				s += fmt.Sprintf("%d%v ", r.TTL, map[bool]string{true: "!", false: ""}[r.IsDest])
			}
		}
		return s
	}
	if len(res) == 0 {
		return "empty-list", ""
	}
	if len(res) != want {
		return "length", fmt.Sprintf("ans=%v extra=%s/%d: want %d entries, got %d: %s", sc.Ans, sc.Extra, sc.K, want, len(res), desc())
	}
	for i, r := range res {
		ttl := sc.First + i
		a := sc.Ans[i]
		if r == nil {
			// (an answered TTL whose entry is empty is C02's subject, not a shape violation)
			_ = a
			continue
		}
		if int(r.TTL) != ttl {
			return "ttl-not-consecutive", fmt.Sprintf("entry %d has ttl %d: %s", i, r.TTL, desc())
		}
		if a == 0 {
			return "phantom-entry", fmt.Sprintf("ttl %d was never answered: %s", ttl, desc())
		}
		if r.IsDest && i != len(res)-1 {
			return "destination-not-last", desc()
		}
	}
	hops, herr := common.ToHops(common.TracerouteParams{MinTTL: uint8(sc.First), MaxTTL: uint8(sc.Last)}, res)
	if herr != nil {
		return "tohops-error", herr.Error()
	}
	for i, h := range hops {
		if h.TTL != sc.First+i {
			return "tohops-ttl", fmt.Sprintf("hop %d ttl %d", i, h.TTL)
		}
	}
	return "", ""
}

func pow3(n int) int {
	p := 1
	for i := 0; i < n; i++ {
		p *= 3
	}
	return p
}

type eSpace struct {
	engine      string
	first, last int
}

func eSpaces(tier string) []eSpace {
	pairs := [][2]int{{1, 1}, {1, 3}, {2, 4}, {3, 3}, {1, 4}, {254, 255}, {255, 255}}
	if tier == "thorough" {
		pairs = append(pairs, [2]int{1, 6}, [2]int{2, 6}, [2]int{250, 255}, [2]int{1, 5})
	}
	var out []eSpace
	for _, e := range []string{"parallel", "serial"} {
		for _, p := range pairs {
			out = append(out, eSpace{e, p[0], p[1]})
		}
	}
	return out
}

func eItems(tier string) []EScn {
	var out []EScn
	bound := 1
	if tier == "thorough" {
		bound = 2
	}
	for _, sp := range eSpaces(tier) {
		n := sp.last - sp.first + 1
		for code := 0; code < pow3(n); code++ {
			ans := make([]int, n)
			c := code
			for i := range ans {
				ans[i] = c % 3
				c /= 3
			}
			out = append(out, EScn{Engine: sp.engine, First: sp.first, Last: sp.last, Ans: ans, Bound: bound})
			for below := 0; below < sp.first-1 && below < 2; below++ {
				out = append(out, EScn{Engine: sp.engine, First: sp.first, Last: sp.last, Ans: ans, Extra: "below-first", K: below, Bound: bound})
			}
			for k := 0; k < n; k++ {
				if ans[k] != 0 {
					out = append(out, EScn{Engine: sp.engine, First: sp.first, Last: sp.last, Ans: ans, Extra: "dup", K: k, Bound: bound})
					if k < n-1 {
						out = append(out, EScn{Engine: sp.engine, First: sp.first, Last: sp.last, Ans: ans, Extra: "late", K: k, Bound: bound})
					}
					laterSilent := true
					for j := k + 1; j < n; j++ {
						if ans[j] != 0 {
							laterSilent = false
						}
					}
					// (serial engine: the second answer is only read while a later TTL is being waited for, and only if that
					// TTL's own reply does not end the wait first - so there the later TTLs are silent)
					if ans[k] == 1 && (sp.engine == "parallel" || (laterSilent && k < n-1)) {
						out = append(out, EScn{Engine: sp.engine, First: sp.first, Last: sp.last, Ans: ans, Extra: "then-dest", K: k, Bound: bound})
					}
					if ans[k] == 2 && sp.engine == "parallel" {
						out = append(out, EScn{Engine: sp.engine, First: sp.first, Last: sp.last, Ans: ans, Extra: "then-router", K: k, Bound: bound})
					}
					if ans[k] == 2 && sp.engine == "parallel" && n <= 3 {
						for _, off := range []int{1, 5, 9} {
							out = append(out, EScn{Engine: sp.engine, First: sp.first, Last: sp.last, Ans: ans, Extra: "at-deadline", K: k, OffMs: off, Bound: bound})
						}
					}
				}
			}
		}
	}
	return out
}

// ---- (b) clipResults over every small result slice ---------------------------------------------

func clipCases() (int, []string) {
	n := 0
	var fails []string
	for length := 1; length <= 7; length++ {
		for min := 0; min < length && min <= 3; min++ {
			// up to 3 non-nil entries, each dest or not
			var rec func(pos, left int, cur []*common.ProbeResponse)
			rec = func(pos, left int, cur []*common.ProbeResponse) {
				if pos == length {
					n++
					in := append([]*common.ProbeResponse{}, cur...)
					out := common.VerifClipResults(uint8(min), in)
					// reference
					end := length
					for i, r := range cur {
						if r != nil && r.IsDest {
							end = i + 1
							break
						}
					}
					var want []*common.ProbeResponse
					if end > min {
						want = cur[min:end]
					}
					ok := len(out) == len(want)
					for i := 0; ok && i < len(want); i++ {
						ok = out[i] == want[i]
					}
					if !ok && len(fails) < 5 {
						fails = append(fails, fmt.Sprintf("min=%d len=%d", min, length))
					}
					return
				}
				rec(pos+1, left, append(cur, nil))
				if left > 0 && pos >= 1 && pos >= min { // the engines only ever fill slots of validated TTLs (>= first)
					rec(pos+1, left-1, append(cur, &common.ProbeResponse{TTL: uint8(pos)}))
					rec(pos+1, left-1, append(cur, &common.ProbeResponse{TTL: uint8(pos), IsDest: true}))
				}
			}
			rec(0, 3, nil)
		}
	}
	return n, fails
}

// ---- (c) protocol level ---------------------------------------------------------------------------

func pItems(tier string) []proto.Item {
	var items []proto.Item
	type rg struct{ first, last int }
	ranges := []rg{{1, 3}, {254, 255}}
	if tier == "thorough" {
		ranges = []rg{{1, 4}, {2, 5}, {254, 255}, {255, 255}, {1, 3}}
	}
	for _, v := range proto.Variants {
		for _, r := range ranges {
			n := r.last - r.first + 1
			for code := 0; code < pow3(n); code++ {
				s := proto.Scn{Variant: v, First: r.first, Last: r.last, Dest: 0, IPIDBase: 300, EchoBase: 21, TimeoutMs: 300, DelayMs: 10}
				s.Hops = map[int]proto.HopSpec{}
				c := code
				want := n
				for k := 0; k < n; k++ {
					t := r.first + k
					switch c % 3 {
					case 0:
						s.Hops[t] = proto.HopSpec{Silent: true}
					case 2:
						s.Hops[t] = proto.HopSpec{AtTarget: true}
						if want == n {
							want = k + 1
						}
					}
					c /= 3
				}
				items = append(items, proto.Item{Scn: s, Class: fmt.Sprintf("%s/r%d-%d/answer-map", v, r.first, r.last), Note: map[string]string{"want_len": fmt.Sprint(want)}})
			}
		}
	}
	items = append(items, RouterThenDestination(300, 31)...)
	// a ROUTER answers a UDP probe with a destination-unreachable (net / host unreachable, administratively prohibited): an
	// answered hop, not the destination - the list goes on to the real destination
	for _, v := range proto.Variants {
		vi := proto.Info(v)
		if vi.Kind != "udp4" && vi.Kind != "udp6" {
			continue
		}
		for _, form := range []string{"duHost", "duAdmin"} {
			for _, t := range []int{1, 2} {
				s := proto.Scn{Variant: v, First: 1, Last: 5, Dest: 4, IPIDBase: 300, EchoBase: 31, TimeoutMs: 300, DelayMs: 10}
				s.Hops = map[int]proto.HopSpec{t: {Form: form}}
				items = append(items, proto.Item{Scn: s, Class: fmt.Sprintf("%s/router-answers-%s", v, form), Note: map[string]string{"want_len": "4"}})
			}
		}
	}
	// a destination slower than the send delay (its answers take 45 ms, probes leave every 10 ms): four more probes reach
	// it before its first answer is back, every one of them is answered, and the list still ends at the LOWEST of them
	for _, v := range proto.Variants {
		if !proto.Info(v).Parallel {
			continue
		}
		s := proto.Scn{Variant: v, First: 1, Last: 9, Dest: 3, IPIDBase: 300, EchoBase: 31, TimeoutMs: 300, DelayMs: 10}
		s.Hops = map[int]proto.HopSpec{}
		for t := 3; t <= 9; t++ {
			s.Hops[t] = proto.HopSpec{DelayUs: 45000}
		}
		items = append(items, proto.Item{Scn: s, Class: fmt.Sprintf("%s/destination-slower-than-the-send-delay", v), Note: map[string]string{"want_len": "3"}})
	}
	// serial engine: an unrelated packet 50 ms into the destination's window shifts the receive polls off the window's
	// grid, so that one poll straddles the window's end; the destination's answer arrives inside that poll, just after the
	// window has closed: the engine has been handed it - the list ends there and no further TTL is probed
	for _, v := range proto.Variants {
		vi := proto.Info(v)
		if vi.Parallel {
			continue
		}
		for _, late := range []int{310000, 340000} {
			s := proto.Scn{Variant: v, First: 1, Last: 5, Dest: 3, IPIDBase: 300, EchoBase: 31, TimeoutMs: 300, DelayMs: 10}
			s.Hops = map[int]proto.HopSpec{3: {DelayUs: late}}
			s.Inject = []proto.Inject{{OnTTL: 3, AnswerTTL: 3, Form: vi.TEForm, From: proto.Evil(vi.V6).String(), DelayUs: 50000, Tag: "phase-shift", Rewrite: []simnet.Perturb{{Field: "q.dst", Op: "+1"}}}}
			items = append(items, proto.Item{Scn: s, Class: fmt.Sprintf("%s/destination-answer-in-the-poll-straddling-its-window/%dms", v, late/1000), Note: map[string]string{"want_len": "3"}})
		}
	}
	// UDP over IPv6: the destination's (and the routers') ICMPv6 errors quote only part of the probe - the IPv6 header and
	// 8, 16 or 13+k bytes behind it -; the per-probe identifier is the quoted header's payload-length FIELD, so the list
	// still ends at the destination's lowest answer
	for _, v := range proto.Variants {
		if proto.Info(v).Kind != "udp6" {
			continue
		}
		for _, cut := range []int{8, 15, 16, 20} {
			s := proto.Scn{Variant: v, First: 1, Last: 6, Dest: 4, IPIDBase: 300, EchoBase: 31, TimeoutMs: 300, DelayMs: 10}
			s.Hops = map[int]proto.HopSpec{2: {Form: fmt.Sprintf("teFull:q%d", cut)}}
			for t := 4; t <= 6; t++ {
				s.Hops[t] = proto.HopSpec{Form: fmt.Sprintf("duPort:q%d", cut)}
			}
			items = append(items, proto.Item{Scn: s, Class: fmt.Sprintf("%s/errors-quoting-%d-bytes-of-the-probe", v, cut), Note: map[string]string{"want_len": "4"}})
		}
	}
	// ICMP: a stray echo reply from the target with the run's identifier and a sequence number of 256 + an already probed
	// TTL (another pinger on the host shares the identifier): it is nobody's answer - the list runs on to the destination
	for _, v := range []string{"icmp4", "icmp6"} {
		for _, t := range []int{1, 2} {
			s := proto.Scn{Variant: v, First: 1, Last: 5, Dest: 3, IPIDBase: 300, EchoBase: 31, TimeoutMs: 300, DelayMs: 10}
			s.Inject = []proto.Inject{{OnTTL: t, AnswerTTL: t, Form: "echo", From: s.Target().String(), DelayUs: 1000, Tag: "stray-echo-sequence-plus-256", Rewrite: []simnet.Perturb{{Field: "echo.seq", Op: "+256"}}}}
			items = append(items, proto.Item{Scn: s, Class: fmt.Sprintf("%s/stray-echo-reply-sequence-ttl-plus-256", v), Note: map[string]string{"want_len": "3"}})
		}
	}
	// TCP SYN: the probe's sequence number is 2^32-1, so the destination acknowledges 0 (default mode: one number for the
	// whole run; Paris mode: every probe draws it): the list ends at the destination all the same
	for _, v := range []string{"syn", "synr", "synparis"} {
		for _, form := range []string{"synack", "rstack"} {
			s := proto.Scn{Variant: v, First: 1, Last: 5, Dest: 3, IPIDBase: 300, EchoBase: 31, TimeoutMs: 300, DelayMs: 10, Rand: []uint32{0xffffffff, 0xffffffff, 0xffffffff, 0xffffffff, 0xffffffff, 0xffffffff, 0xffffffff, 0xffffffff}}
			s.Hops = map[int]proto.HopSpec{3: {Form: form}, 4: {Form: form}, 5: {Form: form}}
			items = append(items, proto.Item{Scn: s, Class: fmt.Sprintf("%s/sequence-number-all-ones/%s", v, form), Note: map[string]string{"want_len": "3"}})
		}
	}
	// SACK: the acknowledgement of the first probe that reached the destination is lost, the next probe is lost on its way,
	// so the later acknowledgements carry two blocks with the lowest one LAST ([7,8) [5,6)): the list still ends at the
	// lowest TTL the destination acknowledged
	for _, v := range []string{"sack", "sackstrict"} {
		for _, d := range []int{3, 5} {
			s := proto.Scn{Variant: v, First: 1, Last: d + 3, Dest: d, IPIDBase: 300, EchoBase: 31, TimeoutMs: 300, DelayMs: 10}
			s.Hops = map[int]proto.HopSpec{d: {LostReply: true}, d + 1: {Silent: true}}
			items = append(items, proto.Item{Scn: s, Class: fmt.Sprintf("%s/first-acknowledgement-lost-then-a-gap/dest-%d", v, d), Note: map[string]string{"want_len": fmt.Sprint(d)}})
		}
	}
	// UDP: the destination itself answers with a destination-unreachable that is not "port unreachable" (a host firewall
	// rejecting with host / administratively prohibited): an ICMP error from the target proves arrival, the list ends there
	for _, v := range proto.Variants {
		vi := proto.Info(v)
		if vi.Kind != "udp4" && vi.Kind != "udp6" {
			continue
		}
		for _, form := range []string{"duHost", "duAdmin"} {
			s := proto.Scn{Variant: v, First: 1, Last: 6, Dest: 3, IPIDBase: 300, EchoBase: 31, TimeoutMs: 300, DelayMs: 10}
			s.Hops = map[int]proto.HopSpec{}
			for t := 3; t <= 6; t++ {
				s.Hops[t] = proto.HopSpec{AtTarget: true, Form: form}
			}
			items = append(items, proto.Item{Scn: s, Class: fmt.Sprintf("%s/destination-answers-%s", v, form), Note: map[string]string{"want_len": "3"}})
		}
	}
	// SACK: the destination answers the probes that reach it with a time-exceeded from its own address instead of a
	// selective acknowledgement (the TTL ran out in its own stack, or a NAT in front of it answers in its name): that proves
	// arrival for this variant, the list ends there - also when only the LATER probes are answered that way
	for _, v := range []string{"sack", "sackstrict"} {
		for _, from := range []int{3, 4} {
			s := proto.Scn{Variant: v, First: 1, Last: 6, Dest: 3, IPIDBase: 300, EchoBase: 31, TimeoutMs: 300, DelayMs: 10}
			s.Hops = map[int]proto.HopSpec{}
			for t := from; t <= 6; t++ {
				s.Hops[t] = proto.HopSpec{AtTarget: true, Form: "te28"}
			}
			items = append(items, proto.Item{Scn: s, Class: fmt.Sprintf("%s/destination-answers-with-time-exceeded-from-ttl%d", v, from), Note: map[string]string{"want_len": "3"}})
		}
	}
	// the destination's answer (and a router's) arrives in an IPv4 datagram whose own header carries options: every
	// offset behind the header moves, for the capture filter and for the decoder alike; the list still ends at the destination
	for _, v := range proto.Variants {
		if proto.Info(v).V6 {
			continue
		}
		for _, w := range []int{6, 7, 15} {
			for _, who := range []string{"destination", "router", "both"} {
				s := proto.Scn{Variant: v, First: 1, Last: 5, Dest: 3, IPIDBase: 300, EchoBase: 31, TimeoutMs: 300, DelayMs: 10}
				s.Hops = map[int]proto.HopSpec{}
				if who != "router" {
					s.Hops[3] = proto.HopSpec{IPOptWords: w}
				}
				if who != "destination" {
					s.Hops[2] = proto.HopSpec{IPOptWords: w}
				}
				items = append(items, proto.Item{Scn: s, Class: fmt.Sprintf("%s/ip-options-%dw/%s", v, w, who), Note: map[string]string{"want_len": "3"}})
			}
		}
	}
	// SACK probes overtaking each other / lost on the way to the target, around the 2^32 wrap: the list still ends at the
	// lowest TTL the destination answered (5)
	items = append(items, c05.ForwardReorder(tier, 300, 31)...)
	return items
}

// RouterThenDestination: TTL t is answered by a router and, later, by the target itself (route change, ECMP): the
// destination's answer overrides, so the list ends at t. Real drivers of the parallel engine over the wire.
func RouterThenDestination(ipid, echo uint32) []proto.Item {
	var items []proto.Item
	for _, v := range proto.Variants {
		vi := proto.Info(v)
		if !vi.Parallel {
			continue
		}
		for _, t := range []int{1, 2, 3} {
			s := proto.Scn{Variant: v, First: 1, Last: 5, Dest: 4, IPIDBase: ipid, EchoBase: echo, TimeoutMs: 300, DelayMs: 10}
			s.Inject = []proto.Inject{{OnTTL: t, AnswerTTL: t, Form: vi.DestForm, From: s.Target().String(), DelayUs: proto.DefaultDelayUs(t) + 25000, Tag: "destination-after-router", Genuine: true}}
			items = append(items, proto.Item{Scn: s, Class: fmt.Sprintf("%s/router-then-destination-same-ttl", v), Note: map[string]string{"want_len": fmt.Sprint(t)}})
		}
	}
	return items
}

var PF = &proto.Family{ID: "C03", Gen: pItems, Check: func(it *proto.Item, r *proto.Result) []proto.Issue {
	o := r.Obs[0]
	if o.Err != nil {
		return []proto.Issue{{Key: "run-error", Detail: o.Err.Error()}}
	}
	out := proto.Shape(&it.Scn, r, 0)
	var want int
	fmt.Sscan(it.Note["want_len"], &want)
	if got := len(proto.Hops(o.Run)); got != want {
		out = append(out, proto.Issue{Key: "length", Detail: fmt.Sprintf("want %d entries, got %d: %s", want, got, proto.HopsString(proto.Hops(o.Run)))})
	}
	return out
}}

// ---- property -----------------------------------------------------------------------------------

var cacheE = map[string][]EScn{}

func eCached(tier string) []EScn {
	if c, ok := cacheE[tier]; ok {
		return c
	}
	cacheE[tier] = eItems(tier)
	return cacheE[tier]
}

func count(tier string) int { return len(eCached(tier)) + 1 + PF.Count(tier) }

func run(tier string, idx int, r *core.ScnResult) {
	es := eCached(tier)
	if idx < len(es) {
		sc := &es[idx]
		r.Nontrivial = true
		var res []*common.ProbeResponse
		var err error
		var d *sdriver
		e := &vsched.Explorer{Bound: sc.Bound}
		e.RunOne = func(prefix []int, sig []uint32) *vsched.Exec {
			var x *vsched.Exec
			x, res, err, d = runE(sc, prefix, sig, false)
			return x
		}
		e.Check = func(x *vsched.Exec, cost int) bool {
			if x.Outcome == vsched.Diverged {
				r.Infra = "replay diverged"
				return false
			}
			k, detail := checkE(sc, x, res, err, d)
			if k != "" {
				cls := fmt.Sprintf("engine-%s/%s", sc.Engine, map[string]string{"": "plain", "dup": "duplicate", "late": "late-reply", "then-dest": "router-then-destination", "then-router": "destination-then-router"}[sc.Extra])
				r.Fail(core.Failure{Key: "C03 " + cls + "/" + k, What: detail, Scenario: core.JSON(map[string]any{"engine_scn": sc}), Choices: x.Choices(), Bound: cost})
				return false
			}
			s := ""
			for _, p := range res {
				if p == nil {
					s += "-"
				} else if p.IsDest {
					s += "D"
				} else {
					s += "h"
				}
			}
			r.Outcome(core.Hash(sc.Engine, sc.First, s))
			return true
		}
		e.Explore()
		r.Stats = e.Stats
		if idx%503 == 0 {
			r.Sample = core.JSON(sc)
		}
		return
	}
	idx -= len(es)
	if idx == 0 {
		n, fails := clipCases()
		r.Evals = int64(n)
		r.Nontrivial = true
		r.Outcome("clip-ok")
		for _, f := range fails {
			r.Fail(core.Failure{Key: "C03 clip/reference-mismatch", What: f, Scenario: core.JSON(map[string]any{"clip": f})})
		}
		return
	}
	PF.Run(tier, idx-1, r)
}

func replay(scn json.RawMessage, choices []int) (string, bool) {
	var w struct {
		E    *EScn           `json:"engine_scn"`
		Clip *string         `json:"clip"`
		Scn  json.RawMessage `json:"scn"`
	}
	json.Unmarshal(scn, &w)
	if w.E != nil {
		x, res, err, d := runE(w.E, choices, nil, true)
		k, detail := checkE(w.E, x, res, err, d)
		s := fmt.Sprintf("engine scenario %s\nchoices %v\noutcome %s sent=%v\n", scn, choices, x.Outcome, d.sent)
		if k != "" {
			return s + "ORACLE FAILED: " + k + ": " + detail + "\n", false
		}
		return s + "oracle: ok\n", true
	}
	if w.Clip != nil {
		_, fails := clipCases()
		if len(fails) > 0 {
			return fmt.Sprintf("ORACLE FAILED: clip mismatch %v\n", fails), false
		}
		return "oracle: ok\n", true
	}
	return PF.Replay(scn, choices)
}

func init() {
	core.Register(&core.Property{ID: "C03", Level: "model_checking",
		Rule: "(a) engine level: every answer map TTL->{none,hop,destination} (3^n, n<=4 quick / <=6 thorough) x {plain, duplicate of each reply, late reply of each earlier TTL} x {parallel, serial} x boundary (first,last) pairs, " +
			"each explored over all schedules within the preemption bound against the real engines driven by a scripted driver; (b) clipResults against a reference over every result slice of length <=7 with <=3 entries; " +
			"(c) protocol level: every answer map for every variant through the exported entry points over the simulated wire. Oracle: shape predicate (length, consecutive TTLs, empty entries, destination only last, never empty); distinct = distinct (engine, first, shape) results",
		Count: count, Run: run, Replay: replay, Exhaustive: true, NeedsNetns: true,
		Assumptions: []string{"scripted driver answers TTL t a fixed latency after SendProbe(t); late = arrives while a later TTL is being waited for"}})
}
