// Package all links every property harness into vworker.
package all

import (
	_ "verif/props/c07"
)
