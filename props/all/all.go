// Package all links every property harness into vworker.
package all

import (
	_ "verif/props/c01"
	_ "verif/props/c02"
	_ "verif/props/c07"
	_ "verif/props/smoke"
)
