// Package all links every property harness into vworker.
package all

import (
	_ "verif/props/c01"
	_ "verif/props/c02"
	_ "verif/props/c03"
	_ "verif/props/c04"
	_ "verif/props/c05"
	_ "verif/props/c06"
	_ "verif/props/c07"
	_ "verif/props/c08"
	_ "verif/props/c09"
	_ "verif/props/c10"
	_ "verif/props/c11"
	_ "verif/props/c12"
	_ "verif/props/c13"
	_ "verif/props/c14"
	_ "verif/props/c15"
	_ "verif/props/c16"
	_ "verif/props/c17"
	_ "verif/props/c18"
	_ "verif/props/c19"
	_ "verif/props/c20"
	_ "verif/props/smoke"
)
