// Package smoke: a manual smoke test of the protocol harness (not a property).
package smoke

import (
	"encoding/json"
	"fmt"

	"verif/props/core"
	"verif/props/proto"
	"verif/vsched"
)

func replay(scn json.RawMessage, choices []int) (string, bool) {
	var sc proto.Scn
	if err := json.Unmarshal(scn, &sc); err != nil {
		return err.Error(), false
	}
	r := proto.RunScns(vsched.Config{Prefix: choices}, &sc)
	s := fmt.Sprintf("outcome=%s steps=%d virtual=%s points=%d\n%s\n%s", r.X.Outcome, r.X.Steps, r.X.Virtual, len(r.X.Points), r.Summary(), r.WireLog())
	if r.X.Crash != nil {
		s += "CRASH: " + r.X.Crash.Value + "\n" + r.X.Crash.Stack + "\n"
	}
	s += fmt.Sprintf("blocked=%v fds %d->%d\n", r.X.Blocked, r.FDsBefore, r.FDsAfter)
	return s, true
}

func init() {
	core.Register(&core.Property{ID: "SMOKE", NeedsNetns: true, Count: func(string) int { return 0 }, Run: func(string, int, *core.ScnResult) {}, Replay: replay})
}
