// Package c17: private-hop redaction leaves no private address or derived data.
package c17

import (
	"encoding/json"
	"fmt"
	"net"
	"net/netip"
	"reflect"
	"strings"

	"github.com/DataDog/datadog-traceroute/result"

	"verif/props/core"
	"verif/props/proto"
)

// boundary addresses of every private block and their public neighbours
var v4s = []string{"9.255.255.255", "10.0.0.0", "10.255.255.255", "11.0.0.0", "172.15.255.255", "172.16.0.0", "172.31.255.255", "172.32.0.0", "192.167.255.255", "192.168.0.0", "192.168.255.255", "192.169.0.0", "10.1.2.3", "198.51.100.1"}
var v6s = []string{"fbff:ffff:ffff:ffff:ffff:ffff:ffff:ffff", "fc00::", "fdff:ffff:ffff:ffff:ffff:ffff:ffff:ffff", "fe00::", "fd12:3456::1", "2001:db8::1",
	// public IPv6 addresses whose low 32 bits spell a private IPv4 address (not IPv4-mapped: the 96 bits in front are not ::ffff)
	"2606:4700:10::c0a8:101", "2a00:1450:4001:81b::a00:1", "fe00::a0a:a0a"}

type sym struct {
	name string
	ip   net.IP
}

func symbols() []sym {
	out := []sym{{"empty", nil}}
	for _, a := range v4s {
		ip := net.ParseIP(a)
		out = append(out, sym{a + "/4-byte", ip.To4()}, sym{a + "/16-byte-mapped", ip.To16()})
	}
	for _, a := range v6s {
		out = append(out, sym{a, net.ParseIP(a)})
	}
	return out
}

// isPrivateRef is an independent range test on the address bytes.
func isPrivateRef(ip net.IP) bool {
	if len(ip) == 0 {
		return false
	}
	a, ok := netip.AddrFromSlice(ip)
	if !ok {
		return false
	}
	a = a.Unmap()
	if a.Is4() {
		b := a.As4()
		return b[0] == 10 || (b[0] == 172 && b[1]&0xf0 == 16) || (b[0] == 192 && b[1] == 168)
	}
	b := a.As16()
	return b[0]&0xfe == 0xfc
}

// mkDoc: two runs with the listed hops; cleanFirst puts a run in front whose hops are all public or unanswered (the
// gateway that is private in the other runs stayed silent in the run that completed first).
func mkDoc(list []int, syms []sym, rdns bool, cleanFirst ...bool) *result.Results {
	run := result.TracerouteRun{Source: result.TracerouteSource{IPAddress: net.IP{192, 0, 2, 1}}, Destination: result.TracerouteDestination{IPAddress: net.IP{203, 0, 113, 9}}}
	for i, k := range list {
		h := &result.TracerouteHop{TTL: i + 3}
		if ip := syms[k].ip; ip != nil {
			h.IPAddress = append(net.IP{}, ip...)
			h.RTT = 1.25 + float64(i)
			h.Reachable = true
			// (the deprecated per-hop fields too: a redacted hop keeps its TTL and nothing else)
			h.Port, h.ICMPType, h.ICMPCode = uint16(33434+i), 11, 1
			if rdns {
				h.ReverseDns = []string{"name-of-" + ip.String() + "."}
			}
			if i == len(list)-1 {
				h.IsDest = true
			}
		}
		run.Hops = append(run.Hops, h)
	}
	doc := &result.Results{Traceroute: result.Traceroute{Runs: []result.TracerouteRun{run, run2(run)}}}
	if len(cleanFirst) > 0 && cleanFirst[0] {
		clean := result.TracerouteRun{Source: run.Source, Destination: run.Destination}
		clean.Hops = []*result.TracerouteHop{{TTL: 3}, {TTL: 4, IPAddress: net.IP{198, 51, 100, 99}, RTT: 2.5, Reachable: true}, {TTL: 5, IPAddress: net.IP{203, 0, 113, 9}, RTT: 3.5, Reachable: true, IsDest: true}}
		doc.Traceroute.Runs = append([]result.TracerouteRun{clean}, doc.Traceroute.Runs...)
	}
	return doc
}

func run2(r result.TracerouteRun) result.TracerouteRun {
	c := r
	c.Hops = nil
	for _, h := range r.Hops {
		hh := *h
		c.Hops = append(c.Hops, &hh)
	}
	return c
}

func checkRedacted(before, after *result.Results) (string, string) {
	if len(before.Traceroute.Runs) != len(after.Traceroute.Runs) {
		return "run-count-changed", ""
	}
	for ri := range before.Traceroute.Runs {
		b, a := before.Traceroute.Runs[ri], after.Traceroute.Runs[ri]
		if len(b.Hops) != len(a.Hops) {
			return "hop-count-changed", fmt.Sprintf("%d -> %d", len(b.Hops), len(a.Hops))
		}
		for i := range b.Hops {
			hb, ha := b.Hops[i], a.Hops[i]
			if ha.TTL != hb.TTL {
				return "ttl-changed", fmt.Sprintf("position %d: %d -> %d", i, hb.TTL, ha.TTL)
			}
			if isPrivateRef(hb.IPAddress) {
				if len(ha.IPAddress) != 0 {
					return "private-address-kept", fmt.Sprintf("hop ttl %d keeps %s (%d-byte form)", ha.TTL, ha.IPAddress, len(hb.IPAddress))
				}
				if ha.RTT != 0 || ha.Reachable || ha.IsDest || len(ha.ReverseDns) != 0 || ha.Port != 0 || ha.ICMPType != 0 || ha.ICMPCode != 0 {
					return "derived-data-kept", fmt.Sprintf("hop ttl %d: %+v", ha.TTL, *ha)
				}
			} else if !reflect.DeepEqual(*hb, *ha) {
				return "public-hop-altered", fmt.Sprintf("hop ttl %d: %+v -> %+v", hb.TTL, *hb, *ha)
			}
		}
	}
	return "", ""
}

func clone(r *result.Results) *result.Results {
	b, _ := json.Marshal(struct {
		R *result.Results
		D [][]bool
	}{R: r})
	_ = b
	c := *r
	c.Traceroute.Runs = nil
	for _, run := range r.Traceroute.Runs {
		c.Traceroute.Runs = append(c.Traceroute.Runs, run2(run))
	}
	return &c
}

func lists(n, maxLen int) [][]int {
	var out [][]int
	var rec func(cur []int)
	rec = func(cur []int) {
		if len(cur) > 0 {
			out = append(out, append([]int{}, cur...))
		}
		if len(cur) == maxLen {
			return
		}
		for k := 0; k < n; k++ {
			rec(append(cur, k))
		}
	}
	rec(nil)
	return out
}

const chunkSize = 2048

var listCache = map[string][][]int{}

func docLists(tier string) [][]int {
	if l, ok := listCache[tier]; ok {
		return l
	}
	n := len(symbols())
	ml := 2
	if tier == "thorough" {
		ml = 3
	}
	l := lists(n, ml)
	// every symbol at every position of a 4-hop document whose other hops are a fixed public/private/empty mix
	for k := 0; k < n; k++ {
		for pos := 0; pos < 4; pos++ {
			d := []int{1, 4, 0, 29}
			d[pos] = k
			l = append(l, d)
		}
	}
	listCache[tier] = l
	return l
}

// ---- through RunTraceroute / the HTTP handler over the simulated wire ------------------------------

func genWire(tier string) []proto.RTItem {
	var items []proto.RTItem
	addrs4 := v4s
	addrs6 := v6s
	mk := func(protoName, method, host string, routers []string, http, rdns bool) proto.RTItem {
		r := proto.RTScn{Hostname: host, Protocol: protoName, Method: method, MinTTL: 1, MaxTTL: len(routers) + 2, DelayMs: 10, TimeoutMs: 100, Queries: 1, E2e: 1, Dest: len(routers) + 1,
			RouterAddrs: routers, SkipPrivate: true, ReverseDNS: rdns, HTTP: http, IPIDBase: 1700, EchoBase: 170, WantV6: strings.Contains(host, ":")}
		entry := "RunTraceroute"
		if http {
			entry = "http"
		}
		return proto.RTItem{Scn: r, Class: fmt.Sprintf("wire/%s/%s-%s/rdns-%v", entry, protoName, method, rdns)}
	}
	for _, http := range []bool{false, true} {
		for _, rdns := range []bool{false, true} {
			for i := 0; i+4 <= len(addrs4); i += 4 {
				items = append(items, mk("udp", "", "203.0.113.77", addrs4[i:i+4], http, rdns))
				items = append(items, mk("icmp", "", "203.0.113.77", addrs4[i:i+4], http, rdns))
				items = append(items, mk("tcp", "syn", "203.0.113.77", addrs4[i:i+4], http, rdns))
			}
			items = append(items, mk("udp", "", "2001:db8::77", addrs6[:4], http, rdns))
			items = append(items, mk("icmp", "", "2001:db8::77", addrs6[2:6], http, rdns))
			if !http && !rdns {
				// a sibling request that did not ask for redaction overlaps this one on the same Traceroute value: this
				// request's document is redacted all the same, on every schedule of the two
				for _, pm := range [][2]string{{"udp", ""}, {"icmp", ""}} {
					it := mk(pm[0], pm[1], "203.0.113.77", addrs4[4:8], false, false)
					it.Scn.Overlap = true
					it.Scn.Bound = 1
					it.Class += "/overlapping-request-without-redaction"
					items = append(items, it)
				}
			}
			if !http {
				// the caller's context ends while the runs are in flight (UDP and TCP runs do not look at it and still succeed)
				for _, pm := range [][2]string{{"udp", ""}, {"tcp", "syn"}} {
					it := mk(pm[0], pm[1], "203.0.113.77", addrs4[4:8], false, rdns)
					it.Scn.CancelAtMs = 15
					it.Class += "/caller-context-cancelled-mid-run"
					items = append(items, it)
				}
			}
			if http && rdns {
				// every spelling of "enabled" the query decoder knows (Go's boolean spellings), IPv4 and IPv6
				for _, sp := range []string{"1", "t", "T", "TRUE", "True"} {
					it := mk("udp", "", "203.0.113.77", addrs4[:4], true, true)
					it.Scn.TrueSpelling = sp
					it.Class += "/enabled-spelled-" + sp
					items = append(items, it)
				}
				it := mk("icmp", "", "2001:db8::77", addrs6[:4], true, true)
				it.Scn.TrueSpelling = "t"
				it.Class += "/enabled-spelled-t"
				items = append(items, it)
			}
			if rdns {
				// private and public IPv6 routers whose addresses agree in their low 32 bits, in both orders, under every
				// completion order of the concurrent lookups the preemption bound allows
				for _, rs := range [][]string{{"2001:db8::1", "fd12:3456::1", "2001:db8:5::1"}, {"fd12:3456::1", "2001:db8::1"}, {"fc00::", "fe00::"}} {
					it := mk("udp", "", "2001:db8::77", rs, http, true)
					it.Scn.Bound = 1
					it.Class += "/routers-sharing-low-address-bits"
					items = append(items, it)
				}
			}
			// a private target: the destination hop itself must be redacted
			items = append(items, mk("udp", "", "10.9.8.7", []string{"198.51.100.1", "10.1.2.3"}, http, rdns))
		}
	}
	// the command-line front end with --skip-private-hops (in-process; send delay fixed at 50 ms)
	for _, rdns := range []bool{false, true} {
		for _, pm := range [][3]string{{"udp", "", "203.0.113.77"}, {"tcp", "syn", "203.0.113.77"}, {"icmp", "", "2001:db8::77"}} {
			routers := addrs4[:4]
			if strings.Contains(pm[2], ":") {
				routers = addrs6[:4]
			}
			it := mk(pm[0], pm[1], pm[2], routers, false, rdns)
			it.Scn.CLI, it.Scn.DelayMs = true, 50
			it.Class = strings.Replace(it.Class, "wire/RunTraceroute/", "wire/cli/", 1)
			items = append(items, it)
		}
	}
	return items
}

func checkWire(it *proto.RTItem, r *proto.RTResult) []proto.Issue {
	if r.Err != nil {
		if it.Scn.CancelAtMs > 0 {
			return nil // reporting the cancellation instead of a result is fine; a result, if any, must be redacted
		}
		return []proto.Issue{{Key: "run-error", Detail: r.Err.Error()}}
	}
	var out []proto.Issue
	routers := it.Scn.RouterAddrs
	for _, run := range r.Res.Traceroute.Runs {
		if len(run.Hops) != len(routers)+1 {
			out = append(out, proto.Issue{Key: "hop-count", Detail: fmt.Sprintf("%d hops, path has %d", len(run.Hops), len(routers)+1)})
			continue
		}
		for i, h := range run.Hops {
			var truth net.IP
			if i < len(routers) {
				truth = net.ParseIP(routers[i])
			} else {
				truth = net.ParseIP(strings.Trim(it.Scn.Hostname, "[]"))
			}
			if h.TTL != i+1 {
				out = append(out, proto.Issue{Key: "ttl-changed", Detail: fmt.Sprint(h.TTL)})
			}
			if isPrivateRef(truth) {
				if len(h.IPAddress) != 0 || h.RTT != 0 || h.Reachable || len(h.ReverseDns) != 0 {
					out = append(out, proto.Issue{Key: "private-hop-not-redacted", Detail: fmt.Sprintf("router %s at ttl %d appears as %+v", truth, h.TTL, *h)})
				}
			} else {
				if !h.IPAddress.Equal(truth) || !h.Reachable || h.RTT <= 0 {
					out = append(out, proto.Issue{Key: "public-hop-altered", Detail: fmt.Sprintf("router %s at ttl %d appears as %+v", truth, h.TTL, *h)})
				}
				if it.Scn.ReverseDNS && len(h.ReverseDns) == 0 {
					out = append(out, proto.Issue{Key: "public-hop-lost-names", Detail: truth.String()})
				}
				// (the scripted resolver names every address "host-<address>.": a public hop carrying any other name carries data
				// derived from another - possibly private - address)
				if want := "host-" + truth.String() + "."; it.Scn.ReverseDNS && len(h.ReverseDns) > 0 && (len(h.ReverseDns) != 1 || h.ReverseDns[0] != want) {
					out = append(out, proto.Issue{Key: "public-hop-carries-names-of-another-address", Detail: fmt.Sprintf("%s has names %v", truth, h.ReverseDns)})
				}
			}
		}
	}
	// (for the HTTP entry the hops above were decoded from the response body itself; the destination block is not a
	// hop entry: the caller named that address, so it is outside the property)
	return out
}

var FW = &proto.RTFamily{ID: "C17", Gen: genWire, SecondEvery: 2}

func init() {
	FW.Check = checkWire
	nChunks := func(tier string) int { return (len(docLists(tier))*4 + chunkSize - 1) / chunkSize }
	count := func(tier string) int { return nChunks(tier) + FW.Count(tier) }
	run := func(tier string, idx int, r *core.ScnResult) {
		nc := nChunks(tier)
		if idx >= nc {
			FW.Run(tier, idx-nc, r)
			return
		}
		syms := symbols()
		dl := docLists(tier)
		r.Nontrivial = true
		for i := idx * chunkSize; i < (idx+1)*chunkSize && i < len(dl)*4; i++ {
			list, rdns, cleanFirst := dl[i/4], i%2 == 1, (i/2)%2 == 1
			before := mkDoc(list, syms, rdns, cleanFirst)
			after := clone(before)
			after.RemovePrivateHops()
			r.Evals++
			k, d := checkRedacted(before, after)
			nPriv := 0
			for _, s := range list {
				if isPrivateRef(syms[s].ip) {
					nPriv++
				}
			}
			r.Outcome(fmt.Sprintf("len%d/priv%d", len(list), nPriv))
			if k != "" {
				var names []string
				for _, s := range list {
					names = append(names, syms[s].name)
				}
				form := "4-byte"
				if strings.Contains(d, "16-byte") || strings.Contains(strings.Join(names, " "), "16-byte") && !strings.Contains(d, "4-byte") {
					form = "16-byte-or-v6"
				}
				r.Fail(core.Failure{Key: "C17 library/" + k + "/" + form, What: d + " ; hops: " + strings.Join(names, " "), Scenario: core.JSON(map[string]any{"hops": list, "rdns": rdns, "clean_first": cleanFirst})})
			}
			if i%4099 == 0 {
				b, _ := json.Marshal(after)
				r.Sample = core.JSON(map[string]any{"hops": list, "redacted": json.RawMessage(b)})
			}
		}
	}
	replay := func(scn json.RawMessage, choices []int) (string, bool) {
		var w struct {
			Hops []int `json:"hops"`
			RDNS bool  `json:"rdns"`
			CF   bool  `json:"clean_first"`
		}
		json.Unmarshal(scn, &w)
		if w.Hops != nil {
			syms := symbols()
			before := mkDoc(w.Hops, syms, w.RDNS, w.CF)
			after := clone(before)
			after.RemovePrivateHops()
			k, d := checkRedacted(before, after)
			if k != "" {
				return fmt.Sprintf("hops %v\nORACLE FAILED: %s: %s\n", w.Hops, k, d), false
			}
			return "oracle: ok\n", true
		}
		return FW.Replay(scn, choices)
	}
	core.Register(&core.Property{ID: "C17", Level: "model_checking",
		Rule: "library: every hop list of length <=2 (thorough <=3) over the 41 symbols {empty; first/last address of 10/8, 172.16/12, 192.168/16 and both public neighbours, each as 4-byte and as 16-byte (IPv4-mapped) form; fc00::/7 first/last and neighbours; one interior address per family}, plus every symbol at every position of a 4-hop document, with and without reverse-DNS names, two runs per document; " +
			"wire: routers carrying those addresses answer real runs (udp/icmp/tcp-syn, IPv4 and IPv6, private target) through RunTraceroute and the HTTP handler with skip-private-hops, with and without enrichment; " +
			"oracle: independent range test on the address bytes; a private hop keeps exactly its TTL and position, public hops are byte-identical, hop count unchanged; distinct = (length, number of private hops) classes",
		Count: count, Run: run, Replay: replay, Exhaustive: true, NeedsNetns: true})
}
