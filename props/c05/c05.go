// Package c05: RTT fidelity. hop RTT = arrival of the first accepted reply - send
// time of that TTL's probe, measured on the virtual clock.
package c05

import (
	"fmt"

	"verif/props/proto"
)

func gen(tier string) []proto.Item {
	var items []proto.Item
	delays := []int{3000, 40000, 310000} // the last one is later than the 300ms timeout: it overtakes the next probe in the serial engine
	cfgs := [][2]int{{300, 10}}
	if tier == "thorough" {
		delays = []int{3000, 17000, 40000, 95000, 260000, 310000}
		cfgs = [][2]int{{300, 10}, {3000, 50}}
	}
	for _, v := range proto.Variants {
		vi := proto.Info(v)
		for _, cfg := range cfgs {
			n := len(delays)
			total := n * n * n * n
			for code := 0; code < total; code++ {
				s := proto.Scn{Variant: v, First: 1, Last: 5, Dest: 4, IPIDBase: 500, EchoBase: 41, TimeoutMs: cfg[0], DelayMs: cfg[1]}
				s.Hops = map[int]proto.HopSpec{}
				c := code
				for t := 1; t <= 4; t++ {
					s.Hops[t] = proto.HopSpec{DelayUs: delays[c%n]}
					c /= n
				}
				items = append(items, proto.Item{Scn: s, Class: fmt.Sprintf("%s/t%d-d%d/delay-assignment", v, cfg[0], cfg[1])})
			}
			// a duplicate of each reply with a strictly larger delay; overtaking pairs
			for t := 1; t <= 4; t++ {
				for _, extra := range []int{30000, 120000} {
					s := proto.Scn{Variant: v, First: 1, Last: 5, Dest: 4, IPIDBase: 500, EchoBase: 41, TimeoutMs: cfg[0], DelayMs: cfg[1]}
					form := vi.TEForm
					if t == 4 {
						form = vi.DestForm
					}
					from := ""
					if t < 4 {
						from = proto.Router(vi.V6, 0, t).String()
					} else {
						from = s.Target().String()
					}
					s.Inject = []proto.Inject{{OnTTL: t, AnswerTTL: t, Form: form, From: from, DelayUs: proto.DefaultDelayUs(t) + extra, Tag: "late-duplicate", Genuine: true}}
					items = append(items, proto.Item{Scn: s, Class: fmt.Sprintf("%s/t%d-d%d/duplicate-with-larger-delay", v, cfg[0], cfg[1])})
				}
			}
		}
	}
	return items
}

func check(it *proto.Item, r *proto.Result) []proto.Issue {
	if r.Obs[0].Err != nil {
		return []proto.Issue{{Key: "run-error", Detail: r.Obs[0].Err.Error()}}
	}
	return proto.RTT(&it.Scn, r, 0)
}

var F = &proto.Family{ID: "C05", Gen: gen, Check: check, OutcomeKey: func(r *proto.Result) string { return r.Summary() }, Bound: func(tier string) int {
	if tier == "thorough" {
		return 2
	}
	return 1
}}

func init() {
	F.Register("model_checking",
		"item = (variant, timeout/send-delay configuration, assignment of a delay from the alphabet to each of 3 router hops and the destination (all |A|^4 assignments, non-monotone and overtaking included) | a duplicate of each reply with a strictly larger delay); "+
			"executed on the virtual clock; oracle: reported RTT = (arrival of the first genuine reply for that TTL from that address) - (instant the TTL's probe was handed to the sink), within the read cost, never negative, never measured against another probe's send time; distinct = distinct hop lists",
		[]string{"clock-advance deviations are off: the property is stated on a clock where computation takes no time"})
}
