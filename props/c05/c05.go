// Package c05: RTT fidelity. hop RTT = arrival of the first accepted reply - send
// time of that TTL's probe, measured on the virtual clock.
package c05

import (
	"encoding/json"
	"fmt"
	"strings"

	"verif/props/proto"
	"verif/simnet"
)

func gen(tier string) []proto.Item {
	var items []proto.Item
	// -1 = no latency at all (the reply is on the capture handle when the send call returns); the last one is later than the
	// 300ms timeout: it overtakes the next probe in the serial engine
	delays := []int{-1, 3000, 40000, 310000}
	cfgs := [][2]int{{300, 10}}
	if tier == "thorough" {
		delays = []int{-1, 3000, 17000, 40000, 95000, 260000, 310000}
		cfgs = [][2]int{{300, 10}, {3000, 50}}
	}
	for _, v := range proto.Variants {
		vi := proto.Info(v)
		for _, cfg := range cfgs {
			n := len(delays)
			total := n * n * n * n
			for code := 0; code < total; code++ {
				s := proto.Scn{Variant: v, First: 1, Last: 5, Dest: 4, IPIDBase: 500, EchoBase: 41, TimeoutMs: cfg[0], DelayMs: cfg[1]}
				s.Hops = map[int]proto.HopSpec{}
				c := code
				for t := 1; t <= 4; t++ {
					s.Hops[t] = proto.HopSpec{DelayUs: delays[c%n]}
					c /= n
				}
				items = append(items, proto.Item{Scn: s, Class: fmt.Sprintf("%s/t%d-d%d/delay-assignment", v, cfg[0], cfg[1])})
			}
			// a first TTL above 1 (the probe of TTL t is no longer the t-th probe sent): every hop is still timed against its own probe
			for _, first := range []int{3, 12} {
				ds := []int{3000, 95000}
				for code := 0; code < 16; code++ {
					s := proto.Scn{Variant: v, First: first, Last: first + 4, Dest: first + 3, IPIDBase: 500, EchoBase: 41, TimeoutMs: cfg[0], DelayMs: cfg[1]}
					s.Hops = map[int]proto.HopSpec{}
					c := code
					for t := first; t <= first+3; t++ {
						s.Hops[t] = proto.HopSpec{DelayUs: ds[c%2]}
						c /= 2
					}
					items = append(items, proto.Item{Scn: s, Class: fmt.Sprintf("%s/t%d-d%d/first-ttl-%d/delay-assignment", v, cfg[0], cfg[1], first)})
				}
			}
			// a duplicate of each reply with a strictly larger delay; overtaking pairs
			for t := 1; t <= 4; t++ {
				for _, extra := range []int{30000, 120000} {
					s := proto.Scn{Variant: v, First: 1, Last: 5, Dest: 4, IPIDBase: 500, EchoBase: 41, TimeoutMs: cfg[0], DelayMs: cfg[1]}
					form := vi.TEForm
					if t == 4 {
						form = vi.DestForm
					}
					from := ""
					if t < 4 {
						from = proto.Router(vi.V6, 0, t).String()
					} else {
						from = s.Target().String()
					}
					s.Inject = []proto.Inject{{OnTTL: t, AnswerTTL: t, Form: form, From: from, DelayUs: proto.DefaultDelayUs(t) + extra, Tag: "late-duplicate", Genuine: true}}
					items = append(items, proto.Item{Scn: s, Class: fmt.Sprintf("%s/t%d-d%d/duplicate-with-larger-delay", v, cfg[0], cfg[1])})
				}
			}
		}
	}
	// the reply to a concurrent run's probe of the same TTL (same responder, same per-probe identifier, the neighbouring
	// flow: source port / echo identifier + 1) reaches this run's capture handle well before the reply to its own probe:
	// the hop's round-trip time is still measured to its own reply. Strict variants (the relaxed ones do not compare flows).
	for _, v := range proto.Variants {
		vi := proto.Info(v)
		if vi.Relaxed {
			continue
		}
		for _, t := range []int{2, 4} {
			s := proto.Scn{Variant: v, First: 1, Last: 5, Dest: 4, IPIDBase: 500, EchoBase: 41, TimeoutMs: 300, DelayMs: 10}
			s.Hops = map[int]proto.HopSpec{t: {DelayUs: 60000}}
			form, from, field := vi.TEForm, proto.Router(vi.V6, 0, t).String(), "q.sport"
			if vi.Kind == "icmp4" || vi.Kind == "icmp6" {
				field = "q.echoid"
			}
			if t == 4 {
				form, from = vi.DestForm, s.Target().String()
				switch vi.Kind {
				case "icmp4", "icmp6":
					field = "echo.id"
				case "tcp", "tcpparis", "sack":
					field = "tcp.dport"
				}
			}
			s.Inject = []proto.Inject{{OnTTL: t, AnswerTTL: t, Form: form, From: from, DelayUs: 2000, Perturb: &simnet.Perturb{Field: field, Op: "+1"}, Tag: "neighbouring-flows-reply"}}
			items = append(items, proto.Item{Scn: s, Class: fmt.Sprintf("%s/neighbouring-flows-reply-first/ttl%d", v, t)})
		}
	}
	// one probe, two fates: a copy of the probe with TTL d reaches the destination (its answer comes first), another copy
	// expires at the router before it, whose time-exceeded for the same probe arrives later: the hop keeps the first
	// accepted reply and its round-trip time
	for _, v := range proto.Variants {
		vi := proto.Info(v)
		if !vi.Parallel {
			continue
		}
		for _, d := range []int{3, 4} {
			s := proto.Scn{Variant: v, First: 1, Last: 5, Dest: d, IPIDBase: 500, EchoBase: 41, TimeoutMs: 300, DelayMs: 10}
			s.Inject = []proto.Inject{{OnTTL: d, AnswerTTL: d, Form: vi.TEForm, From: proto.Router(vi.V6, 0, d).String(), DelayUs: proto.DefaultDelayUs(d) + 30000, Tag: "router-after-destination", Genuine: true}}
			items = append(items, proto.Item{Scn: s, Class: fmt.Sprintf("%s/router-reply-after-the-destinations-for-one-ttl/d%d", v, d)})
		}
	}
	// the wall clock is stepped (an hour forward, an hour back) while replies are outstanding - NTP, `date -s`, a resumed
	// VM -; the monotonic clock runs on: round-trip times are elapsed times and do not move
	for _, v := range proto.Variants {
		for _, sec := range []int{3600, -3600} {
			for _, at := range []int{1, 13} {
				s := proto.Scn{Variant: v, First: 1, Last: 5, Dest: 4, IPIDBase: 500, EchoBase: 41, TimeoutMs: 300, DelayMs: 10, WallStepSec: sec, WallStepAtMs: at}
				items = append(items, proto.Item{Scn: s, Class: fmt.Sprintf("%s/wall-clock-stepped-%+ds", v, sec)})
			}
		}
	}
	// the send call of probe k takes 15 ms (the socket waits for buffer space); the reply to probe k-1 arrives in the
	// middle of that call: its round-trip time does not include the rest of the other probe's send
	for _, v := range proto.Variants {
		for _, k := range []int{2, 3} {
			s := proto.Scn{Variant: v, First: 1, Last: 5, Dest: 4, IPIDBase: 500, EchoBase: 41, TimeoutMs: 300, DelayMs: 10}
			s.Hops = map[int]proto.HopSpec{k - 1: {DelayUs: 13000}}
			s.Faults = []simnet.Fault{{Op: "WriteTo", K: k, Class: "stall"}}
			items = append(items, proto.Item{Scn: s, Class: fmt.Sprintf("%s/reply-arrives-during-the-next-probes-slow-send/k%d", v, k)})
		}
	}
	// serial engine: the destination's answer to one probe arrives after that probe's window has closed, inside the next
	// probe's window and before the next probe's own answer: whatever is reported for the next TTL is timed against its own probe
	for _, v := range proto.Variants {
		if proto.Info(v).Parallel {
			continue
		}
		for _, late := range []int{330000, 360000} {
			s := proto.Scn{Variant: v, First: 1, Last: 5, Dest: 3, IPIDBase: 500, EchoBase: 41, TimeoutMs: 300, DelayMs: 10}
			s.Hops = map[int]proto.HopSpec{3: {DelayUs: late}, 4: {DelayUs: 95000}, 5: {DelayUs: 95000}}
			items = append(items, proto.Item{Scn: s, Class: fmt.Sprintf("%s/destination-answer-arrives-in-the-next-probes-window/%dms", v, late/1000)})
		}
	}
	// the write of probe k is refused once (a transient send failure): the run may fail - but if it goes on and reports the
	// hop, the hop's time is measured from the moment its probe was really put on the wire
	for _, v := range proto.Variants {
		for _, k := range []int{1, 2, 3} {
			s := proto.Scn{Variant: v, First: 1, Last: 5, Dest: 4, IPIDBase: 500, EchoBase: 41, TimeoutMs: 500, DelayMs: 10}
			s.Faults = []simnet.Fault{{Op: "WriteTo", K: k, Class: "fatal"}}
			items = append(items, proto.Item{Scn: s, Class: fmt.Sprintf("%s/write-of-probe-%d-refused-once", v, k), Note: map[string]string{"error_ok": "1"}})
		}
	}
	items = append(items, ForwardReorder(tier, 500, 41)...)
	return items
}

// ForwardReorder: SACK probes overtaking each other on the way to the target. Probes 5, 6, 7 reach the target in every
// order; the target's scoreboard (and hence the SACK blocks of each duplicate ACK) follows the arrival order; the initial
// sequence number is ordinary or places the 2^32 wrap at each of the three probes.
func ForwardReorder(tier string, ipid, echo uint32) []proto.Item {
	var items []proto.Item
	inits := []uint32{0x2000, 0xfffffffa}
	if tier == "thorough" {
		inits = []uint32{0x2000, 0xfffffff8, 0xfffffff9, 0xfffffffa, 0xfffffffb}
	}
	perms := [][3]int{{0, 1, 2}, {0, 2, 1}, {1, 0, 2}, {1, 2, 0}, {2, 0, 1}, {2, 1, 0}}
	for _, v := range proto.Variants {
		if proto.Info(v).Kind != "sack" {
			continue
		}
		for _, a := range inits {
			for _, p := range perms {
				for _, gap := range []int{15000, 150000} {
					s := proto.Scn{Variant: v, First: 1, Last: 7, Dest: 5, IPIDBase: ipid, EchoBase: echo, TimeoutMs: 500, DelayMs: 10}
					s.SynAck = &simnet.SynAckSpec{Enabled: true, ISN: 0x99, AckNum: a, SackPermitted: true}
					s.Hops = map[int]proto.HopSpec{}
					for k := 0; k < 3; k++ {
						// probe 5+k is sent 10k ms after probe 5 and reaches the target at 40ms + rank*gap
						s.Hops[5+k] = proto.HopSpec{ForwardDelayUs: 40000 + p[k]*gap - k*10000, DelayUs: 4000}
					}
					items = append(items, proto.Item{Scn: s, Class: fmt.Sprintf("%s/forward-reorder/init-%x", v, a), Note: map[string]string{"want_len": "5"}})
					if gap == 15000 {
						// the same with the middle probe lost on the way: the hole between 5 and 7 never fills, every
						// duplicate ACK carries two blocks
						s2 := s
						s2.Hops = map[int]proto.HopSpec{5: s.Hops[5], 6: {Silent: true}, 7: s.Hops[7]}
						items = append(items, proto.Item{Scn: s2, Class: fmt.Sprintf("%s/forward-reorder/middle-probe-lost/init-%x", v, a), Note: map[string]string{"want_len": "5"}})
					}
				}
			}
		}
	}
	return items
}

func check(it *proto.Item, r *proto.Result) []proto.Issue {
	if r.Obs[0].Err != nil {
		if it.Note["error_ok"] != "" {
			return nil
		}
		return []proto.Issue{{Key: "run-error", Detail: r.Obs[0].Err.Error()}}
	}
	return proto.RTT(&it.Scn, r, 0)
}

var F = &proto.Family{ID: "C05", Gen: gen, Check: check, OutcomeKey: func(r *proto.Result) string { return r.Summary() }, Bound: func(tier string) int {
	if tier == "thorough" {
		return 2
	}
	return 1
}}

// ---- the end-to-end probe: its RTT is the destination hop's RTT, 0 = the destination did not answer -----------

func genE2e(tier string) []proto.RTItem {
	var items []proto.RTItem
	for _, pr := range []struct{ p, m, h string }{{"icmp", "", "203.0.113.77"}, {"tcp", "syn", "203.0.113.77"}, {"udp", "", "203.0.113.77"}, {"icmp", "", "2001:db8::77"}, {"udp", "", "2001:db8::77"}} {
		for _, world := range []string{"destination-answers", "time-exceeded-from-the-target-address", "silence", "unreachable-from-a-router-in-front", "destination-answers-then-a-router-for-the-same-probe"} {
			r := proto.RTScn{Hostname: pr.h, Protocol: pr.p, Method: pr.m, MinTTL: 1, MaxTTL: 4, DelayMs: 10, TimeoutMs: 100, Queries: 1, E2e: 2, Dest: 3, IPIDBase: 500, EchoBase: 41, WantV6: strings.Contains(pr.h, ":")}
			te := "te28"
			if r.WantV6 {
				te = "teFull"
			}
			switch world {
			case "time-exceeded-from-the-target-address":
				r.Hops = map[int]proto.HopSpec{4: {Form: te, AtTarget: true}}
			case "silence":
				r.Hops = map[int]proto.HopSpec{4: {Silent: true}}
			case "destination-answers-then-a-router-for-the-same-probe":
				// one probe, two fates: a copy reaches the destination, whose answer comes first; another copy expires at the
				// router before it, whose time-exceeded for the same probe comes 30 ms later: the destination has answered
				r.Inject = []proto.Inject{{OnTTL: 4, AnswerTTL: 4, Form: te, From: proto.Router(r.WantV6, 0, 3).String(), DelayUs: proto.DefaultDelayUs(4) + 30000, Tag: "router-after-destination", Genuine: true}}
			case "unreachable-from-a-router-in-front":
				// the destination never answers; the router in front of it reports host unreachable / administratively
				// prohibited, quoting the probe: no answer from the destination, the sample is 0
				r.Hops = map[int]proto.HopSpec{4: {Form: "duHost", From: proto.Router(r.WantV6, 0, 9).String()}, 3: {Form: "duAdmin", From: proto.Router(r.WantV6, 0, 9).String()}}
			}
			fam := ""
			if r.WantV6 {
				fam = "6"
			}
			items = append(items, proto.RTItem{Scn: r, Class: fmt.Sprintf("e2e-probe/%s%s-%s/%s", pr.p, fam, pr.m, world), Note: map[string]string{"world": world}})
		}
	}
	return items
}

var E2E = &proto.RTFamily{ID: "C05", Gen: genE2e, Check: func(it *proto.RTItem, r *proto.RTResult) []proto.Issue {
	if r.Err != nil {
		return []proto.Issue{{Key: "request-failed", Detail: r.Err.Error()}}
	}
	rtts := r.Res.E2eProbe.RTTs
	if len(rtts) != it.Scn.E2e {
		return []proto.Issue{{Key: "sample-count", Detail: fmt.Sprint(rtts)}}
	}
	// does the reply the target gives to the probe with TTL = MaxTTL prove arrival for this protocol?
	proves := false
	switch it.Note["world"] {
	case "destination-answers", "destination-answers-then-a-router-for-the-same-probe":
		proves = true
	case "time-exceeded-from-the-target-address":
		proves = it.Scn.Protocol == "udp" // any matched ICMP error from the target proves arrival for UDP only
	}
	want := float64(proto.DefaultDelayUs(it.Scn.MaxTTL)) / 1000
	var out []proto.Issue
	for i, v := range rtts {
		switch {
		case !proves && v != 0:
			out = append(out, proto.Issue{Key: "rtt-although-the-destination-did-not-answer", Detail: fmt.Sprintf("sample %d = %.3f ms, world: %s", i, v, it.Note["world"])})
		case proves && (v < want-0.05 || v > want+0.5):
			out = append(out, proto.Issue{Key: "rtt-is-not-the-destination-reply's", Detail: fmt.Sprintf("sample %d = %.3f ms, the destination's reply took %.3f ms", i, v, want)})
		}
	}
	return out
}, Bound: func(string) int { return 0 }}

func init() {
	F.ExtraCount = E2E.Count
	F.ExtraRun = E2E.Run
	F.ExtraReplay = func(scn json.RawMessage, choices []int) (string, bool, bool) {
		var w struct {
			RT json.RawMessage `json:"rt"`
		}
		if json.Unmarshal(scn, &w); w.RT == nil {
			return "", false, false
		}
		s, ok := E2E.Replay(scn, choices)
		return s, ok, true
	}
	F.Register("model_checking",
		"item = (variant, timeout/send-delay configuration, assignment of a delay from the alphabet to each of 3 router hops and the destination (all |A|^4 assignments, non-monotone and overtaking included) | a duplicate of each reply with a strictly larger delay); "+
			"executed on the virtual clock; oracle: reported RTT = (arrival of the first genuine reply for that TTL from that address) - (instant the TTL's probe was handed to the sink), within the read cost, never negative, never measured against another probe's send time; distinct = distinct hop lists",
		[]string{"clock-advance deviations are off: the property is stated on a clock where computation takes no time"})
}
