// Package c10: failure atomicity, cause-preserving errors, handles closed exactly once.
package c10

import (
	"encoding/json"
	"errors"
	"fmt"
	"os"
	"sync"

	"verif/props/core"
	"verif/props/proto"
	"verif/simnet"
)

var ops = []string{"NewSink", "NewSource", "SetPacketFilter", "SetReadDeadline", "Read", "WriteTo", "SinkClose", "SourceClose"}

func classesFor(op string) []string {
	if op == "Read" {
		return []string{"fatal", "deadline", "zero", "fatal-data", "fatal-etimedout"}
	}
	if op == "SinkClose" || op == "SourceClose" {
		return []string{"close-fails"}
	}
	// a failure whose error is also of the timeout kind (a send / setsockopt that times out) is still a failure
	return []string{"fatal", "fatal-timeout"}
}

func base(v string, dest int) proto.Scn {
	return proto.Scn{Variant: v, First: 1, Last: 4, Dest: dest, IPIDBase: 1000, EchoBase: 101, TimeoutMs: 300, DelayMs: 10}
}

func gen(tier string) []proto.Item {
	var items []proto.Item
	for _, v := range proto.Variants {
		for _, dest := range []int{3, 0} {
			if tier != "thorough" && dest == 0 && proto.Info(v).Relaxed && v != "sack" {
				continue
			}
			for _, op := range ops {
				for _, cl := range classesFor(op) {
					s := base(v, dest)
					s.Faults = []simnet.Fault{{Op: op, K: -1, Class: cl}}
					items = append(items, proto.Item{Scn: s, Class: fmt.Sprintf("%s/dest-%d/%s/%s", v, dest, op, cl)})
					if dest == 3 && op == "WriteTo" && cl == "fatal" {
						// a send call that fails only after having waited 15ms, while the reply to an earlier probe - from the
						// destination, 12ms after that probe - is read and processed: the failure is still the run's outcome
						s3 := base(v, 1)
						s3.Hops = map[int]proto.HopSpec{1: {DelayUs: 12000}, 2: {DelayUs: 12000}}
						s3.Faults = []simnet.Fault{{Op: op, K: -1, Class: "fatal-slow"}}
						items = append(items, proto.Item{Scn: s3, Class: fmt.Sprintf("%s/dest-1/slow-reply/%s/fatal-slow", v, op)})
					}
					if dest == 3 && (op == "Read" || op == "SetReadDeadline") {
						// a hop that stays silent: its listening window is polled until it runs out, so "the k-th call" also
						// covers the poll during which the window expires
						s2 := base(v, dest)
						s2.Hops = map[int]proto.HopSpec{2: {Silent: true}}
						s2.Faults = []simnet.Fault{{Op: op, K: -1, Class: cl}}
						items = append(items, proto.Item{Scn: s2, Class: fmt.Sprintf("%s/dest-%d/silent-hop/%s/%s", v, dest, op, cl)})
					}
				}
			}
		}
	}
	return items
}

var (
	mu    sync.Mutex
	bases = map[string]string{}
)

func baseline(it *proto.Item) string {
	b := it.Scn
	b.Faults = nil
	k := fmt.Sprintf("%s/%d/%v", b.Variant, b.Dest, b.Hops)
	mu.Lock()
	defer mu.Unlock()
	if v, ok := bases[k]; ok {
		return v
	}
	r := F.RunPlain(&proto.Item{Scn: b})
	v := "error"
	if r.Obs[0].Err == nil {
		v = proto.HopsKey(proto.Hops(r.Obs[0].Run))
	}
	bases[k] = v
	return v
}

func check(it *proto.Item, r *proto.Result) []proto.Issue {
	var out []proto.Issue
	o := r.Obs[0]
	n := r.Net
	cl := it.Scn.Faults[0].Class
	where := ""
	if len(n.InjectedAt) > 0 {
		c := n.InjectedAt[0]
		where = fmt.Sprintf("fault %s at call #%d of %s", cl, c.K, c.Op)
	}
	fired := n.Injected > 0
	want := baseline(it)
	if !fired {
		if o.Err != nil {
			out = append(out, proto.Issue{Key: "error-without-fault", Detail: o.Err.Error()})
		} else if got := proto.HopsKey(proto.Hops(o.Run)); got != want {
			out = append(out, proto.Issue{Key: "result-differs-without-fault", Detail: got + " vs " + want})
		}
	} else {
		switch cl {
		case "fatal", "fatal-timeout", "fatal-slow", "fatal-data", "fatal-etimedout":
			if o.Err == nil {
				out = append(out, proto.Issue{Key: "failure-swallowed", Detail: fmt.Sprintf("%s: the run returned success with hops %s", where, proto.HopsString(proto.Hops(o.Run)))})
			} else {
				if !errors.Is(o.Err, simnet.ErrInjected) {
					out = append(out, proto.Issue{Key: "cause-not-wrapped", Detail: fmt.Sprintf("%s: error %q does not wrap the injected cause", where, o.Err)})
				}
				if o.Run != nil {
					out = append(out, proto.Issue{Key: "result-with-error", Detail: where})
				}
			}
		case "close-fails":
			// a Close that reports an error: whether the run then fails is not stated; it must not return both, a success must
			// be the fault-free result, and every OTHER handle is still closed exactly once (checked below for all handles)
			if o.Err == nil {
				if got := proto.HopsKey(proto.Hops(o.Run)); got != want {
					out = append(out, proto.Issue{Key: "partial-result-as-success", Detail: fmt.Sprintf("%s: %s, fault-free run: %s", where, got, want)})
				}
			} else if o.Run != nil {
				out = append(out, proto.Issue{Key: "result-with-error", Detail: where})
			}
		case "zero":
			if o.Err == nil {
				out = append(out, proto.Issue{Key: "failure-swallowed", Detail: fmt.Sprintf("%s: the run returned success with hops %s", where, proto.HopsString(proto.Hops(o.Run)))})
			} else if o.Run != nil {
				out = append(out, proto.Issue{Key: "result-with-error", Detail: where})
			}
		case "deadline":
			// a spurious "no packet yet": either the run succeeds with the fault-free result, or (handshake) fails cleanly
			if o.Err == nil {
				if got := proto.HopsKey(proto.Hops(o.Run)); got != want {
					out = append(out, proto.Issue{Key: "partial-result-as-success", Detail: fmt.Sprintf("%s: %s, fault-free run: %s", where, got, want)})
				}
			} else if o.Run != nil {
				out = append(out, proto.Issue{Key: "result-with-error", Detail: where})
			} else if errors.Is(o.Err, os.ErrDeadlineExceeded) == false && it.Scn.Variant != "sack" && it.Scn.Variant != "sackstrict" {
				out = append(out, proto.Issue{Key: "deadline-became-fatal", Detail: fmt.Sprintf("%s: %v", where, o.Err)})
			}
		}
	}
	// handles: closed exactly once, never used after close
	for _, s := range n.Sinks {
		if s.Closes != 1 {
			out = append(out, proto.Issue{Key: fmt.Sprintf("sink-closed-%d-times", s.Closes), Detail: where})
		}
		if s.UseAfterClose > 0 {
			out = append(out, proto.Issue{Key: "sink-used-after-close", Detail: where})
		}
	}
	for _, s := range n.Sources {
		if s.Closes != 1 {
			out = append(out, proto.Issue{Key: fmt.Sprintf("source-closed-%d-times", s.Closes), Detail: where})
		}
		if s.UseAfterClose > 0 {
			out = append(out, proto.Issue{Key: "source-used-after-close", Detail: where})
		}
	}
	if o.ThreadsLeft > 0 {
		out = append(out, proto.Issue{Key: "goroutine-outlives-call", Detail: fmt.Sprintf("%s: %d threads still running when the entry point returned", where, o.ThreadsLeft)})
	}
	if r.FDsAfter > r.FDsBefore {
		out = append(out, proto.Issue{Key: "descriptor-leak", Detail: fmt.Sprintf("%s: %d descriptors before, %d after", where, r.FDsBefore, r.FDsAfter)})
	}
	return out
}

var F = &proto.Family{ID: "C10", Gen: gen, Bound: func(tier string) int {
	if tier == "thorough" {
		return 3
	}
	return 2
}}

// ---- whole requests: nothing started on behalf of a request outlives the call -------------------------------

func genRT(tier string) []proto.RTItem {
	var items []proto.RTItem
	for _, pr := range []struct{ p, m string }{{"udp", ""}, {"tcp", "syn"}, {"icmp", ""}} {
		for _, pub := range []string{"", "ok", "fail", "slow"} {
			for _, f := range [][]simnet.Fault{nil, {{Op: "WriteTo", K: -1, Class: "fatal"}}, {{Op: "NewSource", K: -1, Class: "fatal"}}} {
				r := proto.RTScn{Hostname: "203.0.113.77", Protocol: pr.p, Method: pr.m, MinTTL: 1, MaxTTL: 4, DelayMs: 10, TimeoutMs: 100, Queries: 2, E2e: 1, Dest: 3,
					IPIDBase: 1000, EchoBase: 101, Faults: f, PublicIP: pub, ReverseDNS: pub == "ok"}
				name := "no-fault"
				if f != nil {
					name = "fault-" + f[0].Op
				}
				items = append(items, proto.RTItem{Scn: r, Class: fmt.Sprintf("request/%s-%s/public-ip-%s/%s", pr.p, pr.m, map[string]string{"": "off"}[pub]+pub, name)})
			}
		}
	}
	// the SACK methods, handshake included: a fault on the capture handle or the sink at any call of the request - also
	// during the handshake, before the engine starts - is the request's outcome; prefer_sack does not turn it into
	// "selective acknowledgement not supported" and answer with a SYN trace instead
	for _, m := range []string{"sack", "prefer_sack"} {
		for _, f := range []simnet.Fault{{Op: "Read", K: -1, Class: "fatal"}, {Op: "Read", K: -1, Class: "zero"}, {Op: "SetReadDeadline", K: -1, Class: "fatal"}, {Op: "WriteTo", K: -1, Class: "fatal"}, {Op: "SetPacketFilter", K: -1, Class: "fatal"}} {
			r := proto.RTScn{Hostname: "198.18.0.9", Protocol: "tcp", Method: m, MinTTL: 1, MaxTTL: 4, DelayMs: 10, TimeoutMs: 100, Queries: 1, E2e: 0, Dest: 3, UseListenerPort: true,
				IPIDBase: 1000, EchoBase: 101, Faults: []simnet.Fault{f}}
			items = append(items, proto.RTItem{Scn: r, Class: fmt.Sprintf("request/tcp-%s/fault-%s-%s", m, f.Op, f.Class)})
		}
	}
	// the SACK methods against a target the connect to which fails - the port is closed (refused at once), the SYN is
	// swallowed (the connect times out) -, and against one that completes the handshake without SACK: whatever the request
	// answers (an error for `sack`, a SYN trace for `prefer_sack`), every handle it opened is closed once
	for _, m := range []string{"sack", "prefer_sack"} {
		for _, c := range []string{"closed", "syn-dropped", "no-sack-permitted", "no-handshake"} {
			r := proto.RTScn{Hostname: "198.18.0.9", Protocol: "tcp", Method: m, MinTTL: 1, MaxTTL: 4, DelayMs: 10, TimeoutMs: 100, Queries: 1, E2e: 0, Dest: 3, UseListenerPort: true,
				IPIDBase: 1000, EchoBase: 101, Capability: c}
			items = append(items, proto.RTItem{Scn: r, Class: fmt.Sprintf("request/tcp-%s/target-%s", m, c), Note: map[string]string{"may_fail": "1"}})
		}
	}
	// a platform whose handle asks the run to close its port reservation (the Windows raw-socket handle; the SACK variant
	// is not available there): whatever the request answers, every handle it opened is closed once
	for _, pr := range []struct{ p, m, h string }{{"udp", "", "203.0.113.77"}, {"tcp", "syn", "203.0.113.77"}, {"tcp", "sack", "198.18.0.9"}, {"tcp", "prefer_sack", "198.18.0.9"}} {
		r := proto.RTScn{Hostname: pr.h, Protocol: pr.p, Method: pr.m, MinTTL: 1, MaxTTL: 4, DelayMs: 10, TimeoutMs: 100, Queries: 1, E2e: 1, Dest: 3, UseListenerPort: pr.h == "198.18.0.9",
			IPIDBase: 1000, EchoBase: 101, MustClosePort: true}
		items = append(items, proto.RTItem{Scn: r, Class: fmt.Sprintf("request/%s-%s/handle-must-close-port", pr.p, pr.m), Note: map[string]string{"may_fail": "1"}})
	}
	// a request the variant cannot serve (TCP SYN to an IPv6 target): whatever it answers, every handle it opened is closed once
	for _, m := range []string{"syn", "sack", "prefer_sack"} {
		r := proto.RTScn{Hostname: "2001:db8::77", Protocol: "tcp", Method: m, MinTTL: 1, MaxTTL: 4, DelayMs: 10, TimeoutMs: 100, Queries: 1, E2e: 1, Dest: 3, IPIDBase: 1000, EchoBase: 101, WantV6: true}
		items = append(items, proto.RTItem{Scn: r, Class: fmt.Sprintf("request/tcp-%s/ipv6-target", m), Note: map[string]string{"may_fail": "1"}})
	}
	return items
}

var RF = &proto.RTFamily{ID: "C10", Gen: genRT, Check: func(it *proto.RTItem, r *proto.RTResult) []proto.Issue {
	var out []proto.Issue
	if r.Net.Injected > 0 {
		if r.Err == nil {
			out = append(out, proto.Issue{Key: "failure-swallowed", Detail: r.Summary()})
		} else if !errors.Is(r.Err, simnet.ErrInjected) && !(len(it.Scn.Faults) > 0 && it.Scn.Faults[0].Class == "zero") {
			// (a zero-length read is not an error value: the failure is the implementation's own, there is no cause to wrap)
			out = append(out, proto.Issue{Key: "cause-not-wrapped", Detail: r.Err.Error()})
		}
		if r.Err != nil && r.Res != nil {
			out = append(out, proto.Issue{Key: "result-with-error", Detail: ""})
		}
	} else if r.Err != nil && it.Note["may_fail"] == "" {
		out = append(out, proto.Issue{Key: "error-without-fault", Detail: r.Err.Error()})
	}
	if r.ThreadsLeft > 0 {
		out = append(out, proto.Issue{Key: "goroutine-outlives-call", Detail: fmt.Sprintf("%d threads still running when RunTraceroute returned (err=%v)", r.ThreadsLeft, r.Err)})
	}
	for _, s := range r.Net.Sinks {
		if s.Closes != 1 {
			out = append(out, proto.Issue{Key: fmt.Sprintf("sink-closed-%d-times", s.Closes), Detail: ""})
		}
	}
	for _, s := range r.Net.Sources {
		if s.Closes != 1 {
			out = append(out, proto.Issue{Key: fmt.Sprintf("source-closed-%d-times", s.Closes), Detail: ""})
		}
	}
	return out
}, Bound: func(string) int { return 1 }}

func init() {
	F.ExtraCount = func(tier string) int { return RF.Count(tier) + len(sinkCases) }
	F.ExtraRun = func(tier string, idx int, r *core.ScnResult) {
		if n := RF.Count(tier); idx >= n {
			runSinkScn(idx-n, r)
			return
		}
		RF.Run(tier, idx, r)
	}
	F.ExtraReplay = func(scn json.RawMessage, choices []int) (string, bool, bool) {
		if s, ok, mine := replaySink(scn); mine {
			return s, ok, true
		}
		var w struct {
			RT json.RawMessage `json:"rt"`
		}
		if json.Unmarshal(scn, &w); w.RT == nil {
			return "", false, false
		}
		s, ok := RF.Replay(scn, choices)
		return s, ok, true
	}
	F.Check = check
	F.Register("fault_enumeration",
		"item = (variant, network answering / silent, operation in {sink constructor, source constructor, SetPacketFilter, SetReadDeadline, Read, WriteTo}, error class {fatal; for Read also deadline and zero-length}); "+
			"the fault position is an enumerated choice: at every call of the operation reached by the run, 'fail this call' is an alternative the explorer takes once (all k reachable, incl. the second SACK filter and the handshake reads), plus the fault-free execution; "+
			"oracle: fatal fault => (nil, error wrapping the injected cause), never a partial path as success; every constructed handle closed exactly once and never used after close; no managed thread alive when the entry point returns; open descriptors back to the pre-run count; distinct = distinct hop lists",
		[]string{"a failing Close still releases the descriptor (close(2)); what the run returns then is not stated, only consistency and that every other handle is closed exactly once", "deadline class: os.ErrDeadlineExceeded means 'no packet yet' by the Source contract; only result consistency / close-once / no-leak are required (DESIGN.md §6.3)"})
}
