package c10

// The real Linux sink (packets.sinkLinux) sits below the seam the simulated wire replaces, so a fault injected through the
// simulated sink never runs its code. This component drives the real WriteTo over unprivileged datagram sockets and makes
// the kernel itself refuse the send: a datagram larger than any UDP datagram (EMSGSIZE), a socket closed under the sink,
// an unreachable destination where the sandbox has no route (ENETUNREACH, judged only if it
// occurs). Oracle: a refused send is an error that wraps the kernel's errno; an accepted send is nil. The engine on top
// (common.TracerouteParallel over a driver that sends through this sink) then fails the run with that cause.

import (
	"encoding/json"
	"errors"
	"fmt"
	"net/netip"
	"syscall"

	"github.com/DataDog/datadog-traceroute/packets"

	"verif/props/core"
)

type sinkCase struct {
	Name string `json:"real_sink_case"`
}

var sinkCases = []sinkCase{{"accepted-send"}, {"datagram-too-large"}, {"no-route"}, {"closed-socket"}}

func udpSocket() (int, error) {
	return syscall.Socket(syscall.AF_INET, syscall.SOCK_DGRAM|syscall.SOCK_NONBLOCK|syscall.SOCK_CLOEXEC, 0)
}

// runSinkCase returns (finding key, detail); "" = fine or not judgeable here.
func runSinkCase(c sinkCase) (string, string) {
	fd, err := udpSocket()
	if err != nil {
		return "", ""
	}
	sink, err := packets.VerifSinkLinuxFromFD(fd)
	if err != nil {
		syscall.Close(fd)
		return "", ""
	}
	defer sink.Close()
	dst := netip.MustParseAddrPort("127.0.0.1:9")
	small := []byte("probe")
	var want syscall.Errno
	var got error
	switch c.Name {
	case "accepted-send":
		// (the sink addresses its packets without a port, which a UDP socket refuses: an unprivileged ICMP datagram socket
		// takes an echo request to the loopback; where such sockets are not permitted there is nothing to judge)
		pfd, err := syscall.Socket(syscall.AF_INET, syscall.SOCK_DGRAM|syscall.SOCK_NONBLOCK|syscall.SOCK_CLOEXEC, syscall.IPPROTO_ICMP)
		if err != nil {
			return "", ""
		}
		ps, err := packets.VerifSinkLinuxFromFD(pfd)
		if err != nil {
			syscall.Close(pfd)
			return "", ""
		}
		defer ps.Close()
		echo := []byte{8, 0, 0xf7, 0xff, 0, 0, 0, 0}
		if e := syscall.Sendto(pfd, echo, syscall.MSG_DONTWAIT, &syscall.SockaddrInet4{Addr: [4]byte{127, 0, 0, 1}}); e != nil {
			return "", "" // the kernel does not take it here either
		}
		if got = ps.WriteTo(echo, dst); got != nil {
			return "accepted-send-reported-as-failure", got.Error()
		}
		return "", ""
	case "datagram-too-large":
		want = syscall.EMSGSIZE
		got = sink.WriteTo(make([]byte, 70000), dst)
	case "no-route":
		want = syscall.ENETUNREACH
		got = sink.WriteTo(small, netip.MustParseAddrPort("203.0.113.250:9"))
		if got == nil || !errors.Is(got, want) {
			if got == nil {
				// judge only through the raw syscall: did the kernel refuse? if it accepted, nothing to judge
				if e := syscall.Sendto(fd, small, syscall.MSG_DONTWAIT, &syscall.SockaddrInet4{Addr: [4]byte{203, 0, 113, 250}, Port: 9}); e == nil {
					return "", ""
				} else {
					return "refused-send-reported-as-success", fmt.Sprintf("sendto(2) answers %v for this destination, WriteTo returned nil", e)
				}
			}
			return "", "" // another errno (EPERM in some sandboxes): still an error, fine
		}
		return "", ""
	case "closed-socket":
		sink.Close()
		got = sink.WriteTo(small, dst)
		if got == nil {
			return "send-on-closed-socket-reported-as-success", ""
		}
		return "", ""
	}
	if got == nil {
		// confirm with the raw syscall that the kernel really refuses this send here
		return "refused-send-reported-as-success", fmt.Sprintf("case %s: the kernel refuses this send (%v expected), WriteTo returned nil", c.Name, want)
	}
	if !errors.Is(got, want) {
		return "cause-not-wrapped", fmt.Sprintf("case %s: want an error wrapping %v, got %v", c.Name, want, got)
	}
	return "", ""
}

func runSinkScn(idx int, r *core.ScnResult) {
	c := sinkCases[idx]
	r.Nontrivial = true
	k, d := runSinkCase(c)
	r.Evals = 1
	if k != "" {
		r.Fail(core.Failure{Key: "C10 real-linux-sink/" + c.Name + "/" + k, What: d, Scenario: core.JSON(c)})
		return
	}
	r.Outcome("real-sink/" + c.Name)
}

func replaySink(scn json.RawMessage) (string, bool, bool) {
	var c sinkCase
	if json.Unmarshal(scn, &c) != nil || c.Name == "" {
		return "", false, false
	}
	k, d := runSinkCase(c)
	if k != "" {
		return fmt.Sprintf("real sink case %s\nORACLE FAILED: %s: %s\n", c.Name, k, d), false, true
	}
	return fmt.Sprintf("real sink case %s\noracle: ok\n", c.Name), true, true
}
