// Package c06: probe emission. At most one probe per TTL, increasing, paced,
// none after the destination was seen (one in flight excepted); every probe
// well-formed (judged by refcodec), constant flow, unique identifiers; reported
// endpoints = wire endpoints.
package c06

import (
	"fmt"

	"verif/props/proto"
	"verif/simnet"
)

func gen(tier string) []proto.Item {
	var items []proto.Item
	type rg struct{ first, last int }
	ranges := []rg{{1, 255}, {254, 255}, {255, 255}, {1, 4}}
	if tier == "thorough" {
		ranges = append(ranges, rg{2, 6}, rg{1, 30}, rg{250, 255})
	}
	type bs struct {
		name       string
		ipid, echo uint32
		rnd        []uint32
		ack        uint32
	}
	mkRand := func(start uint32) []uint32 {
		var r []uint32
		for i := 0; i < 300; i++ {
			r = append(r, start+uint32(i)*0x01000193)
		}
		return r
	}
	bases := []bs{{"plain", 1000, 50, mkRand(0x1000), 0x2000}, {"max", 65535, 65534, mkRand(0xffffffff), 0xffffffff}, {"wrap-inside", 65400, 65535, mkRand(0xffffff00), 0xffffff80}}
	if tier == "thorough" {
		bases = append(bases, bs{"zero", 0, 0, mkRand(0), 0}, bs{"wrap-late", 65300, 65533, mkRand(0xfffffffe), 0xffffff01})
	}
	cfgs := [][2]int{{300, 10}}
	// the run's one random 32-bit sequence number (TCP SYN, default mode) at the very top of its range, whichever of the
	// first random draws it is taken from
	onesRand := append([]uint32{0xffffffff, 0xffffffff, 0xffffffff, 0xffffffff}, mkRand(0x3000)...)
	for _, v := range proto.Variants {
		vi := proto.Info(v)
		for _, r := range ranges {
			bs2 := bases
			if vi.Kind == "tcp" {
				bs2 = append(append([]bs{}, bases...), bs{"seq-all-ones", 1000, 50, onesRand, 0})
			}
			for _, b := range bs2 {
				if b.name != "plain" && !(r.first == 1 && r.last == 255) && !(r.first == 254) {
					continue
				}
				// destination seen at d in {first, first+1, mid, never}, with reply delay {< send delay, between two sends, > all sends}
				dests := []int{0, r.first, r.first + 1, (r.first + r.last) / 2}
				for _, d := range dests {
					if d > r.last {
						continue
					}
					for _, dd := range []struct {
						name string
						us   int
					}{{"quick-reply", 3000}, {"between-sends", 14000}, {"after-all-sends", 0}} {
						if d == 0 && dd.name != "quick-reply" {
							continue
						}
						for _, cfg := range cfgs {
							s := proto.Scn{Variant: v, First: r.first, Last: r.last, Dest: d, IPIDBase: b.ipid, EchoBase: b.echo, Rand: b.rnd, TimeoutMs: cfg[0], DelayMs: cfg[1]}
							if vi.Kind == "sack" {
								s.SynAck = &simnet.SynAckSpec{Enabled: true, ISN: 0x99, AckNum: b.ack, SackPermitted: true, Timestamps: b.name == "max"}
							}
							if d > 0 {
								us := dd.us
								if us == 0 {
									us = (r.last-d+1)*cfg[1]*1000 + 20000
									if !vi.Parallel || us > cfg[0]*1000-150000 {
										continue
									}
								}
								s.Hops = map[int]proto.HopSpec{}
								for t := d; t <= r.last && t < d+3; t++ {
									s.Hops[t] = proto.HopSpec{DelayUs: us}
								}
							}
							items = append(items, proto.Item{Scn: s, Class: fmt.Sprintf("%s/r%d-%d/base-%s/dest-%s/%s", v, r.first, r.last, b.name, destName(d, r.first, r.last), dd.name)})
						}
					}
				}
			}
			// pacing when the send delay exceeds the listening timeout and hops are silent
			s := proto.Scn{Variant: v, First: r.first, Last: r.last, Dest: 0, IPIDBase: 1000, EchoBase: 50, TimeoutMs: 20, DelayMs: 150}
			if r.last-r.first <= 5 {
				s.Hops = map[int]proto.HopSpec{r.first: {Silent: true}}
				items = append(items, proto.Item{Scn: s, Class: fmt.Sprintf("%s/r%d-%d/delay-exceeds-timeout/silent-hop", v, r.first, r.last)})
			}
		}
		if proto.Info(v).Kind == "sack" {
			// the SYN-ACK of another connection to the same target port is read first: the probes still go out on the
			// connection this run dialed, numbered from its own handshake
			for _, d := range []int{3, 0} {
				s := proto.Scn{Variant: v, First: 1, Last: 4, Dest: d, IPIDBase: 1000, EchoBase: 50, TimeoutMs: 300, DelayMs: 10}
				s.SynAck = &simnet.SynAckSpec{Enabled: true, ISN: 0x99, AckNum: 0xfffffffe, SackPermitted: true, WrongFirst: true}
				items = append(items, proto.Item{Scn: s, Class: fmt.Sprintf("%s/other-connections-synack-first/dest-%d", v, d)})
			}
		}
		if proto.Info(v).Kind == "sack" {
			// the target negotiated selective acknowledgement but acknowledges the probes without blocks: the run ends with an
			// error (that is C20's subject); it has seen the destination's answer, so the remaining TTLs are not probed
			for _, d := range []int{2, 3} {
				s := proto.Scn{Variant: v, First: 1, Last: 12, Dest: d, IPIDBase: 1000, EchoBase: 50, TimeoutMs: 300, DelayMs: 10}
				s.Hops = map[int]proto.HopSpec{}
				for t := d; t <= 12; t++ {
					s.Hops[t] = proto.HopSpec{AtTarget: true, Form: "plainack"}
				}
				items = append(items, proto.Item{Scn: s, Class: fmt.Sprintf("%s/destination-acknowledges-without-blocks/dest-%d", v, d), Note: map[string]string{"error_expected": "1"}})
			}
		}
		if proto.Info(v).Parallel {
			// no pacing at all (the library accepts a zero delay): the sender still stops once the destination's reply has been
			// processed, on every schedule with one preemption
			for _, d := range []int{1, 2} {
				s := proto.Scn{Variant: v, First: 1, Last: 6, Dest: d, IPIDBase: 1000, EchoBase: 50, TimeoutMs: 100, DelayMs: -1, Bound: 1}
				s.Hops = map[int]proto.HopSpec{d: {DelayUs: -1}}
				items = append(items, proto.Item{Scn: s, Class: fmt.Sprintf("%s/no-send-delay/dest-%d", v, d)})
			}
		}
		// a duplicate of a router's reply arrives while a later probe is being waited for (the serial engine ends that wait on
		// any valid reply; the reply stream stays shifted by one from there on): the probes are still the delay apart
		for _, t := range []int{1, 2} {
			for _, extra := range []int{12000, 30000} {
				s := proto.Scn{Variant: v, First: 1, Last: 6, Dest: 6, IPIDBase: 1000, EchoBase: 50, TimeoutMs: 300, DelayMs: 10}
				vi := proto.Info(v)
				s.Inject = []proto.Inject{{OnTTL: t, AnswerTTL: t, Form: vi.TEForm, From: proto.Router(vi.V6, 0, t).String(), DelayUs: proto.DefaultDelayUs(t) + extra, Tag: "late-duplicate", Genuine: true}}
				items = append(items, proto.Item{Scn: s, Class: fmt.Sprintf("%s/late-duplicate-of-ttl%d", v, t)})
			}
		}
		if vi := proto.Info(v); !vi.V6 {
			// the destination's answers arrive in IPv4 datagrams whose own header carries options (a labelled network, record
			// route): it has answered, the TTLs still to come are not probed
			for _, w := range []int{6, 15} {
				s := proto.Scn{Variant: v, First: 1, Last: 12, Dest: 3, IPIDBase: 1000, EchoBase: 50, TimeoutMs: 300, DelayMs: 10}
				s.Hops = map[int]proto.HopSpec{}
				for t := 3; t <= 12; t++ {
					s.Hops[t] = proto.HopSpec{IPOptWords: w}
				}
				items = append(items, proto.Item{Scn: s, Class: fmt.Sprintf("%s/destination-answers-with-ip-options-%dw", v, w)})
			}
		}
		if proto.Info(v).Kind == "sack" {
			// SACK: the destination answers the probes with a time-exceeded from its own address instead of a selective
			// acknowledgement (the variant's second way of seeing the destination): the TTLs still to come are not probed
			s := proto.Scn{Variant: v, First: 1, Last: 12, Dest: 3, IPIDBase: 1000, EchoBase: 50, TimeoutMs: 300, DelayMs: 10}
			s.Hops = map[int]proto.HopSpec{}
			for t := 3; t <= 12; t++ {
				s.Hops[t] = proto.HopSpec{AtTarget: true, Form: "te28"}
			}
			items = append(items, proto.Item{Scn: s, Class: fmt.Sprintf("%s/destination-answers-with-time-exceeded", v)})
		}
		if k := proto.Info(v).Kind; k == "udp4" || k == "udp6" {
			// the UDP destination rejects the probes with host / administratively-prohibited unreachable (a host firewall): it
			// has answered all the same, the TTLs still to come are not probed
			for _, form := range []string{"duHost", "duAdmin"} {
				s := proto.Scn{Variant: v, First: 1, Last: 12, Dest: 3, IPIDBase: 1000, EchoBase: 50, TimeoutMs: 300, DelayMs: 10}
				s.Hops = map[int]proto.HopSpec{}
				for t := 3; t <= 12; t++ {
					s.Hops[t] = proto.HopSpec{AtTarget: true, Form: form}
				}
				items = append(items, proto.Item{Scn: s, Class: fmt.Sprintf("%s/destination-answers-%s", v, form)})
			}
		}
		if proto.Info(v).Parallel {
			// the destination's first answer is for a TTL that already holds a router's answer (route change, ECMP): the run
			// has seen the destination all the same, the TTLs still to come are not probed (one in flight excepted)
			vi := proto.Info(v)
			for _, t := range []int{1, 2} {
				s := proto.Scn{Variant: v, First: 1, Last: 12, Dest: 0, IPIDBase: 1000, EchoBase: 50, TimeoutMs: 300, DelayMs: 10}
				s.Inject = []proto.Inject{{OnTTL: t, AnswerTTL: t, Form: vi.DestForm, From: s.Target().String(), DelayUs: proto.DefaultDelayUs(t) + 12000, Tag: "destination-after-router", Genuine: true}}
				items = append(items, proto.Item{Scn: s, Class: fmt.Sprintf("%s/destination-answers-a-ttl-a-router-answered/ttl%d", v, t)})
			}
		}
		// a send call that takes longer than the configured delay (the socket waited for buffer space, 15ms) and then
		// succeeds: the k-th, or every one; the probes on the wire are still at least the delay apart
		for _, k := range []int{1, 2, 3, 0} {
			for _, d := range []int{3, 0} {
				s := proto.Scn{Variant: v, First: 1, Last: 4, Dest: d, IPIDBase: 1000, EchoBase: 50, TimeoutMs: 300, DelayMs: 10}
				s.Faults = []simnet.Fault{{Op: "WriteTo", K: k, Class: "stall"}}
				items = append(items, proto.Item{Scn: s, Class: fmt.Sprintf("%s/slow-send-call-%d/dest-%d", v, k, d)})
			}
		}
		// non-initial state: the same configuration as second and third run of the process
		s := proto.Scn{Variant: v, First: 1, Last: 4, Dest: 3, IPIDBase: 65530, EchoBase: 65533, TimeoutMs: 300, DelayMs: 10}
		s2 := s
		s3 := s
		s.Then = []proto.Scn{s2, s3}
		items = append(items, proto.Item{Scn: s, Class: v + "/second-and-third-run"})
	}
	// serial engine: an unrelated packet 50 ms into the destination's window shifts the receive polls off the window's
	// grid, so that one poll straddles the window's end; the destination's answer arrives inside that poll, just after the
	// window has closed: the engine has been handed it - the list ends there and no further TTL is probed
	for _, v := range proto.Variants {
		vi := proto.Info(v)
		if vi.Parallel {
			continue
		}
		for _, late := range []int{310000, 340000} {
			s := proto.Scn{Variant: v, First: 1, Last: 5, Dest: 3, IPIDBase: 600, EchoBase: 61, TimeoutMs: 300, DelayMs: 10}
			s.Hops = map[int]proto.HopSpec{3: {DelayUs: late}}
			s.Inject = []proto.Inject{{OnTTL: 3, AnswerTTL: 3, Form: vi.TEForm, From: proto.Evil(vi.V6).String(), DelayUs: 50000, Tag: "phase-shift", Rewrite: []simnet.Perturb{{Field: "q.dst", Op: "+1"}}}}
			items = append(items, proto.Item{Scn: s, Class: fmt.Sprintf("%s/destination-answer-in-the-poll-straddling-its-window/%dms", v, late/1000), Note: map[string]string{"serial_stops_at_once": "1"}})
		}
	}

	// relaxed variants behind a NAT that leaves its public source address (and port) in the quotes of the ICMP errors that
	// come back - the routers' and the destination's alike: the destination's answer still ends the emission
	for _, v := range proto.Variants {
		vi := proto.Info(v)
		if !vi.Relaxed || !vi.Parallel || vi.Kind == "icmp4" || vi.Kind == "icmp6" {
			continue
		}
		for _, rw := range [][]simnet.Perturb{{{Field: "q.src", Op: "other", Other: 0x21}}, {{Field: "q.src", Op: "other", Other: 0x21}, {Field: "q.sport", Op: "other", Other: 40001}}} {
			s := proto.Scn{Variant: v, First: 1, Last: 9, Dest: 3, IPIDBase: 600, EchoBase: 61, TimeoutMs: 300, DelayMs: 10}
			s.Hops = map[int]proto.HopSpec{}
			for t := 1; t <= 9; t++ {
				if vi.Kind == "sack" && t >= 3 {
					continue // (the SACK destination answers with acknowledgements, not with quotes)
				}
				s.Hops[t] = proto.HopSpec{Rewrite: rw}
			}
			items = append(items, proto.Item{Scn: s, Class: fmt.Sprintf("%s/nat-leaves-its-source-in-the-quotes/%d-fields", v, len(rw))})
		}
	}

	// the IPv4 target handed to the variant's constructor in its 16-byte form (what net.ParseIP, net.IPv4 and resolvers
	// return): the same probes to the same address
	for _, v := range []string{"udp4", "syn", "synparis"} {
		s := proto.Scn{Variant: v, First: 1, Last: 5, Dest: 3, IPIDBase: 600, EchoBase: 61, TimeoutMs: 300, DelayMs: 10, Target16: true}
		items = append(items, proto.Item{Scn: s, Class: v + "/target-in-16-byte-form"})
	}

	return items
}

func destName(d, first, last int) string {
	switch {
	case d == 0:
		return "never"
	case d == first:
		return "first-ttl"
	case d == first+1:
		return "second-ttl"
	}
	return "mid"
}

func check(it *proto.Item, r *proto.Result) []proto.Issue {
	var out []proto.Issue
	for i := range r.Obs {
		sc := &it.Scn
		if i > 0 {
			sc = &it.Scn.Then[i-1]
		}
		if r.Obs[i].Err != nil && it.Note["error_expected"] == "" {
			out = append(out, proto.Issue{Key: "run-error", Detail: r.Obs[i].Err.Error()})
			continue
		}
		out = append(out, proto.Emission(sc, r, i)...)
		if it.Note["serial_stops_at_once"] != "" && i == 0 {
			// the serial engine is one thread: once it has been handed the destination's answer to the probe it is waiting for,
			// nothing more goes out
			seen, cnt := false, 0
			for _, ev := range r.Net.Order {
				switch {
				case !seen && ev.Kind == "read-dest" && ev.Flow == r.Obs[0].SinkID:
					seen = true
				case seen && ev.Kind == "tx" && ev.Handle == r.Obs[0].SinkID:
					cnt++
				}
			}
			if cnt > 0 {
				out = append(out, proto.Issue{Key: "probe-after-the-destination-answer-was-read", Detail: fmt.Sprintf("%d probes emitted after the serial engine had been handed the destination's answer", cnt)})
			}
		}
	}
	return out
}

var F = &proto.Family{ID: "C06", Gen: gen, Check: check}

func init() {
	F.Register("model_checking",
		"item = (variant, TTL range incl. 1..255 so that every TTL 1..255 is emitted, identifier bases (IP-ID, echo id, random sequence, SACK initial sequence) at and around wrap-around, destination seen at {never, first, second, middle TTL} with reply delay {shorter than the send delay, between two sends, after all sends}, send delay larger than the timeout with a silent hop, the same configuration as 2nd and 3rd run of the process); "+
			"oracle: every emitted probe decoded by an independent codec (lengths, header and transport checksums incl. pseudo-header, TTL = probed TTL, constant addresses and ports), one probe per TTL in increasing order, consecutive sends >= send delay apart, <= 1 probe after the destination reply arrived, pairwise-distinct per-probe identifiers, reported endpoints = wire endpoints; distinct = distinct hop lists",
		[]string{"clock-advance deviations are off (pacing is stated on the virtual clock)", "Paris-mode sequence numbers come from a scripted source handing out distinct values: collisions are not forced"})
}
