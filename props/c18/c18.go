// Package c18: enrichment is per-address correct and failure-tolerant; caches keep only
// successes until expiry; public-IP discovery asks providers in order.
package c18

import (
	"context"
	"encoding/json"
	"errors"
	"fmt"
	"io"
	"net"
	"net/http"
	"reflect"
	"strings"
	"time"

	"github.com/DataDog/datadog-traceroute/cache"
	"github.com/DataDog/datadog-traceroute/publicip"
	"github.com/DataDog/datadog-traceroute/result"
	"github.com/DataDog/datadog-traceroute/reversedns"
	"github.com/cenkalti/backoff/v5"

	"verif/props/core"
	"verif/shim/vrand"
	"verif/shim/vtime"
	"verif/vsched"
)

// ---- (a) reverse-DNS enrichment -----------------------------------------------------------------------

var addrKinds = []struct {
	name string
	ip   func() net.IP
}{
	{"A4", func() net.IP { return net.IP{198, 51, 100, 7} }},
	{"A4-16byte", func() net.IP { return net.IPv4(198, 51, 100, 7) }},
	{"B6", func() net.IP { return net.ParseIP("2001:db8::b") }},
	{"empty", func() net.IP { return nil }},
	{"C4", func() net.IP { return net.IP{203, 0, 113, 3} }},
	{"D6-low-bits-of-B6", func() net.IP { return net.ParseIP("2001:db8:ffff::b") }},
}

// "timeout": the resolver gives up only when the lookup's own deadline has passed and returns that context's error
// "names-with-error": the resolver returns an error next to some names (net.LookupAddr does when it filtered out a
// malformed record): a failed lookup all the same - no names attached, nothing remembered
// "second-call-fails": the address's first lookup takes 5 ms and succeeds, any overlapping second one takes 10 ms and fails
// (a flaky resolver): entries of that address carry the names or nothing, and the success, once stored, stays stored
var behaviours = []string{"names", "empty", "error", "slow", "timeout", "names-with-error", "second-call-fails"}

// the behaviours of the exhaustive cross product (genA); "timeout" appears in the recovery items
const crossBehaviours = 4

type AScn struct {
	Hops  []int          `json:"hops"` // address kind per hop (the destination is kind Dest)
	Dest  int            `json:"dest"`
	Beh   map[string]int `json:"beh"` // behaviour per distinct address string
	Bound int            `json:"bound"`
	// DestHop: the last hop carries the destination mark (the destination answered), as in every run that reached its target
	DestHop bool `json:"dest_hop,omitempty"`
	// Twice: once the first document is enriched the resolver recovers (every address now answers with its names) and a
	// fresh copy of the document is enriched: what succeeded the first time comes from the cache, what failed is asked again
	Twice bool `json:"twice,omitempty"`
	// Dest2 (index+1 into the address kinds, 0 = none): the document has a second run, without hops, whose destination is
	// this other address (a round-robin hostname resolved per run)
	// Wide: this many further hops, each with an address of its own (a long path, several runs' worth of addresses in one
	// enrichment); every third one answers slowly
	Wide       int             `json:"wide,omitempty"`
	Dest2      int             `json:"dest2,omitempty"`
	second     *result.Results `json:"-"`
	firstCalls map[string]int  `json:"-"`
}

func runA(sc *AScn, prefix []int, sig []uint32) (*vsched.Exec, *result.Results, *result.Results, map[string]int) {
	cache.Cache.Flush()
	calls := map[string]int{}
	recovered := false
	old := reversedns.LookupAddrFn
	reversedns.LookupAddrFn = func(ctx context.Context, a string) ([]string, error) {
		vsched.Yield("rdns")
		calls[a]++
		if recovered {
			return []string{"name-of-" + a + "."}, nil
		}
		if sc.Wide > 0 && calls[a] == 1 && len(calls)%3 == 0 {
			vtime.Sleep(50 * time.Millisecond)
		}
		switch behaviours[sc.Beh[a]] {
		case "timeout":
			if dl, ok := ctx.Deadline(); ok {
				vtime.Sleep(dl.Sub(vtime.Now()) + time.Millisecond)
			}
			if err := ctx.Err(); err != nil {
				return nil, err
			}
			return nil, context.DeadlineExceeded
		case "empty":
			return []string{}, nil
		case "error":
			return nil, errors.New("lookup failed")
		case "names-with-error":
			return []string{"name-of-" + a + "."}, errors.New("lookup failed: a malformed record was filtered out")
		case "second-call-fails":
			if calls[a] >= 2 {
				vtime.Sleep(10 * time.Millisecond)
				return nil, errors.New("lookup failed (flaky resolver)")
			}
			vtime.Sleep(5 * time.Millisecond)
		case "slow":
			vtime.Sleep(3 * time.Second)
		}
		return []string{"name-of-" + a + "."}, nil
	}
	defer func() { reversedns.LookupAddrFn = old }()
	mk := func() *result.Results {
		run := result.TracerouteRun{Destination: result.TracerouteDestination{IPAddress: addrKinds[sc.Dest].ip(), Port: 80}}
		for i, k := range sc.Hops {
			h := &result.TracerouteHop{TTL: i + 1, IPAddress: addrKinds[k].ip(), RTT: float64(i) + 0.5}
			h.Reachable = len(h.IPAddress) > 0
			if sc.DestHop && i == len(sc.Hops)-1 {
				h.IsDest = true
			}
			run.Hops = append(run.Hops, h)
		}
		for i := 0; i < sc.Wide; i++ {
			run.Hops = append(run.Hops, &result.TracerouteHop{TTL: len(sc.Hops) + i + 1, IPAddress: net.IP{198, 51, byte(100 + i/200), byte(1 + i%200)}, RTT: float64(i) + 0.5, Reachable: true})
		}
		res := &result.Results{Protocol: "udp", Traceroute: result.Traceroute{Runs: []result.TracerouteRun{run}}}
		if sc.Dest2 > 0 {
			res.Traceroute.Runs = append(res.Traceroute.Runs, result.TracerouteRun{Destination: result.TracerouteDestination{IPAddress: addrKinds[sc.Dest2-1].ip(), Port: 80}})
		}
		return res
	}
	before, doc := mk(), mk()
	sc.second, sc.firstCalls = nil, nil
	// (a wide document: hundreds of lookup threads - every switch away from the default schedule costs one deviation)
	x := vsched.Run(vsched.Config{Prefix: prefix, PrefixSig: sig, MaxVirtual: time.Hour, DelayBounded: sc.Wide > 0, MaxSteps: 200000 + 2000*sc.Wide}, nil, func() {
		doc.EnrichWithReverseDns()
		if sc.Twice {
			sc.firstCalls = map[string]int{}
			for a, n := range calls {
				sc.firstCalls[a] = n
			}
			recovered = true
			d2 := mk()
			d2.EnrichWithReverseDns()
			sc.second = d2
		}
	})
	return x, before, doc, calls
}

func checkA(sc *AScn, x *vsched.Exec, before, doc *result.Results, calls map[string]int) (string, string) {
	switch x.Outcome {
	case vsched.Crash:
		return "crash", x.Crash.Value + "\n" + x.Crash.Stack
	case vsched.Deadlock:
		return "hang", fmt.Sprint(x.Blocked)
	case vsched.Horizon:
		return "horizon", ""
	}
	want := func(ip net.IP) []string {
		if len(ip) == 0 {
			return nil
		}
		a := ip.String()
		switch behaviours[sc.Beh[a]] {
		case "names", "slow":
			return []string{"name-of-" + a + "."}
		}
		return nil
	}
	if sc.Twice {
		if sc.second == nil {
			return "second-enrichment-missing", ""
		}
		// the second pass: an address whose lookup succeeded (names, or no names) keeps that answer without a new query; an
		// address whose lookup failed was not remembered as "no names": it is asked again and now has its names
		for i, h := range append([]*result.TracerouteHop{{IPAddress: sc.second.Traceroute.Runs[0].Destination.IPAddress, ReverseDns: sc.second.Traceroute.Runs[0].Destination.ReverseDns}}, sc.second.Traceroute.Runs[0].Hops...) {
			if len(h.IPAddress) == 0 {
				continue
			}
			a := h.IPAddress.String()
			w := []string{"name-of-" + a + "."}
			failed := false
			switch behaviours[sc.Beh[a]] {
			case "empty":
				w = nil
			case "error", "timeout", "names-with-error":
				failed = true
			}
			if !((len(w) == 0 && len(h.ReverseDns) == 0) || reflect.DeepEqual(h.ReverseDns, w)) {
				return "failure-remembered", fmt.Sprintf("second enrichment, entry %d (0 = destination) %s whose first lookup was %q: got %v want %v", i, a, behaviours[sc.Beh[a]], h.ReverseDns, w)
			}
			if !failed && calls[a] != sc.firstCalls[a] {
				return "success-not-cached", fmt.Sprintf("%s (%s) was queried again: %d queries after the first pass, %d after the second", a, behaviours[sc.Beh[a]], sc.firstCalls[a], calls[a])
			}
		}
		calls = sc.firstCalls
	}
	run, brun := doc.Traceroute.Runs[0], before.Traceroute.Runs[0]
	eq := func(a, b []string) bool { return (len(a) == 0 && len(b) == 0) || reflect.DeepEqual(a, b) }
	flaky := func(ip net.IP) bool { return len(ip) > 0 && behaviours[sc.Beh[ip.String()]] == "second-call-fails" }
	namesOrNothing := func(got []string, ip net.IP) bool {
		return len(got) == 0 || reflect.DeepEqual(got, []string{"name-of-" + ip.String() + "."})
	}
	if sc.Dest2 > 0 {
		if len(doc.Traceroute.Runs) != 2 {
			return "document-altered", "second run lost"
		}
		d2 := doc.Traceroute.Runs[1].Destination
		if !flaky(d2.IPAddress) && !eq(d2.ReverseDns, want(d2.IPAddress)) {
			return "destination-names", fmt.Sprintf("destination %s of the second run: got %v want %v", d2.IPAddress, d2.ReverseDns, want(d2.IPAddress))
		}
	}
	if flaky(run.Destination.IPAddress) {
		if !namesOrNothing(run.Destination.ReverseDns, run.Destination.IPAddress) {
			return "destination-names", fmt.Sprintf("destination %s (flaky resolver): got %v", run.Destination.IPAddress, run.Destination.ReverseDns)
		}
	} else if !eq(run.Destination.ReverseDns, want(run.Destination.IPAddress)) {
		return "destination-names", fmt.Sprintf("destination %s (%d-byte form): got %v want %v", run.Destination.IPAddress, len(run.Destination.IPAddress), run.Destination.ReverseDns, want(run.Destination.IPAddress))
	}
	for i, h := range run.Hops {
		if flaky(h.IPAddress) {
			if !namesOrNothing(h.ReverseDns, h.IPAddress) {
				return "hop-names", fmt.Sprintf("hop %d %s (flaky resolver): got %v", i+1, h.IPAddress, h.ReverseDns)
			}
		} else if !eq(h.ReverseDns, want(h.IPAddress)) {
			return "hop-names", fmt.Sprintf("hop %d %s (%d-byte form): got %v want %v", i+1, h.IPAddress, len(h.IPAddress), h.ReverseDns, want(h.IPAddress))
		}
		b := brun.Hops[i]
		if h.TTL != b.TTL || h.RTT != b.RTT || !reflect.DeepEqual(h.IPAddress, b.IPAddress) || h.Reachable != b.Reachable || h.IsDest != b.IsDest {
			return "document-altered", fmt.Sprintf("hop %d changed", i+1)
		}
	}
	// the cache: one resolver query per distinct address that answered; failures are re-queried, successes are not
	for a, n := range calls {
		b := behaviours[sc.Beh[a]]
		occ := 0
		all := append(append([]int{}, sc.Hops...), sc.Dest)
		if sc.Dest2 > 0 {
			all = append(all, sc.Dest2-1)
		}
		for _, k := range all {
			if ip := addrKinds[k].ip(); len(ip) > 0 && ip.String() == a {
				occ++
			}
		}
		for _, h := range run.Hops[len(sc.Hops):] { // (the further hops of a wide document)
			if h.IPAddress.String() == a {
				occ++
			}
		}
		if n > occ {
			return "resolver-queried-more-than-needed", fmt.Sprintf("%s queried %d times for %d occurrences", a, n, occ)
		}
		_ = b
	}
	return "", ""
}

func genA(tier string) []AScn {
	var out []AScn
	maxHops := 3
	nk := len(addrKinds)
	for nh := 0; nh <= maxHops; nh++ {
		total := 1
		for i := 0; i < nh+1; i++ {
			total *= nk
		}
		for code := 0; code < total; code++ {
			c := code
			sc := AScn{Dest: c % nk}
			c /= nk
			for i := 0; i < nh; i++ {
				sc.Hops = append(sc.Hops, c%nk)
				c /= nk
			}
			// distinct non-empty addresses
			seen := map[string]bool{}
			var addrs []string
			for _, k := range append(append([]int{}, sc.Hops...), sc.Dest) {
				if ip := addrKinds[k].ip(); len(ip) > 0 && !seen[ip.String()] {
					seen[ip.String()] = true
					addrs = append(addrs, ip.String())
				}
			}
			nb := 1
			for range addrs {
				nb *= crossBehaviours
			}
			for bc := 0; bc < nb; bc++ {
				if tier != "thorough" && nh == maxHops && bc%5 != 0 {
					continue // quick: a fifth of the behaviour assignments for the largest documents
				}
				s := sc
				s.Beh = map[string]int{}
				b := bc
				for _, a := range addrs {
					s.Beh[a] = b % crossBehaviours
					b /= crossBehaviours
				}
				s.Bound = 0
				if nh <= 1 {
					// small documents also with one preemption: a lookup thread is descheduled between any two of its steps
					s.Bound = 1
				}
				out = append(out, s)
				// the same document with the last hop marked as the destination's answer (same address, possibly in the other byte form)
				if nh > 0 {
					last, dst := addrKinds[s.Hops[nh-1]].ip(), addrKinds[s.Dest].ip()
					if len(last) > 0 && len(dst) > 0 && last.String() == dst.String() {
						s2 := s
						s2.DestHop = true
						out = append(out, s2)
					}
				}
			}
		}
	}
	// two runs whose destinations differ (each run resolves the hostname itself): every run's destination gets its own names
	for d1 := range addrKinds {
		for d2 := range addrKinds {
			for _, hops := range [][]int{nil, {0}, {4, 2}} {
				sc := AScn{Dest: d1, Dest2: d2 + 1, Hops: hops, Beh: map[string]int{}}
				for _, k := range append(append([]int{}, hops...), d1, d2) {
					if ip := addrKinds[k].ip(); len(ip) > 0 {
						sc.Beh[ip.String()] = 0
					}
				}
				out = append(out, sc)
			}
		}
	}
	// recovery items: documents of up to two hops over the two byte forms of one IPv4 address, an IPv6 address and an
	// unanswered hop; every behaviour per address including the lookup's own deadline passing; enriched twice
	rk := []int{0, 1, 2, 3}
	for nh := 0; nh <= 2; nh++ {
		total := 1
		for i := 0; i < nh+1; i++ {
			total *= len(rk)
		}
		for code := 0; code < total; code++ {
			c := code
			sc := AScn{Dest: rk[c%len(rk)], Twice: true}
			c /= len(rk)
			for i := 0; i < nh; i++ {
				sc.Hops = append(sc.Hops, rk[c%len(rk)])
				c /= len(rk)
			}
			seen := map[string]bool{}
			var addrs []string
			for _, k := range append(append([]int{}, sc.Hops...), sc.Dest) {
				if ip := addrKinds[k].ip(); len(ip) > 0 && !seen[ip.String()] {
					seen[ip.String()] = true
					addrs = append(addrs, ip.String())
				}
			}
			nb := 1
			for range addrs {
				nb *= len(behaviours)
			}
			for bc := 0; bc < nb; bc++ {
				s := sc
				s.Beh = map[string]int{}
				b := bc
				for _, a := range addrs {
					s.Beh[a] = b % len(behaviours)
					b /= len(behaviours)
				}
				out = append(out, s)
			}
		}
	}
	// long paths: 30, 64, 65, 93 and 200 further addresses in one enrichment (three runs of thirty hops are 93): every one
	// of them is looked up and gets its own names, however many lookups are in flight at once
	for _, w := range []int{30, 64, 65, 93, 200} {
		out = append(out, AScn{Dest: 0, Hops: []int{1, 4}, Beh: map[string]int{}, Wide: w})
	}
	return out
}

// ---- (b) cache: explicit-state search over histories ----------------------------------------------------

// ops: 0 get(k1) callback ok, 1 get(k1) callback error, 2 get(k2) callback ok, 3 advance to just before expiry of the oldest entry, 4 advance past every expiry
var opNames = []string{"get(k1,ok)", "get(k1,err)", "get(k2,ok)", "advance-just-before-expiry", "advance-past-expiry"}

const ttl = 10 * time.Minute

type refEntry struct {
	val string
	exp int64
}

type cacheOut struct {
	val   string
	err   bool
	calls int
}

// runHistory executes the history on a flushed real cache (inside an execution: expiry follows the virtual clock).
func runHistory(h []int) ([]cacheOut, []cacheOut, string) {
	var got, want []cacheOut
	ref := map[string]refEntry{}
	state := ""
	vsched.Run(vsched.Config{MaxVirtual: 1000 * time.Hour}, nil, func() {
		cache.Cache.Flush()
		now := func() int64 { return vsched.Now() }
		seq := 0
		for _, op := range h {
			switch op {
			case 0, 1, 2:
				key := "k1"
				if op == 2 {
					key = "k2"
				}
				seq++
				fresh := fmt.Sprintf("v%d", seq)
				calls := 0
				v, err := cache.GetWithExpiration(key, func() (string, error) {
					calls++
					if op == 1 {
						return "", errors.New("callback failed")
					}
					return fresh, nil
				}, ttl)
				got = append(got, cacheOut{v, err != nil, calls})
				// reference
				e, ok := ref[key]
				if ok && now() <= e.exp {
					want = append(want, cacheOut{e.val, false, 0})
				} else {
					delete(ref, key)
					if op == 1 {
						want = append(want, cacheOut{"", true, 1})
					} else {
						ref[key] = refEntry{fresh, now() + int64(ttl)}
						want = append(want, cacheOut{fresh, false, 1})
					}
				}
			case 3:
				// to 1ns before the earliest expiry (no-op if nothing is stored)
				first := int64(-1)
				for _, e := range ref {
					if first < 0 || e.exp < first {
						first = e.exp
					}
				}
				if first > now()+1 {
					vtime.Sleep(time.Duration(first - 1 - now()))
				}
			case 4:
				last := now()
				for _, e := range ref {
					if e.exp > last {
						last = e.exp
					}
				}
				vtime.Sleep(time.Duration(last-now()) + time.Second)
			}
		}
		// canonical state: which keys are live, and how far from expiry (class)
		for _, k := range []string{"k1", "k2"} {
			e, ok := ref[k]
			switch {
			case !ok || now() > e.exp:
				state += k + ":absent "
			case e.exp-now() <= 1:
				state += k + ":about-to-expire "
			default:
				state += k + ":live "
			}
		}
	})
	return got, want, state
}

// ---- (c) public-IP provider scripts ------------------------------------------------------------------

// "timeout-once-then-valid": the provider's first exchange runs into the client's per-attempt time limit (an error that
// answers errors.Is(err, context.DeadlineExceeded), as http.Client.Timeout and dial timeouts do) and the retry, well inside
// the provider's 2 s budget, gets a valid answer: a retriable failure like any other transport error
var respKinds = []string{"200-valid", "200-invalid", "4xx", "5xx", "transport-error", "timeout-once-then-valid"}

type PScn struct {
	Script []int   `json:"script"` // response kind per provider
	Jitter float64 `json:"jitter"`
}

type rt struct {
	sc    *PScn
	order []string
	log   []string // provider index per request
}

func (t *rt) RoundTrip(req *http.Request) (*http.Response, error) {
	vsched.Yield("http")
	idx := -1
	for i, u := range t.order {
		if req.URL.String() == u {
			idx = i
		}
	}
	t.log = append(t.log, fmt.Sprint(idx))
	if idx < 0 {
		return nil, errors.New("unknown provider")
	}
	mk := func(code int, body string) *http.Response {
		return &http.Response{StatusCode: code, Status: fmt.Sprintf("%d status", code), Body: io.NopCloser(strings.NewReader(body)), Header: http.Header{}, Request: req}
	}
	vtime.Sleep(20 * time.Millisecond)
	switch respKinds[t.sc.Script[idx]] {
	case "200-valid":
		return mk(200, fmt.Sprintf("192.0.2.%d\n", 10+idx)), nil
	case "200-invalid":
		return mk(200, "<html>not an address</html>"), nil
	case "4xx":
		// (another client-error status at each provider position: they are all final, 408 and 429 included)
		return mk([]int{403, 429, 408, 404, 499}[idx%5], "client error"), nil
	case "5xx":
		return mk(503, "try later"), nil
	case "timeout-once-then-valid":
		n := 0
		for _, l := range t.log {
			if l == fmt.Sprint(idx) {
				n++
			}
		}
		if n <= 1 {
			return nil, fmt.Errorf("Get %q: %w (Client.Timeout exceeded while awaiting headers)", req.URL.String(), context.DeadlineExceeded)
		}
		return mk(200, fmt.Sprintf("192.0.2.%d\n", 10+idx)), nil
	}
	return nil, errors.New("connection reset")
}

type jit struct{ f float64 }

func (j jit) Uint32() uint32   { return 7 }
func (j jit) Float64() float64 { return j.f }

func runP(sc *PScn) (*vsched.Exec, net.IP, error, []string, time.Duration) {
	order := publicip.VerifCheckers()
	t := &rt{sc: sc, order: order}
	var ip net.IP
	var err error
	var took time.Duration
	vrand.Src = jit{sc.Jitter}
	defer func() { vrand.Src = nil }()
	x := vsched.Run(vsched.Config{MaxVirtual: time.Hour}, nil, func() {
		bp := backoff.NewExponentialBackOff()
		bp.InitialInterval = 500 * time.Millisecond
		bp.MaxInterval = 3 * time.Second
		ip, err = publicip.GetPublicIP(context.Background(), &http.Client{Transport: t}, bp)
		took = time.Duration(vsched.Now())
	})
	return x, ip, err, t.log, took
}

func checkP(sc *PScn, x *vsched.Exec, ip net.IP, err error, log []string, took time.Duration) (string, string) {
	switch x.Outcome {
	case vsched.Crash:
		return "crash", x.Crash.Value + "\n" + x.Crash.Stack
	case vsched.Deadlock:
		return "hang", fmt.Sprint(x.Blocked)
	case vsched.Horizon:
		return "horizon", ""
	}
	firstValid := -1
	for i, k := range sc.Script {
		if respKinds[k] == "200-valid" || respKinds[k] == "timeout-once-then-valid" {
			firstValid = i
			break
		}
	}
	per := map[int]int{}
	prev := -1
	for _, l := range log {
		var i int
		fmt.Sscan(l, &i)
		if i < prev {
			return "provider-order", fmt.Sprintf("requests went to providers in the order %v", log)
		}
		prev = i
		per[i]++
	}
	if firstValid >= 0 {
		if err != nil || ip == nil || ip.String() != fmt.Sprintf("192.0.2.%d", 10+firstValid) {
			return "wrong-answer", fmt.Sprintf("first valid provider is #%d, got ip=%v err=%v", firstValid, ip, err)
		}
		for i := range sc.Script {
			if i > firstValid && per[i] > 0 {
				return "asked-after-valid-answer", fmt.Sprintf("requests %v, first valid provider #%d", log, firstValid)
			}
		}
	} else if err == nil {
		return "answer-without-valid-provider", fmt.Sprint(ip)
	}
	last := len(sc.Script) - 1
	if firstValid >= 0 {
		last = firstValid
	}
	for i := 0; i <= last; i++ {
		switch respKinds[sc.Script[i]] {
		case "timeout-once-then-valid":
			if per[i] != 2 {
				return "retry-count", fmt.Sprintf("provider #%d times out once and then answers: asked %d times, want 2", i, per[i])
			}
		case "200-valid":
			if per[i] != 1 {
				return "valid-provider-asked-not-once", fmt.Sprintf("provider #%d asked %d times", i, per[i])
			}
		case "200-invalid", "4xx", "5xx":
			// (the scripted 5xx answer carries a body that is not an address: an invalid body is final whatever the status)
			if per[i] != 1 {
				return "final-answer-retried", fmt.Sprintf("provider #%d answered %s and was asked %d times", i, respKinds[sc.Script[i]], per[i])
			}
		default:
			if per[i] < 1 {
				return "provider-skipped", fmt.Sprintf("provider #%d never asked (%v)", i, log)
			}
		}
	}
	return "", ""
}

// ---- property -------------------------------------------------------------------------------------------

var aCache = map[string][]AScn{}

func aItems(tier string) []AScn {
	if c, ok := aCache[tier]; ok {
		return c
	}
	aCache[tier] = genA(tier)
	return aCache[tier]
}

// ---- (d) the public-IP fetcher (cache + providers) over histories --------------------------------------------

var fOps = []string{"get/provider-answers-ipv4", "get/provider-answers-ipv6", "get/providers-fail", "advance-1h", "advance-past-2h"}

type fOut struct {
	ip   string
	err  bool
	reqs bool // providers were contacted
}

type fRT struct {
	mode *int
	reqs *int
}

func (t fRT) RoundTrip(req *http.Request) (*http.Response, error) {
	vsched.Yield("http")
	*t.reqs++
	vtime.Sleep(5 * time.Millisecond)
	mk := func(code int, body string) *http.Response {
		return &http.Response{StatusCode: code, Status: fmt.Sprintf("%d status", code), Body: io.NopCloser(strings.NewReader(body)), Header: http.Header{}, Request: req}
	}
	switch *t.mode {
	case 0:
		return mk(200, "192.0.2.44\n"), nil
	case 1:
		return mk(200, "2001:db8::44\n"), nil
	}
	return mk(404, "nope"), nil
}

// runFetcher executes the history on one real PublicIPFetcher (flushed cache, virtual clock) and on the reference model.
func runFetcher(h []int) (got, want []fOut, x *vsched.Exec) {
	cache.Cache.Flush()
	mode, reqs := 0, 0
	f := publicip.VerifNewFetcher(&http.Client{Transport: fRT{&mode, &reqs}})
	x = vsched.Run(vsched.Config{MaxVirtual: 100 * time.Hour}, nil, func() {
		refIP, refExp := "", int64(-1)
		for _, op := range h {
			switch op {
			case 0, 1, 2:
				mode = op
				before := reqs
				ip, err := f.GetIP(context.Background())
				o := fOut{err: err != nil, reqs: reqs > before}
				if err == nil {
					o.ip = ip.String()
				}
				got = append(got, o)
				if refExp >= 0 && vsched.Now() <= refExp {
					want = append(want, fOut{ip: refIP})
				} else if op == 2 {
					refExp = -1
					want = append(want, fOut{err: true, reqs: true})
				} else {
					refIP = []string{"192.0.2.44", "2001:db8::44"}[op]
					refExp = vsched.Now() + int64(2*time.Hour)
					want = append(want, fOut{ip: refIP, reqs: true})
				}
			case 3:
				vtime.Sleep(time.Hour)
			case 4:
				vtime.Sleep(2*time.Hour + time.Minute)
			}
		}
	})
	return
}

func fHistories(tier string) [][]int {
	depth := 4
	if tier == "thorough" {
		depth = 5
	}
	var out [][]int
	var rec func(cur []int)
	rec = func(cur []int) {
		if len(cur) > 0 && cur[len(cur)-1] <= 2 {
			out = append(out, append([]int{}, cur...)) // histories ending in a lookup
		}
		if len(cur) == depth {
			return
		}
		for op := range fOps {
			rec(append(cur, op))
		}
	}
	rec(nil)
	return out
}

func checkFetcher(h []int) (string, string) {
	got, want, x := runFetcher(h)
	var names []string
	for _, o := range h {
		names = append(names, fOps[o])
	}
	switch x.Outcome {
	case vsched.Crash:
		return "crash", fmt.Sprintf("history %v: %s", names, x.Crash.Value)
	case vsched.Deadlock, vsched.Horizon:
		return "lookup-never-returns", fmt.Sprintf("history %v", names)
	}
	// (the exact instant the entry was stored lies within the lookup; the reference stamps it at the lookup's end: a
	// lookup exactly at the boundary is not in the alphabet)
	if !reflect.DeepEqual(got, want) {
		return "differs-from-reference", fmt.Sprintf("history %v: got %+v want %+v", names, got, want)
	}
	return "", ""
}

// ---- (e) shapes of a provider's answer body --------------------------------------------------------------------

var bodyShapes = []struct {
	name, body, want string // want = the address the body states ("" = not an address: the next provider is asked)
	// cut > 0: on the first attempt the connection is closed after that many bytes of the body (the reader ends with
	// io.ErrUnexpectedEOF): a transport error, the provider is asked again and then answers completely
	cut int
}{
	{"ipv4", "192.0.2.44", "192.0.2.44", 0},
	{"ipv4-cut-to-a-shorter-address", "192.0.2.44\n", "192.0.2.44", 9},
	{"ipv4-cut-inside-an-octet-boundary", "192.0.2.44\n", "192.0.2.44", 8},
	{"ipv6-cut-to-a-shorter-address", "2001:db8::7334\n", "2001:db8::7334", 13},
	{"ipv4-crlf", "192.0.2.44\r\n", "192.0.2.44", 0},
	{"ipv4-padded", "  192.0.2.44 \n\n", "192.0.2.44", 0},
	{"ipv6-compressed", "2001:db8::7334\n", "2001:db8::7334", 0},
	{"ipv6-full-notation", "2001:0db8:85a3:0000:0000:8a2e:0370:7334\n", "2001:db8:85a3::8a2e:370:7334", 0},
	{"ipv6-full-notation-padded", "   2001:0db8:85a3:0000:0000:8a2e:0370:7334  \n", "2001:db8:85a3::8a2e:370:7334", 0},
	{"ipv6-full-notation-then-text", "2001:0db8:85a3:0000:0000:8a2e:0370:7334 (forwarded for 10.0.0.1)", "", 0},
	{"ipv4-then-text", "192.0.2.44 is your address", "", 0},
	{"five-octets", "192.0.2.44.5", "", 0},
	{"ipv6-with-zone", "fe80::1%eth0\n", "", 0},
	{"ipv6-global-with-zone", "2001:db8::7334%1", "", 0},
	{"empty", "", "", 0},
	{"html-page", "<html>" + strings.Repeat("x", 5000) + "192.0.2.44</html>", "", 0},
}

type bodyRT struct {
	order []string
	body  string
	cut   int
	log   []int
}

type cutReader struct {
	data []byte
	off  int
}

func (c *cutReader) Read(p []byte) (int, error) {
	if c.off >= len(c.data) {
		return 0, io.ErrUnexpectedEOF
	}
	n := copy(p, c.data[c.off:])
	c.off += n
	return n, nil
}

func (t *bodyRT) RoundTrip(req *http.Request) (*http.Response, error) {
	vsched.Yield("http")
	idx := -1
	for i, u := range t.order {
		if req.URL.String() == u {
			idx = i
		}
	}
	t.log = append(t.log, idx)
	body := "198.51.100.200\n" // every provider but the first gives a plain valid answer
	if idx == 0 {
		body = t.body
		first := true
		for _, k := range t.log[:len(t.log)-1] {
			if k == 0 {
				first = false
			}
		}
		if t.cut > 0 && first {
			return &http.Response{StatusCode: 200, Status: "200 OK", Body: io.NopCloser(&cutReader{data: []byte(body[:t.cut])}), ContentLength: int64(len(body)), Header: http.Header{}, Request: req}, nil
		}
	}
	return &http.Response{StatusCode: 200, Status: "200 OK", Body: io.NopCloser(strings.NewReader(body)), Header: http.Header{}, Request: req}, nil
}

func checkBody(i int) (string, string) {
	sh := bodyShapes[i]
	t := &bodyRT{order: publicip.VerifCheckers(), body: sh.body, cut: sh.cut}
	var ip net.IP
	var err error
	vrand.Src = jit{0.5}
	defer func() { vrand.Src = nil }()
	x := vsched.Run(vsched.Config{MaxVirtual: time.Hour}, nil, func() {
		bp := backoff.NewExponentialBackOff()
		bp.InitialInterval = 500 * time.Millisecond
		bp.MaxInterval = 3 * time.Second
		ip, err = publicip.GetPublicIP(context.Background(), &http.Client{Transport: t}, bp)
	})
	if x.Outcome != vsched.Normal {
		return "no-answer", fmt.Sprintf("body %q: outcome %s", sh.name, x.Outcome)
	}
	want := sh.want
	if want == "" {
		want = "198.51.100.200"
	}
	if err != nil || ip == nil || ip.String() != want {
		return "wrong-address-for-this-body", fmt.Sprintf("first provider's body %q (%s): got ip=%v err=%v, want %s", sh.body[:min(len(sh.body), 60)], sh.name, ip, err, want)
	}
	asked2 := false
	for _, k := range t.log {
		if k > 0 {
			asked2 = true
		}
	}
	if (sh.want != "") == asked2 {
		return "provider-sequence-for-this-body", fmt.Sprintf("body %s: providers asked %v", sh.name, t.log)
	}
	return "", ""
}

func pCount() int {
	n := 3
	for i := 0; i < 5; i++ {
		n *= len(respKinds)
	}
	return n
}

func pChunks() int { return (pCount() + pChunk - 1) / pChunk }

const pChunk = 125

func count(tier string) int { return len(aItems(tier)) + 1 + pChunks() + 1 + 1 }

func run(tier string, idx int, r *core.ScnResult) {
	as := aItems(tier)
	if idx < len(as) {
		sc := &as[idx]
		r.Nontrivial = len(sc.Beh) > 0
		var before, doc *result.Results
		var calls map[string]int
		e := &vsched.Explorer{Bound: sc.Bound} // switches at blocking points are free: every completion order of the lookup threads
		e.RunOne = func(prefix []int, sig []uint32) *vsched.Exec {
			var x *vsched.Exec
			x, before, doc, calls = runA(sc, prefix, sig)
			return x
		}
		e.Check = func(x *vsched.Exec, cost int) bool {
			if x.Outcome == vsched.Diverged {
				r.Infra = "replay diverged"
				return false
			}
			k, d := checkA(sc, x, before, doc, calls)
			if k != "" {
				r.Fail(core.Failure{Key: "C18 enrichment/" + k, What: d, Scenario: core.JSON(map[string]any{"enrich": sc}), Choices: x.Choices(), Bound: cost})
				return false
			}
			b, _ := json.Marshal(doc.Traceroute.Runs[0])
			r.Outcome(core.Hash(string(b)))
			return true
		}
		e.Explore()
		r.Stats = e.Stats
		if idx%997 == 0 {
			r.Sample = core.JSON(sc)
		}
		return
	}
	idx -= len(as)
	if idx == 0 {
		// explicit-state breadth-first search over cache histories
		depth := 6
		if tier == "thorough" {
			depth = 7
		}
		seen := map[string]bool{}
		frontier := [][]int{{}}
		states, transitions := 0, 0
		_, _, s0 := runHistory(nil)
		seen[s0] = true
		states = 1
		for d := 0; d < depth; d++ {
			var next [][]int
			for _, h := range frontier {
				for op := range opNames {
					h2 := append(append([]int{}, h...), op)
					got, want, st := runHistory(h2)
					transitions++
					r.Evals++
					if !reflect.DeepEqual(got, want) {
						var names []string
						for _, o := range h2 {
							names = append(names, opNames[o])
						}
						k := "value"
						last := len(got) - 1
						if last >= 0 && got[last].calls != want[last].calls {
							k = "callback-invocations"
						}
						if last >= 0 && got[last].err != want[last].err {
							k = "error"
						}
						r.Fail(core.Failure{Key: "C18 cache/" + k + "-differs-from-reference", What: fmt.Sprintf("history %v: got %+v want %+v", names, got, want), Scenario: core.JSON(map[string]any{"history": h2})})
						continue
					}
					// every history is extended (the state key only counts distinct abstract states: the reference
					// value sequence is part of the observation, not of the key)
					if !seen[st] {
						seen[st] = true
						states++
					}
					next = append(next, h2)
				}
			}
			frontier = next
		}
		r.Nontrivial = true
		r.Outcome(fmt.Sprintf("cache-bfs states=%d", states))
		r.Stats.Nodes = int64(states)
		r.Stats.Steps = int64(transitions)
		r.Stats.Executions = int64(transitions)
		r.Sample = core.JSON(map[string]any{"cache_bfs": map[string]any{"depth": depth, "abstract_states": states, "transitions": transitions, "alphabet": opNames}})
		return
	}
	// provider scripts
	c := idx - 1
	r.Nontrivial = true
	if c == pChunks()+1 {
		for i := range bodyShapes {
			r.Evals++
			r.Stats.Executions++
			if k, d := checkBody(i); k != "" {
				r.Fail(core.Failure{Key: "C18 public-ip/body-shapes/" + k, What: d, Scenario: core.JSON(map[string]any{"body_shape": i})})
			}
		}
		r.Outcome("body-shapes")
		return
	}
	if c == pChunks() {
		// fetcher histories
		hs := fHistories(tier)
		for _, h := range hs {
			r.Evals++
			r.Stats.Executions++
			if k, d := checkFetcher(h); k != "" {
				r.Fail(core.Failure{Key: "C18 public-ip-fetcher/" + k, What: d, Scenario: core.JSON(map[string]any{"fetcher_history": h})})
			}
		}
		r.Outcome(fmt.Sprintf("fetcher-histories=%d", len(hs)))
		r.Sample = core.JSON(map[string]any{"fetcher_histories": len(hs), "alphabet": fOps})
		return
	}
	for i := c * pChunk; i < (c+1)*pChunk && i < pCount(); i++ {
		sc := &PScn{Jitter: []float64{0, 0.5, 0.999}[i%3]}
		k := i / 3
		for p := 0; p < 5; p++ {
			sc.Script = append(sc.Script, k%len(respKinds))
			k /= len(respKinds)
		}
		x, ip, err, log, took := runP(sc)
		r.Evals++
		r.Stats.Executions++
		r.Stats.Steps += int64(x.Steps)
		key, d := checkP(sc, x, ip, err, log, took)
		if key != "" {
			r.Fail(core.Failure{Key: "C18 public-ip/" + key, What: d + fmt.Sprintf(" ; script %v", sc.Script), Scenario: core.JSON(map[string]any{"providers": sc})})
		}
		r.Outcome(core.Hash(fmt.Sprint(ip), err != nil, len(log)))
		if i%1873 == 0 {
			r.Sample = core.JSON(map[string]any{"providers": sc, "requests": log, "ip": fmt.Sprint(ip)})
		}
	}
}

func replay(scn json.RawMessage, choices []int) (string, bool) {
	var w struct {
		E *AScn `json:"enrich"`
		H []int `json:"history"`
		P *PScn `json:"providers"`
		F []int `json:"fetcher_history"`
		B *int  `json:"body_shape"`
	}
	json.Unmarshal(scn, &w)
	switch {
	case w.E != nil:
		x, before, doc, calls := runA(w.E, choices, nil)
		k, d := checkA(w.E, x, before, doc, calls)
		if k != "" {
			return fmt.Sprintf("enrichment %s choices %v\nORACLE FAILED: %s: %s\n", scn, choices, k, d), false
		}
	case w.H != nil:
		got, want, _ := runHistory(w.H)
		if !reflect.DeepEqual(got, want) {
			return fmt.Sprintf("history %v\nORACLE FAILED: got %+v want %+v\n", w.H, got, want), false
		}
	case w.B != nil:
		if k, d := checkBody(*w.B); k != "" {
			return fmt.Sprintf("body shape %d\nORACLE FAILED: %s: %s\n", *w.B, k, d), false
		}
	case w.F != nil:
		if k, d := checkFetcher(w.F); k != "" {
			return fmt.Sprintf("fetcher history %v\nORACLE FAILED: %s: %s\n", w.F, k, d), false
		}
	case w.P != nil:
		x, ip, err, log, took := runP(w.P)
		k, d := checkP(w.P, x, ip, err, log, took)
		if k != "" {
			return fmt.Sprintf("providers %s requests %v\nORACLE FAILED: %s: %s\n", scn, log, k, d), false
		}
	}
	return "oracle: ok\n", true
}

func init() {
	core.Register(&core.Property{ID: "C18", Level: "model_checking",
		Rule: "(a) every document of <=3 hops + destination over {A4, the same address in 16-byte form, B6, empty, C4} x every assignment of resolver behaviour {names, empty list, error, slow} to the distinct addresses, each explored over every completion order of the concurrent lookup threads (switches at blocking points are free); " +
			"(b) explicit-state breadth-first search over all cache histories of depth <=6 (thorough 7) over {get(k1) ok, get(k1) error, get(k2) ok, advance to 1ns before expiry, advance past expiry} on the real cache package on the virtual clock, successor = replay on a flushed cache + 1 operation, every step compared with a reference map (value, error, callback invocations); " +
			"(c) GetPublicIP against all 5^5 provider scripts over {200 valid, 200 invalid body, 4xx, 5xx, transport error} x backoff jitter {min, mid, max}; oracle: names = what the resolver returned for that same address; failures never cached, successes not re-queried before expiry; providers asked in the repository's order, none after the first valid answer, client errors and invalid bodies final; distinct = distinct enriched documents / (ip, error?, request count); " +
			"(d) every history of <=4 (thorough 5) operations over {lookup while the providers answer an IPv4 / an IPv6 address / fail, advance 1h, advance past 2h} on one real PublicIPFetcher vs a reference (value, error, providers contacted?)",
		Count: count, Run: run, Replay: replay, Exhaustive: true,
		Assumptions: []string{"a 5xx status is given a body that is not an address (a non-4xx status with a parsable body is treated as an answer by the code, which the statement neither requires nor forbids)",
			"go-cache and cenkalti/backoff are instrumented copies (time.Now / timers / jitter on the harness's clock and random source); a provider that never answers is C08's subject"}})
}
