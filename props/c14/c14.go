// Package c14: no data races between sending, receiving and concurrent runs.
// Built with -race; the scheduler's hand-offs are hidden from the detector and
// the shims publish exactly the happens-before edges of the primitives they
// replace, so a report means: two accesses unordered by the program's own
// synchronisation, in this schedule.
package c14

import (
	"context"
	"encoding/json"
	"fmt"
	"net"
	"os"
	"path/filepath"
	"sort"
	"strings"

	"github.com/DataDog/datadog-traceroute/cache"
	"github.com/DataDog/datadog-traceroute/icmp"
	"github.com/DataDog/datadog-traceroute/packets"
	"github.com/DataDog/datadog-traceroute/result"
	"github.com/DataDog/datadog-traceroute/reversedns"

	"verif/props/core"
	"verif/props/proto"
	"verif/simnet"
	"verif/vsched"
)

// ---- race report capture --------------------------------------------------------------------------------

var logOff = map[string]int64{}

// newReports returns the detector's reports written since the last call.
func newReports() []string {
	lp := ""
	for _, kv := range strings.Fields(os.Getenv("GORACE")) {
		if strings.HasPrefix(kv, "log_path=") {
			lp = strings.TrimPrefix(kv, "log_path=")
		}
	}
	if lp == "" {
		return nil
	}
	files, _ := filepath.Glob(fmt.Sprintf("%s.%d", lp, os.Getpid()))
	var out []string
	for _, f := range files {
		b, err := os.ReadFile(f)
		if err != nil {
			continue
		}
		off := logOff[f]
		if int64(len(b)) <= off {
			continue
		}
		chunk := string(b[off:])
		logOff[f] = int64(len(b))
		for _, blk := range strings.Split(chunk, "==================") {
			if strings.Contains(blk, "DATA RACE") {
				out = append(out, blk)
			}
		}
	}
	return out
}

const repoPrefix = "github.com/DataDog/datadog-traceroute/"

type access struct {
	top  string // innermost non-runtime frame
	repo string // innermost repository frame
	line string
}

func parseReport(blk string) []access {
	var accs []access
	lines := strings.Split(blk, "\n")
	for i := 0; i < len(lines); i++ {
		l := lines[i]
		if !(strings.Contains(l, " at 0x") && strings.Contains(l, " by ")) {
			continue
		}
		var a access
		for j := i + 1; j < len(lines) && strings.TrimSpace(lines[j]) != ""; j += 2 {
			fn := strings.TrimSpace(lines[j])
			fn = strings.TrimSuffix(fn, "()")
			if k := strings.Index(fn, "("); k > 0 && !strings.Contains(fn[:k], ".") {
				fn = fn[:k]
			}
			// the access belongs to whichever of {repository, harness} owns the innermost frame among those two
			// (frames of the standard library and of third-party packages in between are skipped)
			if a.top == "" && strings.HasPrefix(fn, "verif/props/proto.CallerSerialises") {
				// the harness in the caller's role: reading the result RunTraceroute returned is the caller's access
				a.top, a.repo = "caller", "(the caller, reading the result it was returned)"
			}
			if a.top == "" && (strings.HasPrefix(fn, repoPrefix) || strings.HasPrefix(fn, "verif/")) {
				a.top = fn
				if j+1 < len(lines) {
					a.line = strings.TrimSpace(lines[j+1])
				}
			}
			if a.repo == "" && strings.HasPrefix(fn, repoPrefix) {
				a.repo = strings.TrimPrefix(fn, repoPrefix)
				if k := strings.Index(a.repo, ".func"); k > 0 {
					a.repo = a.repo[:k]
				}
			}
		}
		accs = append(accs, a)
		if len(accs) == 2 {
			break
		}
	}
	return accs
}

// classify returns the finding key of a report ("" = harness artefact, ignored).
func classify(blk string) string {
	accs := parseReport(blk)
	if len(accs) < 2 {
		return ""
	}
	for _, a := range accs {
		if strings.HasPrefix(a.top, "verif/") || a.top == "" || a.repo == "" {
			return ""
		}
	}
	fr := []string{accs[0].repo, accs[1].repo}
	sort.Strings(fr)
	return fr[0] + "|" + fr[1]
}

// ---- scenarios --------------------------------------------------------------------------------------------

type Scn struct {
	Kind  string       `json:"kind"` // proto | rt | rdns | alloc
	Items []proto.Scn  `json:"items,omitempty"`
	RT    *proto.RTScn `json:"rt,omitempty"`
	Bound int          `json:"bound"`
	Name  string       `json:"name"`
}

func early(v string, flow int) proto.Scn {
	vi := proto.Info(v)
	s := proto.Scn{Variant: v, First: 1, Last: 3, Dest: 3, Flow: flow, TimeoutMs: 200, DelayMs: 10, IPIDBase: 1400, EchoBase: 140}
	// replies for TTL 2 and 3 are already queued when those probes are being sent (identifiers are predictable),
	// and every genuine reply arrives twice
	s.Hops = map[int]proto.HopSpec{1: {Copies: 1}, 2: {Copies: 1}, 3: {Copies: 1}}
	form := vi.TEForm
	s.Inject = []proto.Inject{
		{OnTTL: 1, AnswerTTL: 2, Form: form, From: proto.Router(vi.V6, flow, 2).String(), DelayUs: 9990, Tag: "early"},
		{OnTTL: 1, AnswerTTL: 3, Form: vi.DestForm, From: "", DelayUs: 19990, Tag: "early"},
		{OnTTL: 2, AnswerTTL: 3, Form: vi.DestForm, From: "", DelayUs: 9999, Tag: "early"},
	}
	for i := range s.Inject {
		if s.Inject[i].From == "" {
			s.Inject[i].From = s.Target().String()
		}
	}
	return s
}

func scenarios(tier string) []Scn {
	var out []Scn
	b := 1
	if tier == "thorough" {
		b = 2
	}
	for _, v := range []string{"icmp4", "icmp6", "udp4", "udp6", "sack", "sackstrict", "syn", "synparis"} {
		out = append(out, Scn{Kind: "proto", Items: []proto.Scn{early(v, 0)}, Bound: b, Name: v + "/replies-queued-before-their-probe"})
	}
	for _, v := range []string{"icmp4", "icmp6", "udp4", "udp6", "sack", "syn", "synparis"} {
		// the k-th send fails while replies to the earlier probes are being read and matched: the sender's failure path
		// (whatever it undoes or records) runs against the receiver's bookkeeping
		for _, k := range []int{2, 3} {
			sc := early(v, 0)
			sc.Faults = []simnet.Fault{{Op: "WriteTo", K: k, Class: "fatal"}}
			out = append(out, Scn{Kind: "proto", Items: []proto.Scn{sc}, Bound: b, Name: fmt.Sprintf("%s/send-%d-fails-while-replies-are-read", v, k)})
			// the converse: the k-th read fails for good (the capture socket went away) while the sender is still recording
			// probes: whatever the receiver puts into its error is read under the same discipline as everything else
			rc := early(v, 0)
			rc.Faults = []simnet.Fault{{Op: "Read", K: 3 * k, Class: "fatal"}}
			out = append(out, Scn{Kind: "proto", Items: []proto.Scn{rc}, Bound: b, Name: fmt.Sprintf("%s/read-%d-fails-while-probes-are-sent", v, 3*k)})
		}
	}
	for _, v := range []string{"sack", "sackstrict"} {
		// the target acknowledges a probe WITHOUT selective-acknowledgement blocks while later probes are still going out:
		// the receiver's give-up path (whatever it reports about the run so far) runs against the sender's bookkeeping
		for _, d := range []int{1, 2} {
			sc := proto.Scn{Variant: v, First: 1, Last: 6, Dest: d, TimeoutMs: 200, DelayMs: 10, IPIDBase: 1400, EchoBase: 140}
			sc.Hops = map[int]proto.HopSpec{}
			for t := d; t <= 6; t++ {
				sc.Hops[t] = proto.HopSpec{AtTarget: true, Form: "plainack", DelayUs: 9995}
			}
			out = append(out, Scn{Kind: "proto", Items: []proto.Scn{sc}, Bound: b, Name: fmt.Sprintf("%s/acknowledgement-without-blocks-while-sending/dest-%d", v, d)})
		}
	}
	for _, v := range []string{"sack", "sackstrict"} {
		// the target retransmits its SYN-ACK while the probes are going out (it passes the tuple filter): whatever the
		// receiver does with it must not touch what the sender reads
		for _, ms := range []int{5, 15, 25} {
			sc := early(v, 0)
			sc.SynAck = &simnet.SynAckSpec{Enabled: true, ISN: 0x1000, AckNum: 0x2000, SackPermitted: true, LateCopyMs: ms}
			out = append(out, Scn{Kind: "proto", Items: []proto.Scn{sc}, Bound: b, Name: fmt.Sprintf("%s/synack-retransmitted-%dms-into-the-probe-phase", v, ms)})
		}
	}
	for _, v := range []string{"icmp4", "icmp6", "udp4", "udp6", "sackstrict", "syn", "synparis"} {
		a, c := early(v, 0), early(v, 1)
		out = append(out, Scn{Kind: "proto", Items: []proto.Scn{a, c}, Bound: 1, Name: v + "+" + v + "/two-runs-at-once"})
	}
	for _, v := range []string{"udp4", "icmp6"} {
		// two runs at once, each also receiving packets of protocols the tool does not speak and undecodable bytes (capture
		// filtering is an optimisation: off here), so that both receivers go through the parser's skip / error paths together
		a, c := early(v, 0), early(v, 1)
		for _, sc := range []*proto.Scn{&a, &c} {
			sc.FiltersOff = true
			form := proto.Info(v).TEForm
			sc.Inject = append(sc.Inject,
				proto.Inject{OnTTL: 1, AnswerTTL: 1, Form: form, From: sc.Target().String(), DelayUs: 1200, Tag: "noise", NoiseKind: "protocol", NoiseArg: 47},
				proto.Inject{OnTTL: 2, AnswerTTL: 2, Form: form, From: sc.Target().String(), DelayUs: 1200, Tag: "noise", NoiseKind: "protocol", NoiseArg: 132},
				proto.Inject{OnTTL: 2, AnswerTTL: 2, Form: form, From: sc.Target().String(), DelayUs: 1300, Tag: "noise", NoiseKind: "truncate", NoiseArg: 9})
		}
		out = append(out, Scn{Kind: "proto", Items: []proto.Scn{a, c}, Bound: 1, Name: v + "+" + v + "/two-runs-at-once/foreign-protocols-and-runts"})
	}
	for _, pr := range []struct{ p, m, h string }{{"udp", "", "203.0.113.77"}, {"icmp", "", "203.0.113.77"}, {"tcp", "sack", "198.18.0.9"}, {"tcp", "syn", "203.0.113.77"}, {"udp", "", "2001:db8::77"}, {"icmp", "", "2001:db8::77"}} {
		r := proto.RTScn{Hostname: pr.h, Protocol: pr.p, Method: pr.m, MinTTL: 1, MaxTTL: 4, DelayMs: 10, TimeoutMs: 200, Queries: 2, E2e: 2, Dest: 3, PublicIP: "ok", ReverseDNS: true, UseListenerPort: pr.m == "sack", IPIDBase: 1400, EchoBase: 140, WantV6: strings.Contains(pr.h, ":")}
		fam := ""
		if r.WantV6 {
			fam = "6"
		}
		out = append(out, Scn{Kind: "rt", RT: &r, Bound: 1, Name: "request/" + pr.p + fam + "-" + pr.m + "/2-runs+2-probes+public-ip+rdns"})
	}
	for _, pr := range []struct{ p, m, h string }{{"udp", "", "203.0.113.77"}, {"tcp", "syn", "203.0.113.77"}} {
		// every run and every probe of the request fails (no sink can be opened): all of them report into the shared error list
		r := proto.RTScn{Hostname: pr.h, Protocol: pr.p, Method: pr.m, MinTTL: 1, MaxTTL: 4, DelayMs: 10, TimeoutMs: 200, Queries: 2, E2e: 2, Dest: 3, PublicIP: "ok", IPIDBase: 1400, EchoBase: 140,
			Faults: []simnet.Fault{{Op: "NewSink", K: 0, Class: "fatal"}}}
		out = append(out, Scn{Kind: "rt", RT: &r, Bound: 2, Name: "request/" + pr.p + "-" + pr.m + "/every-run-and-probe-fails"})
	}
	{
		// the public-IP lookup outlasts every run and probe by far (20 s); the caller serialises the result when the call
		// returns and again 30 s later: nothing the request started may still be writing to it
		r := proto.RTScn{Hostname: "203.0.113.77", Protocol: "udp", MinTTL: 1, MaxTTL: 3, DelayMs: 10, TimeoutMs: 200, Queries: 1, E2e: 1, Dest: 2, PublicIP: "slow", LingerMs: 30000, IPIDBase: 1400, EchoBase: 140}
		out = append(out, Scn{Kind: "rt", RT: &r, Bound: 1, Name: "request/udp-/slow-public-ip-and-a-caller-that-keeps-reading"})
	}
	{
		r := proto.RTScn{Hostname: "203.0.113.77", Protocol: "udp", MinTTL: 1, MaxTTL: 3, DelayMs: 10, TimeoutMs: 200, Queries: 1, E2e: 1, Dest: 2, ReverseDNS: true, IPIDBase: 1400, EchoBase: 140}
		out = append(out, Scn{Kind: "rt2", RT: &r, Bound: 1, Name: "two-requests-at-once/udp"})
	}
	out = append(out, Scn{Kind: "rdns", Bound: b + 1, Name: "reverse-dns/3-addresses"})
	out = append(out, Scn{Kind: "rdns-dup", Bound: b + 1, Name: "reverse-dns/one-path-two-runs-qualified-names"})
	out = append(out, Scn{Kind: "alloc", Bound: b + 1, Name: "allocators/3-callers"})
	return out
}

func runOne(sc *Scn, prefix []int, sig []uint32) *vsched.Exec {
	switch sc.Kind {
	case "proto":
		var ps []*proto.Scn
		for i := range sc.Items {
			c := sc.Items[i]
			ps = append(ps, &c)
		}
		r := proto.RunScns(vsched.Config{Prefix: prefix, PrefixSig: sig, DelayBounded: len(ps) > 1}, ps...)
		return r.X
	case "rt":
		c := *sc.RT
		return proto.RunRT(vsched.Config{Prefix: prefix, PrefixSig: sig, DelayBounded: true}, &c).X
	case "rt2":
		c := *sc.RT
		return proto.RunRT2(vsched.Config{Prefix: prefix, PrefixSig: sig, DelayBounded: true}, &c).X
	case "rdns":
		cache.Cache.Flush()
		old := reversedns.LookupAddrFn
		reversedns.LookupAddrFn = func(ctx context.Context, a string) ([]string, error) {
			vsched.Yield("rdns")
			return []string{"n-" + a}, nil
		}
		defer func() { reversedns.LookupAddrFn = old }()
		return vsched.Run(vsched.Config{Prefix: prefix, PrefixSig: sig}, nil, func() {
			reversedns.GetReverseDnsForIPs([]net.IP{{198, 51, 100, 1}, {198, 51, 100, 2}, net.ParseIP("2001:db8::3")})
		})
	case "rdns-dup":
		// the same address several times in one enrichment (several runs over one path), names as the real resolver returns
		// them (fully qualified, trailing dot), and the caller reading the names it got: lookups answered from the entry
		// another lookup has just cached hand out the same slice
		cache.Cache.Flush()
		old := reversedns.LookupAddrFn
		reversedns.LookupAddrFn = func(ctx context.Context, a string) ([]string, error) {
			vsched.Yield("rdns")
			return []string{"host-" + a + ".example.net.", "alias-" + a + ".example.net."}, nil
		}
		defer func() { reversedns.LookupAddrFn = old }()
		return vsched.Run(vsched.Config{Prefix: prefix, PrefixSig: sig, DelayBounded: true}, nil, func() {
			doc := &result.Results{Traceroute: result.Traceroute{Runs: []result.TracerouteRun{{}, {}}}}
			for i := range doc.Traceroute.Runs {
				doc.Traceroute.Runs[i].Destination.IPAddress = net.IP{203, 0, 113, 9}
				doc.Traceroute.Runs[i].Hops = []*result.TracerouteHop{{TTL: 1, IPAddress: net.IP{198, 51, 100, 1}}, {TTL: 2, IPAddress: net.IP{203, 0, 113, 9}, IsDest: true}}
			}
			doc.EnrichWithReverseDns()
			proto.CallerSerialises(doc)
		})
	case "alloc":
		return vsched.Run(vsched.Config{Prefix: prefix, PrefixSig: sig}, nil, func() {
			n := 0
			for i := 0; i < 3; i++ {
				vsched.Go(func() {
					packets.AllocPacketID(30)
					icmp.VerifNextEchoID()
					n++
				})
			}
			vsched.Block(cnt{&n}, -1, "join")
		})
	}
	panic("kind")
}

type cnt struct{ p *int }

//go:norace
func (c cnt) Ready() bool { return *c.p >= 3 }

func run(tier string, idx int, r *core.ScnResult) {
	sc := &scenarios(tier)[idx]
	r.Nontrivial = true
	newReports() // drop anything left over
	e := &vsched.Explorer{Bound: sc.Bound, MaxExecs: 60000}
	e.RunOne = func(prefix []int, sig []uint32) *vsched.Exec { return runOne(sc, prefix, sig) }
	e.Check = func(x *vsched.Exec, cost int) bool {
		if x.Outcome == vsched.Diverged {
			r.Infra = fmt.Sprintf("%s: replay diverged at %d", sc.Name, x.DivergeAt)
			return false
		}
		if x.Outcome == vsched.Crash {
			r.Fail(core.Failure{Key: "C14 " + sc.Name + "/crash", What: x.Crash.Value + "\n" + x.Crash.Stack, Scenario: core.JSON(sc), Choices: x.Choices(), Bound: cost})
			return false
		}
		for _, blk := range newReports() {
			k := classify(blk)
			r.Branch("reports-seen")
			if k == "" {
				r.Branch("harness-artefact-ignored")
				continue
			}
			what := strings.TrimSpace(blk)
			if len(what) > 3000 {
				what = what[:3000]
			}
			r.Fail(core.Failure{Key: "C14 race " + k, What: what, Scenario: core.JSON(sc), Choices: x.Choices(), Bound: cost})
		}
		r.Outcome(fmt.Sprintf("%s/%s", sc.Name, x.Outcome))
		return true
	}
	e.Explore()
	r.Stats = e.Stats
	r.Sample = core.JSON(map[string]any{"scenario": sc.Name, "executions": e.Stats.Executions})
}

func replay(scn json.RawMessage, choices []int) (string, bool) {
	var sc Scn
	if err := json.Unmarshal(scn, &sc); err != nil {
		return err.Error(), false
	}
	newReports()
	x := runOne(&sc, choices, nil)
	s := fmt.Sprintf("scenario %s choices %v outcome %s\n", sc.Name, choices, x.Outcome)
	bad := false
	for _, blk := range newReports() {
		if k := classify(blk); k != "" {
			s += "ORACLE FAILED: race " + k + "\n" + blk + "\n"
			bad = true
		}
	}
	if bad {
		return s, false
	}
	return s + "oracle: ok\n", true
}

func init() {
	core.Register(&core.Property{ID: "C14", Level: "model_checking",
		Rule: "scenarios: every parallel-capable variant (icmp4/6, udp4/6, sack strict/relaxed; plus syn) with replies for TTL t already queued when probe t is being sent and every reply duplicated; two such runs at once; RunTraceroute with 2 runs + 2 probes + public IP + reverse DNS per protocol; GetReverseDnsForIPs with 3 addresses; both allocators with 3 callers; " +
			"each explored over all schedules within the deviation bound under the Go race detector, with the scheduler's hand-offs hidden from it (RaceDisable around every hand-off, all scheduler/shim code norace) and the shims publishing the edges of the primitives they replace (mutex, once, waitgroup, errgroup, context cancel->Err, channel close->receive by the runtime itself, thread create/join); the simulated wire publishes no edge between a send and the read returning its reply; " +
			"oracle: zero reports whose two accesses both lie in repository code (reports with a harness frame innermost are artefacts of the hidden hand-offs and are ignored); each report is attributed to the execution that produced it; distinct = (scenario, outcome)",
		Count: func(t string) int { return len(scenarios(t)) }, Run: run, Replay: replay, Exhaustive: true, NeedsNetns: true, Race: true,
		Assumptions: []string{"the detector keeps a bounded access history per word: it can miss, it does not invent", "races are those visible to happens-before analysis within the explored schedule bound"}})
}
