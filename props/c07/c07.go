// Package c07: the parallel engine's merge is schedule-independent (first
// accepted reply per TTL wins, a destination reply overrides a non-destination
// one), for all delivery sequences and all interleavings within the bounds.
package c07

import (
	"context"
	"encoding/json"
	"fmt"
	"net/netip"
	"time"

	"github.com/DataDog/datadog-traceroute/common"

	"strings"

	"verif/props/c03"
	"verif/props/c05"
	"verif/props/core"
	"verif/props/proto"
	"verif/shim/vtime"
	"verif/simnet"
	"verif/vsched"
)

type Delivery struct {
	TTL  uint8 `json:"ttl"`
	Resp int   `json:"resp"` // responder 0/1
	Dest bool  `json:"dest"`
}

type Scenario struct {
	First  uint8      `json:"first"`
	Last   uint8      `json:"last"`
	Seq    []Delivery `json:"seq"`
	Bound  int        `json:"bound"`
	Clock  bool       `json:"clock_deviation"`
	Cancel int        `json:"cancel_at_ms,omitempty"` // external cancellation instant (0 = never)
}

var addrs = []netip.Addr{netip.MustParseAddr("192.0.2.1"), netip.MustParseAddr("192.0.2.2")}

const (
	timeout = 30 * time.Millisecond
	poll    = 10 * time.Millisecond
	delay   = 4 * time.Millisecond
	// the RTT field encodes the delivery's position; the unit is large so that later deliveries carry round-trip times
	// beyond the timeout parameter (a slow reply accepted before the deadline is still an accepted reply)
	rttUnit = 20 * time.Millisecond
)

// rttCode: the round-trip time a driver reports is its own business (the engine keeps the EARLIEST accepted reply, not
// the fastest): positions are encoded pairwise swapped (1->2, 2->1, 3->4, ...), so that a later delivery carries a
// smaller round-trip time than the one before it as often as a larger one. The code is its own inverse.
func rttCode(pos int) int { return ((pos - 1) ^ 1) + 1 }

type driver struct {
	seq        []Delivery
	pos        int
	sent       []uint8
	accepted   []Delivery
	sentAtDest int // number of probes sent when the first destination delivery was handed to the engine (-1 = none)
	sendCalls  int
}

func (d *driver) GetDriverInfo() common.TracerouteDriverInfo {
	return common.TracerouteDriverInfo{SupportsParallel: true}
}

func (d *driver) SendProbe(ttl uint8) error {
	vsched.Yield("drv.send")
	d.sent = append(d.sent, ttl)
	return nil
}

func (d *driver) ReceiveProbe(to time.Duration) (*common.ProbeResponse, error) {
	vsched.Yield("drv.recv")
	if d.pos < len(d.seq) {
		x := d.seq[d.pos]
		d.pos++
		d.accepted = append(d.accepted, x)
		if x.Dest && d.sentAtDest < 0 {
			d.sentAtDest = len(d.sent)
		}
		return &common.ProbeResponse{TTL: x.TTL, IP: addrs[x.Resp], RTT: time.Duration(rttCode(len(d.accepted))) * rttUnit, IsDest: x.Dest}, nil
	}
	vtime.Sleep(to)
	return nil, common.ErrPacketDidNotMatchTraceroute
}

type obs struct {
	res []*common.ProbeResponse
	err error
	d   *driver
}

func runOnce(sc *Scenario, prefix []int, sig []uint32, trace bool) (*vsched.Exec, *obs) {
	o := &obs{d: &driver{seq: sc.Seq, sentAtDest: -1}}
	x := vsched.Run(vsched.Config{ClockDeviation: sc.Clock, Prefix: prefix, PrefixSig: sig, Trace: trace, MaxVirtual: time.Minute}, nil, func() {
		p := common.TracerouteParallelParams{TracerouteParams: common.TracerouteParams{
			MinTTL: sc.First, MaxTTL: sc.Last, TracerouteTimeout: timeout, PollFrequency: poll, SendDelay: delay}}
		o.res, o.err = common.TracerouteParallel(context.Background(), o.d, p)
	})
	return x, o
}

// reference model: fold + clip
func reference(sc *Scenario, accepted []Delivery) []*Delivery {
	slots := make([]*Delivery, int(sc.Last)+1)
	for i := range accepted {
		a := accepted[i]
		prev := slots[a.TTL]
		if prev == nil || (!prev.Dest && a.Dest) {
			slots[a.TTL] = &accepted[i]
		}
	}
	end := len(slots)
	for t := 0; t < len(slots); t++ {
		if slots[t] != nil && slots[t].Dest {
			end = t + 1
			break
		}
	}
	return slots[sc.First:end]
}

func canon(res []*common.ProbeResponse) string {
	s := ""
	for _, r := range res {
		if r == nil {
			s += "-;"
		} else {
			s += fmt.Sprintf("%d/%s/%v/%d;", r.TTL, r.IP, r.IsDest, r.RTT/rttUnit)
		}
	}
	return s
}

// check returns "" if the oracle holds, else (key, detail).
func check(sc *Scenario, x *vsched.Exec, o *obs) (string, string) {
	switch x.Outcome {
	case vsched.Crash:
		return "engine/crash", x.Crash.Value + "\n" + x.Crash.Stack
	case vsched.Deadlock:
		return "engine/deadlock", fmt.Sprint(x.Blocked)
	case vsched.Horizon:
		return "engine/horizon", ""
	case vsched.Diverged:
		return "", ""
	}
	if o.err != nil {
		return "engine/unexpected-error", o.err.Error()
	}
	d := o.d
	want := reference(sc, d.accepted)
	if len(want) != len(o.res) {
		return "merge/length", fmt.Sprintf("accepted=%v want %d hops got %d (%s)", d.accepted, len(want), len(o.res), canon(o.res))
	}
	for i := range want {
		w, g := want[i], o.res[i]
		switch {
		case w == nil && g == nil:
		case w == nil || g == nil:
			if g == nil {
				return "merge/accepted-reply-lost", fmt.Sprintf("ttl slot %d: accepted=%v got %s", int(sc.First)+i, d.accepted, canon(o.res))
			}
			return "merge/phantom-hop", fmt.Sprintf("ttl slot %d: accepted=%v got %s", int(sc.First)+i, d.accepted, canon(o.res))
		default:
			if g.TTL != w.TTL || g.IP != addrs[w.Resp] || g.IsDest != w.Dest {
				k := "merge/not-first-reply"
				if w.Dest != g.IsDest {
					k = "merge/destination-override"
				}
				return k, fmt.Sprintf("ttl %d: accepted=%v want %+v got %s", w.TTL, d.accepted, *w, canon(o.res))
			}
			// RTT identifies which accepted delivery was kept
			idx := rttCode(int(g.RTT / rttUnit))
			if idx < 1 || idx > len(d.accepted) || &d.accepted[idx-1] != w {
				return "merge/not-first-reply", fmt.Sprintf("ttl %d: kept delivery #%d, reference keeps another; accepted=%v", w.TTL, idx, d.accepted)
			}
		}
	}
	clockDev := core.HasClockDeviation(x)
	if !clockDev {
		if len(d.accepted) != len(sc.Seq) {
			return "receiver/stopped-listening-early", fmt.Sprintf("consumed %d of %d scripted deliveries", len(d.accepted), len(sc.Seq))
		}
		if d.sentAtDest >= 0 && len(d.sent)-d.sentAtDest > 1 {
			return "sender/kept-sending-after-destination", fmt.Sprintf("sent=%v, %d already sent when the destination reply was accepted", d.sent, d.sentAtDest)
		}
	}
	if d.sentAtDest < 0 && !clockDev {
		n := int(sc.Last) - int(sc.First) + 1
		if len(d.sent) != n {
			return "sender/did-not-probe-every-ttl", fmt.Sprintf("sent=%v", d.sent)
		}
	}
	for i, t := range d.sent {
		if int(t) != int(sc.First)+i {
			return "sender/order", fmt.Sprintf("sent=%v", d.sent)
		}
	}
	return "", ""
}

// ---- scenario enumeration ------------------------------------------------------------

type space struct {
	first, last uint8
	maxLen      int
	count       int
	alpha       []Delivery
}

func mkSpace(first, last uint8, maxLen int) space {
	sp := space{first: first, last: last, maxLen: maxLen}
	for t := first; t <= last; t++ {
		for r := 0; r < 2; r++ {
			for _, d := range []bool{false, true} {
				sp.alpha = append(sp.alpha, Delivery{t, r, d})
			}
		}
	}
	pow := 1
	for l := 0; l <= maxLen; l++ {
		sp.count += pow
		pow *= len(sp.alpha)
	}
	return sp
}

func (sp space) at(i int) []Delivery {
	pow := 1
	for l := 0; l <= sp.maxLen; l++ {
		if i < pow {
			seq := make([]Delivery, l)
			for k := l - 1; k >= 0; k-- {
				seq[k] = sp.alpha[i%len(sp.alpha)]
				i /= len(sp.alpha)
			}
			return seq
		}
		i -= pow
		pow *= len(sp.alpha)
	}
	panic("index out of range")
}

type tierDef struct {
	spaces []space
	bound  int
	clock  bool
}

func tierOf(tier string) tierDef {
	if tier == "thorough" {
		return tierDef{spaces: []space{mkSpace(1, 1, 4), mkSpace(1, 2, 4), mkSpace(2, 3, 3), mkSpace(1, 3, 4), mkSpace(2, 4, 3), mkSpace(1, 4, 3)}, bound: 3, clock: true}
	}
	return tierDef{spaces: []space{mkSpace(1, 1, 3), mkSpace(1, 2, 3), mkSpace(2, 3, 2), mkSpace(1, 3, 3)}, bound: 2, clock: true}
}

func count(tier string) int {
	n := 0
	for _, sp := range tierOf(tier).spaces {
		n += sp.count
	}
	return n
}

func scenarioAt(tier string, idx int) *Scenario {
	td := tierOf(tier)
	for _, sp := range td.spaces {
		if idx < sp.count {
			return &Scenario{First: sp.first, Last: sp.last, Seq: sp.at(idx), Bound: td.bound, Clock: td.clock}
		}
		idx -= sp.count
	}
	panic("scenario index out of range")
}

func run(tier string, idx int, r *core.ScnResult) {
	sc := scenarioAt(tier, idx)
	if len(sc.Seq) > 0 {
		r.Nontrivial = true
	}
	byAccepted := map[string]string{}
	e := &vsched.Explorer{Bound: sc.Bound}
	e.RunOne = func(prefix []int, sig []uint32) *vsched.Exec {
		x, o := runOnce(sc, prefix, sig, false)
		x.TraceLog = nil
		e.Check = func(x *vsched.Exec, cost int) bool {
			if x.Outcome == vsched.Diverged {
				r.Infra = fmt.Sprintf("replay diverged at point %d", x.DivergeAt)
				return false
			}
			key, detail := check(sc, x, o)
			if key != "" {
				r.Fail(core.Failure{Key: "C07 " + key, What: detail, Scenario: core.JSON(sc), Choices: x.Choices(), Bound: cost})
				return false
			}
			res := canon(o.res)
			r.Outcome(core.Hash(res))
			// schedule independence: same accepted subsequence => same result
			ak := fmt.Sprint(o.d.accepted)
			if prev, ok := byAccepted[ak]; ok && prev != res {
				r.Fail(core.Failure{Key: "C07 merge/schedule-dependent", What: fmt.Sprintf("accepted=%s gave %q and %q", ak, prev, res), Scenario: core.JSON(sc), Choices: x.Choices(), Bound: cost})
				return false
			}
			byAccepted[ak] = res
			if len(o.d.accepted) > 0 {
				r.Branch("accepted>0")
			}
			if o.d.sentAtDest >= 0 {
				r.Branch("destination-accepted")
			}
			return true
		}
		return x
	}
	e.Explore()
	r.Stats = e.Stats
	if idx%97 == 0 {
		r.Sample = core.JSON(sc)
	}
}

func replay(scn json.RawMessage, choices []int) (string, bool) {
	var sc Scenario
	if err := json.Unmarshal(scn, &sc); err != nil {
		return err.Error(), false
	}
	x, o := runOnce(&sc, choices, nil, true)
	key, detail := check(&sc, x, o)
	s := fmt.Sprintf("scenario: %s\nchoices: %v\noutcome: %s steps=%d virtual=%s\nsent=%v accepted=%v\nresult=%s err=%v\n", scn, choices, x.Outcome, x.Steps, x.Virtual, o.d.sent, o.d.accepted, canon(o.res), o.err)
	for _, l := range x.TraceLog {
		s += "  " + l + "\n"
	}
	if key != "" {
		s += "ORACLE FAILED: " + key + ": " + detail + "\n"
		return s, false
	}
	return s + "oracle: ok\n", true
}

// ---- the real drivers under the parallel engine over the simulated wire ---------------------------------
//
// The merge is only schedule-independent if the drivers' own bookkeeping is: the same replies must give the same hops
// however sender and receiver interleave, including replies that are already on the capture handle when the send call
// returns (loopback, first hop).

func genWire(tier string) []proto.Item {
	var items []proto.Item
	for _, v := range proto.Variants {
		vi := proto.Info(v)
		if !vi.Parallel {
			continue
		}
		for _, r := range [][3]int{{1, 4, 3}, {2, 5, 5}, {253, 255, 0}, {253, 255, 255}} {
			for _, lat := range []string{"none", "default", "none-at-one-hop"} {
				s := proto.Scn{Variant: v, First: r[0], Last: r[1], Dest: r[2], IPIDBase: 700, EchoBase: 71, TimeoutMs: 100, DelayMs: 10}
				s.Hops = map[int]proto.HopSpec{}
				switch lat {
				case "none":
					for t := r[0]; t <= r[1]; t++ {
						s.Hops[t] = proto.HopSpec{DelayUs: -1}
					}
				case "none-at-one-hop":
					s.Hops[r[0]+1] = proto.HopSpec{DelayUs: -1}
				}
				items = append(items, proto.Item{Scn: s, Class: fmt.Sprintf("wire/%s/r%d-%d/latency-%s", v, r[0], r[1], lat)})
			}
		}
	}
	// IPv6: a hop re-marks the probe's traffic class (DSCP), so every error generated downstream quotes a header whose first
	// byte is no longer 0x60: those replies are accepted replies like any other
	for _, v := range proto.Variants {
		vi := proto.Info(v)
		if !vi.Parallel || !vi.V6 {
			continue
		}
		s := proto.Scn{Variant: v, First: 1, Last: 5, Dest: 4, IPIDBase: 700, EchoBase: 71, TimeoutMs: 100, DelayMs: 10}
		s.Hops = map[int]proto.HopSpec{2: {Form: "teQtos"}, 3: {Form: "teQtos"}}
		items = append(items, proto.Item{Scn: s, Class: fmt.Sprintf("wire/%s/r1-5/traffic-class-re-marked", v)})
	}
	// SACK probes overtaking each other / lost on the way to the target around the 2^32 wrap: which TTL a multi-block
	// acknowledgement is credited to must not depend on the connection's initial sequence number or on the schedule
	for _, it := range c05.ForwardReorder(tier, 700, 71) {
		if strings.Contains(it.Class, "middle-probe-lost") {
			it.Class = "wire/" + it.Class
			it.Scn.Bound = 1
			items = append(items, it)
		}
	}
	// the destination's reply is accepted early, the wire then stays quiet for more than a poll interval, and a slower
	// router's reply (or the destination's reply to a LOWER TTL) arrives well before the deadline: it is still reflected
	for _, v := range proto.Variants {
		vi := proto.Info(v)
		if !vi.Parallel {
			continue
		}
		for _, late := range []string{"router", "destination-for-lower-ttl"} {
			s := proto.Scn{Variant: v, First: 1, Last: 5, Dest: 3, IPIDBase: 700, EchoBase: 71, TimeoutMs: 500, DelayMs: 10, Bound: 1}
			want := "3"
			if late == "router" {
				s.Hops = map[int]proto.HopSpec{1: {DelayUs: 280000}}
			} else {
				s.Hops = map[int]proto.HopSpec{2: {AtTarget: true, DelayUs: 280000}}
				want = "2"
			}
			items = append(items, proto.Item{Scn: s, Class: fmt.Sprintf("wire/%s/r1-5/quiet-then-late-%s", v, late), Note: map[string]string{"want_len": want}})
		}
	}
	// a segment of the run's own connection that answers no probe - the target retransmits its handshake SYN-ACK because
	// the final handshake acknowledgement was slow - lands at each position of the delivery sequence: same hops as without
	for _, v := range []string{"sack", "sackstrict"} {
		for _, t := range []int{1, 2, 3, 4} {
			for _, d := range []int{-1, 1500, 30000} {
				s := proto.Scn{Variant: v, First: 1, Last: 4, Dest: 3, IPIDBase: 700, EchoBase: 71, TimeoutMs: 100, DelayMs: 10}
				s.Inject = []proto.Inject{{OnTTL: t, AnswerTTL: t, Form: "synack", From: s.Target().String(), DelayUs: d, Tag: "handshake-synack-retransmitted"}}
				items = append(items, proto.Item{Scn: s, Class: fmt.Sprintf("wire/%s/r1-4/synack-retransmitted", v), Note: map[string]string{"want_len": "3"}})
			}
		}
	}
	// the destination answers TTLs that are not adjacent (its answer to the probe in between is lost, or that probe is
	// lost): the list ends at the lowest one on every schedule and latency order
	for _, v := range proto.Variants {
		vi := proto.Info(v)
		if !vi.Parallel {
			continue
		}
		for _, gap := range []proto.HopSpec{{LostReply: true}, {Silent: true}} {
			for _, lat := range [][2]int{{3000, 3000}, {95000, 3000}} {
				s := proto.Scn{Variant: v, First: 1, Last: 6, Dest: 3, IPIDBase: 700, EchoBase: 71, TimeoutMs: 300, DelayMs: 10, Bound: 1}
				s.Hops = map[int]proto.HopSpec{3: {DelayUs: lat[0]}, 4: gap, 5: {DelayUs: lat[1]}, 6: gap}
				items = append(items, proto.Item{Scn: s, Class: fmt.Sprintf("wire/%s/r1-6/destination-answers-non-adjacent-ttls", v), Note: map[string]string{"want_len": "3"}})
			}
		}
	}
	// SACK: the target answers the probes that reach it with a time-exceeded from its own address (a TTL-decrementing front
	// end): destination answers like its acknowledgements - the list ends at the lowest, early or late, on every schedule
	for _, v := range []string{"sack", "sackstrict"} {
		for _, lat := range [][2]int{{3000, 3000}, {95000, 3000}} {
			s := proto.Scn{Variant: v, First: 1, Last: 5, Dest: 3, IPIDBase: 700, EchoBase: 71, TimeoutMs: 300, DelayMs: 10, Bound: 1}
			te := proto.Info(v).TEForm
			s.Hops = map[int]proto.HopSpec{3: {AtTarget: true, Form: te, DelayUs: lat[0]}, 4: {AtTarget: true, Form: te, DelayUs: lat[1]}, 5: {AtTarget: true, Form: te}}
			items = append(items, proto.Item{Scn: s, Class: fmt.Sprintf("wire/%s/r1-5/destination-answers-with-time-exceeded", v), Note: map[string]string{"want_len": "3"}})
		}
	}
	// UDP: a router (a firewall on the path) rejects a probe with a destination-unreachable of its own - host, administratively
	// prohibited, port -: an answered hop like any other, early or late, on every schedule
	for _, v := range proto.Variants {
		vi := proto.Info(v)
		if vi.Kind != "udp4" && vi.Kind != "udp6" {
			continue
		}
		for _, form := range []string{"duHost", "duAdmin", "duPort"} {
			for _, d := range []int{3000, 95000} {
				s := proto.Scn{Variant: v, First: 1, Last: 5, Dest: 4, IPIDBase: 700, EchoBase: 71, TimeoutMs: 300, DelayMs: 10, Bound: 1}
				s.Hops = map[int]proto.HopSpec{2: {Form: form, DelayUs: d}}
				items = append(items, proto.Item{Scn: s, Class: fmt.Sprintf("wire/%s/r1-5/router-answers-%s", v, form)})
			}
		}
	}
	// the reply that matters is the one to the LAST probed TTL: the destination is first reached exactly there, or the path
	// is longer and a router answers it
	for _, v := range proto.Variants {
		vi := proto.Info(v)
		if !vi.Parallel {
			continue
		}
		for _, last := range []int{3, 4} {
			for _, d := range []int{3000, 95000} {
				s := proto.Scn{Variant: v, First: 1, Last: last, Dest: 4, IPIDBase: 700, EchoBase: 71, TimeoutMs: 300, DelayMs: 10, Bound: 1}
				s.Hops = map[int]proto.HopSpec{last: {DelayUs: d}}
				items = append(items, proto.Item{Scn: s, Class: fmt.Sprintf("wire/%s/r1-%d/reply-to-the-last-probed-ttl", v, last)})
			}
		}
	}
	// relaxed variants behind a NAT that rewrote the quoted source (address and port) of a router's time-exceeded: the
	// reply is accepted, early or late, and reflected in the result on every schedule
	for _, v := range proto.Variants {
		vi := proto.Info(v)
		if !vi.Relaxed || !vi.Parallel || vi.Kind == "icmp4" || vi.Kind == "icmp6" {
			continue
		}
		for _, t := range []int{1, 2} {
			for _, d := range []int{3000, 95000} {
				s := proto.Scn{Variant: v, First: 1, Last: 5, Dest: 3, IPIDBase: 700, EchoBase: 71, TimeoutMs: 300, DelayMs: 10, Bound: 1}
				s.Hops = map[int]proto.HopSpec{t: {DelayUs: d, Rewrite: []simnet.Perturb{{Field: "q.src", Op: "other", Other: 0x21}, {Field: "q.sport", Op: "other", Other: 40001}}}}
				items = append(items, proto.Item{Scn: s, Class: fmt.Sprintf("wire/%s/r1-5/nat-rewritten-quote", v)})
			}
		}
	}
	// a UDP destination that rejects the probe with a destination-unreachable code other than "port" (a host firewall):
	// its replies are accepted as the destination's on every schedule and latency order, and the list ends at the lowest
	for _, v := range proto.Variants {
		vi := proto.Info(v)
		if vi.Kind != "udp4" && vi.Kind != "udp6" {
			continue
		}
		for _, form := range []string{"duHost", "duAdmin"} {
			for _, lat := range [][2]int{{3000, 3000}, {95000, 3000}, {3000, 95000}} {
				s := proto.Scn{Variant: v, First: 1, Last: 5, Dest: 3, IPIDBase: 700, EchoBase: 71, TimeoutMs: 300, DelayMs: 10, Bound: 1}
				s.Hops = map[int]proto.HopSpec{3: {AtTarget: true, Form: form, DelayUs: lat[0]}, 4: {AtTarget: true, Form: form, DelayUs: lat[1]}, 5: {AtTarget: true, Form: form}}
				items = append(items, proto.Item{Scn: s, Class: fmt.Sprintf("wire/%s/r1-5/destination-answers-%s", v, form), Note: map[string]string{"want_len": "3"}})
			}
		}
	}
	// a destination reply overrides a non-destination one for the same TTL: through the real drivers, on every schedule
	for _, it := range c03.RouterThenDestination(700, 71) {
		it.Class = "wire/" + it.Class
		items = append(items, it)
	}
	return items
}

var WF = &proto.Family{ID: "C07", Gen: genWire, SameAcrossSchedules: true, NoSecondRun: true,
	Check: func(it *proto.Item, r *proto.Result) []proto.Issue {
		if r.Obs[0].Err != nil {
			return []proto.Issue{{Key: "run-error", Detail: r.Obs[0].Err.Error()}}
		}
		out := proto.Completeness(&it.Scn, r, 0)
		if w := it.Note["want_len"]; w != "" {
			var want int
			fmt.Sscan(w, &want)
			if hs := proto.Hops(r.Obs[0].Run); len(hs) != want || !hs[len(hs)-1].Dest {
				out = append(out, proto.Issue{Key: "destination-reply-did-not-override", Detail: fmt.Sprintf("want %d entries ending in the destination, got %s", want, proto.HopsString(hs))})
			}
		}
		return out
	},
	Bound: func(tier string) int {
		if tier == "thorough" {
			return 3
		}
		return 2
	}}

func init() {
	engineCount, engineRun, engineReplay := count, run, replay
	count := func(tier string) int { return engineCount(tier) + WF.Count(tier) }
	run := func(tier string, idx int, r *core.ScnResult) {
		if n := engineCount(tier); idx >= n {
			WF.Run(tier, idx-n, r)
			return
		}
		engineRun(tier, idx, r)
	}
	replay := func(scn json.RawMessage, choices []int) (string, bool) {
		var w struct {
			Scn json.RawMessage `json:"scn"`
		}
		if json.Unmarshal(scn, &w); w.Scn != nil {
			return WF.Replay(scn, choices)
		}
		return engineReplay(scn, choices)
	}
	core.Register(&core.Property{
		NeedsNetns: true,
		ID:         "C07",
		Level:      "model_checking",
		Rule: "scenario = (first,last TTL, delivery sequence over {ttl x responder x dest?}); every sequence up to the length bound is enumerated; " +
			"for each, every interleaving of the real common.TracerouteParallel (sender, receiver, caller threads; virtual clock) within the deviation bound " +
			"(preemptions + clock-advance deviations) is executed and compared with the reference fold+clip; non-trivial = sequence non-empty; distinct = distinct canonical results; " +
			"wire: every parallel variant's real driver under the real engine over the simulated wire with replies of no / default latency, every schedule within the preemption bound, " +
			"oracle: same hops as the default schedule and every in-window reply reported",
		Count:      count,
		Run:        run,
		Replay:     replay,
		Exhaustive: true,
		Assumptions: []string{
			"scheduling points at every sync/atomic/context/channel/time operation and every driver call are sufficient because the code is data-race free (checked by C14)",
			"the scripted driver hands deliveries to the engine as soon as asked; RTT field encodes the delivery's position so the kept delivery is identifiable",
		},
	})
}
