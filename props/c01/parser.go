package c01

// Parser conformance: the identifying fields of an ICMP error are read from the right place whatever the layout of the
// quoted header. packets.FrameParser.GetICMPInfo is compared with an independent reading of the same bytes for every
// quoted IPv4 header length 5..15 (IP options of several shapes, including options whose bytes look like a transport
// header), the three quoted transports, both ICMP error types, and plain IPv6 quotes. A parser may refuse a layout;
// it may not return fields taken from the wrong offset.

import (
	"encoding/binary"
	"encoding/json"
	"fmt"
	"net/netip"

	"github.com/DataDog/datadog-traceroute/packets"

	"verif/props/core"
	"verif/refcodec"
)

type PScn struct {
	V6     bool   `json:"v6"`
	IHL    int    `json:"ihl"`
	Opt    string `json:"options"` // nop | eol-first | record-route | mimic-transport
	Proto  uint8  `json:"proto"`
	DU     bool   `json:"dest_unreachable"`
	Quoted int    `json:"quoted_transport_bytes"`
}

func pScns() []PScn {
	var out []PScn
	for _, du := range []bool{false, true} {
		for _, pr := range []uint8{refcodec.ProtoUDP, refcodec.ProtoTCP, refcodec.ProtoICMP} {
			for _, q := range []int{8, 20} {
				for ihl := 5; ihl <= 15; ihl++ {
					opts := []string{"nop"}
					if ihl > 5 {
						opts = []string{"nop", "eol-first", "record-route", "mimic-transport"}
					}
					for _, o := range opts {
						out = append(out, PScn{IHL: ihl, Opt: o, Proto: pr, DU: du, Quoted: q})
					}
				}
				p6 := pr
				if p6 == refcodec.ProtoICMP {
					p6 = refcodec.ProtoICMPv6
				}
				out = append(out, PScn{V6: true, IHL: 10, Opt: "nop", Proto: p6, DU: du, Quoted: q})
			}
		}
	}
	return out
}

var transport = []byte{0xc3, 0x51, 0x82, 0x9a, 0x12, 0x34, 0x56, 0x78, 0x9a, 0xbc, 0xde, 0xf0, 0x50, 0x02, 0xff, 0xff, 0x00, 0x00, 0x00, 0x00}

func buildP(sc *PScn) (raw []byte, qsrc, qdst netip.Addr, ipid uint16) {
	tp := append([]byte{}, transport[:sc.Quoted]...)
	if sc.V6 {
		qsrc, qdst = netip.MustParseAddr("2001:db8::1"), netip.MustParseAddr("2001:db8::77")
		q := make([]byte, 40)
		q[0] = 0x60
		binary.BigEndian.PutUint16(q[4:], uint16(len(tp)))
		q[6], q[7] = sc.Proto, 1
		s, d := qsrc.As16(), qdst.As16()
		copy(q[8:], s[:])
		copy(q[24:], d[:])
		q = append(q, tp...)
		typ, code := byte(3), byte(0)
		if sc.DU {
			typ, code = 1, 4
		}
		icmp := append([]byte{typ, code, 0, 0, 0, 0, 0, 0}, q...)
		router := netip.MustParseAddr("2001:db8:ffff::9")
		binary.BigEndian.PutUint16(icmp[2:], refcodec.L4Checksum(router, qsrc, refcodec.ProtoICMPv6, icmp))
		return refcodec.Wrap(router, qsrc, refcodec.ProtoICMPv6, 60, 0, icmp), qsrc, qdst, 0
	}
	qsrc, qdst = netip.MustParseAddr("198.18.0.2"), netip.MustParseAddr("203.0.113.77")
	ipid = 0xbeef
	n := sc.IHL * 4
	q := make([]byte, n)
	q[0] = 0x40 | byte(sc.IHL)
	binary.BigEndian.PutUint16(q[2:], uint16(n+len(tp)+20))
	binary.BigEndian.PutUint16(q[4:], ipid)
	q[8], q[9] = 1, sc.Proto
	s, d := qsrc.As4(), qdst.As4()
	copy(q[12:], s[:])
	copy(q[16:], d[:])
	o := q[20:]
	switch sc.Opt {
	case "nop":
		for i := range o {
			o[i] = 1
		}
	case "eol-first":
		// end-of-options first: the rest is padding
	case "record-route":
		if len(o) >= 3 {
			o[0], o[1], o[2] = 7, byte(len(o)), 4
		}
	case "mimic-transport":
		// option bytes that read like another flow's transport header (NOPs and an EOL inside keep them decodable)
		copy(o, []byte{0x01, 0x01, 0x01, 0x00, 0x01, 0x01, 0x01, 0x00})
		for i := 8; i < len(o); i++ {
			o[i] = 1
		}
	}
	refcodec.FixIPv4Checksum(q)
	q = append(q, tp...)
	typ, code := byte(11), byte(0)
	if sc.DU {
		typ, code = 3, 3
	}
	icmp := append([]byte{typ, code, 0, 0, 0, 0, 0, 0}, q...)
	binary.BigEndian.PutUint16(icmp[2:], refcodec.Checksum(icmp))
	router := netip.MustParseAddr("100.64.0.9")
	return refcodec.Wrap(router, qsrc, refcodec.ProtoICMP, 60, 0x1111, icmp), qsrc, qdst, ipid
}

func checkP(sc *PScn) (key, detail string, accepted bool) {
	raw, qsrc, qdst, ipid := buildP(sc)
	fp := packets.NewFrameParser()
	if err := fp.Parse(raw); err != nil {
		return "", "", false // refusing a layout is safe
	}
	info, err := fp.GetICMPInfo()
	if err != nil {
		return "", "", false
	}
	if info.ICMPPair.SrcAddr != qsrc || info.ICMPPair.DstAddr != qdst {
		return "quoted-addresses", fmt.Sprintf("parser: %v>%v, quoted header: %v>%v", info.ICMPPair.SrcAddr, info.ICMPPair.DstAddr, qsrc, qdst), true
	}
	if !sc.V6 && info.WrappedPacketID != ipid {
		return "quoted-ip-id", fmt.Sprintf("parser: %#x, quoted header: %#x", info.WrappedPacketID, ipid), true
	}
	want := transport[:sc.Quoted]
	if len(info.Payload) < 8 || string(info.Payload[:8]) != string(want[:8]) {
		return "quoted-transport-bytes-from-wrong-offset", fmt.Sprintf("parser hands the drivers % x, the quoted transport header is % x (quoted header length %d bytes)", info.Payload, want, sc.IHL*4), true
	}
	return "", "", true
}

func init() {
	F.ExtraCount = func(string) int { return 1 }
	F.ExtraRun = func(tier string, idx int, r *core.ScnResult) {
		r.Nontrivial = true
		acc := 0
		for _, sc := range pScns() {
			sc := sc
			r.Evals++
			k, d, ok := checkP(&sc)
			if ok {
				acc++
			}
			if k != "" {
				r.Fail(core.Failure{Key: "C01 parser/quoted-header-layout/" + k, What: d, Scenario: core.JSON(map[string]any{"parser_layout": sc})})
			}
		}
		r.Outcome(fmt.Sprintf("parser-layouts/accepted>0=%v", acc > 0))
		if acc == 0 {
			r.Fail(core.Failure{Key: "C01 parser/quoted-header-layout/vacuous", What: "the parser refused every layout, including the plain ones", Scenario: core.JSON(map[string]any{"parser_layout": PScn{IHL: 5, Opt: "nop", Proto: 17, Quoted: 8}})})
		}
	}
	F.ExtraReplay = func(scn json.RawMessage, _ []int) (string, bool, bool) {
		var w struct {
			P *PScn `json:"parser_layout"`
		}
		json.Unmarshal(scn, &w)
		if w.P == nil {
			return "", false, false
		}
		k, d, _ := checkP(w.P)
		if k != "" {
			return fmt.Sprintf("layout %s\nORACLE FAILED: %s: %s\n", scn, k, d), false, true
		}
		return "oracle: ok\n", true, true
	}
}
