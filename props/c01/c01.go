// Package c01: attribution soundness. Only a genuine reply to probe t (sent by the
// reported address, answering this run's probe t in every identifying field) can
// fill hop t. Enumerated: variant x TTL range x genuine reply x identifying field
// x perturbation x arrival mode, plus stale / early / own traffic and identifier
// bases at wrap-around.
package c01

import (
	"fmt"
	"strings"

	"verif/props/proto"
	"verif/simnet"
)

var opsQuick = []string{"+1", "+256", "other"}
var opsAll = []string{"+1", "-1", "+256", "-256", "swap", "zero", "other"}

type rng struct{ first, last int }

func destOf(r rng) int {
	d := r.first + 2
	if d > r.last {
		d = r.last
	}
	return d
}

func base(v string, r rng) proto.Scn {
	return proto.Scn{Variant: v, First: r.first, Last: r.last, Dest: destOf(r), IPIDBase: 100, EchoBase: 7, TimeoutMs: 300, DelayMs: 10}
}

func otherVal(field string) uint32 {
	switch field {
	case "q.seq", "tcp.ack", "sack.left":
		return 0x12345678
	}
	return 0x1234
}

func evilFor(vi proto.VInfo, form, field string, target string) string {
	// ICMP errors can come from any router: give the perturbed packet a distinct responder so that its use is visible
	if simnet.IsICMPError(form) {
		if vi.V6 {
			return proto.Evil6.String()
		}
		return proto.Evil4.String()
	}
	return "" // direct replies keep the target as sender unless the sender itself is the perturbed field
}

func gen(tier string) []proto.Item {
	var items []proto.Item
	ranges := []rng{{1, 4}, {254, 255}}
	ops := opsQuick
	variants := proto.Variants
	if tier == "thorough" {
		ranges = []rng{{1, 4}, {2, 6}, {1, 30}, {254, 255}, {255, 255}, {250, 255}}
		ops = opsAll
	}
	for _, v := range variants {
		vi := proto.Info(v)
		for _, r := range ranges {
			rtag := fmt.Sprintf("r%d-%d", r.first, r.last)
			b := base(v, r)
			items = append(items, proto.Item{Scn: b, Class: v + "/" + rtag + "/baseline"})
			d := destOf(r)
			// a genuine reply that is read only after the NEXT probe has gone out (serial engine: later than the hop's own
			// window; parallel engines: later than the send delay): it answers its own probe, not the most recent one
			if r.first < d {
				for _, t := range []int{r.first, r.first + 1} {
					if t >= d {
						continue
					}
					s := base(v, r)
					late := 15000
					if !vi.Parallel {
						late = s.TimeoutMs*1000 + 10000
					}
					s.Hops = map[int]proto.HopSpec{t: {DelayUs: late}}
					items = append(items, proto.Item{Scn: s, Class: v + "/" + rtag + "/genuine-reply-read-after-the-next-probe"})
					// ... and the next hop says nothing, so its entry is still free when the late reply is read
					s2 := base(v, r)
					s2.Hops = map[int]proto.HopSpec{t: {DelayUs: late}, t + 1: {Silent: true}}
					items = append(items, proto.Item{Scn: s2, Class: v + "/" + rtag + "/genuine-reply-read-after-the-next-probe/next-hop-silent"})
				}
			}
			// two packets that say nothing about probe t on their own: an ICMP message of a type the tool ignores that quotes
			// probe t, then a time-exceeded from somebody else cut right after its ICMP header (its length fields still claim the
			// rest). A receive path that lets bytes of the first packet survive into the parsing of the second credits hop t.
			if r.first < d {
				t := r.first + 1
				if t < d {
					s := base(v, r)
					s.Hops = map[int]proto.HopSpec{t: {Silent: true}}
					ign, cut := 12, 27
					if vi.V6 {
						ign, cut = 4, 47
					}
					s.Inject = []proto.Inject{
						{OnTTL: t, AnswerTTL: t, Form: vi.TEForm, From: evilFor(vi, vi.TEForm, "", ""), DelayUs: 1000, Tag: "ignored-type", NoiseKind: "icmp-type", NoiseArg: ign},
						{OnTTL: t, AnswerTTL: t, Form: vi.TEForm, From: proto.Router(vi.V6, 0, 99).String(), DelayUs: 2000, Tag: "runt", NoiseKind: "truncate", NoiseArg: cut},
					}
					items = append(items, proto.Item{Scn: s, Class: v + "/" + rtag + "/ignored-message-then-runt"})
				}
			}
			// genuine replies to perturb: the first router reply (if any) and the destination reply
			type gr struct {
				ttl  int
				form string
			}
			var grs []gr
			if r.first < d {
				grs = append(grs, gr{r.first, vi.TEForm})
			}
			grs = append(grs, gr{d, vi.DestForm})
			if vi.Kind == "sack" {
				// SACK also accepts time-exceeded from the target itself as a destination proof
				grs = append(grs, gr{d, "te28"})
			}
			if vi.Kind == "tcp" || vi.Kind == "tcpparis" {
				grs = append(grs, gr{d, "rst"}, gr{d, "rstack"})
			}
			if vi.Kind == "udp4" || vi.Kind == "udp6" {
				grs = append(grs, gr{d, vi.TEForm})
			}
			for _, g := range grs {
				if !vi.V6 && !strings.HasPrefix(g.form, "sack") {
					// the other address family: the reply this probe would get, carried in an IPv6 datagram between the IPv4-mapped
					// forms of its addresses (an ICMP error: as its ICMPv6 counterpart quoting an IPv6 header between the mapped
					// forms of the quoted addresses, the quoted identification in the payload-length field), INSTEAD of the
					// genuine reply: nothing of an IPv4 run, the hop stays empty (capture filtering off)
					from := proto.Router(false, 0, g.ttl).String()
					s := base(v, r)
					if g.ttl == d {
						from = s.Target().String()
					}
					s.FiltersOff = true
					s.Hops = map[int]proto.HopSpec{g.ttl: {Form: "v6mapped:" + g.form, From: from, Tag: "other-family"}}
					for t := g.ttl + 1; t <= r.last && g.ttl == d; t++ {
						s.Hops[t] = s.Hops[g.ttl]
					}
					items = append(items, proto.Item{Scn: s, Class: fmt.Sprintf("%s/%s/%s/ipv6-datagram-with-mapped-addresses/instead", v, rtag, g.form)})
				}
				for _, field := range simnet.Fields(vi.Kind, g.form) {
					if relaxedSkips(vi, field) {
						continue
					}
					for _, op := range ops {
						pt := &simnet.Perturb{Field: field, Op: op, Other: otherVal(field)}
						alias := aliasTTL(vi.Kind, field, op, g.ttl, r)
						from := evilFor(vi, g.form, field, "")
						gdelay := proto.DefaultDelayUs(g.ttl)
						// instead
						s := base(v, r)
						s.Hops = map[int]proto.HopSpec{g.ttl: {Form: g.form, From: from, Perturb: pt, Tag: "perturbed", AliasTTL: alias}}
						items = append(items, proto.Item{Scn: s, Class: fmt.Sprintf("%s/%s/%s/%s/%s/instead", v, rtag, g.form, field, op)})
						if (vi.Kind == "tcp" || vi.Kind == "tcpparis" || vi.Kind == "sack") && !simnet.IsICMPError(g.form) {
							// capture filtering is only an optimisation (a no-op on some platforms): the matcher alone must reject it
							s2 := s
							s2.FiltersOff = true
							items = append(items, proto.Item{Scn: s2, Class: fmt.Sprintf("%s/%s/%s/%s/%s/instead/filters-off", v, rtag, g.form, field, op)})
						}
						// before / after the genuine reply
						for _, mode := range []string{"before", "after"} {
							s := base(v, r)
							// before: clearly earlier than the genuine reply; after: later than any processing lag
							dl := 1000
							if mode == "after" {
								dl = gdelay + 150000
								if !vi.Parallel && alias > g.ttl {
									// serial engine: the packet would wait in the queue until the aliased probe has been sent;
									// whether a reply preceded its probe is then not observable by the tool
									continue
								}
							}
							s.Hops = map[int]proto.HopSpec{g.ttl: {Form: g.form}}
							s.Inject = []proto.Inject{{OnTTL: g.ttl, AnswerTTL: g.ttl, Form: g.form, From: injFrom(from, &s, g.form), DelayUs: dl, Perturb: pt, Tag: "perturbed-" + mode, AliasTTL: alias}}
							items = append(items, proto.Item{Scn: s, Class: fmt.Sprintf("%s/%s/%s/%s/%s/%s", v, rtag, g.form, field, op, mode)})
						}
					}
				}
				// a reply for a TTL that has not been probed yet (identifiers are predictable)
				if vi.Kind != "tcpparis" && g.ttl > r.first && !(vi.Kind == "tcp" && (g.form == "synack" || g.form == "rst" || g.form == "rstack")) {
					s := base(v, r)
					s.Inject = []proto.Inject{{OnTTL: r.first, AnswerTTL: g.ttl, Form: g.form, From: injFrom(evilFor(vi, g.form, "", ""), &s, g.form), DelayUs: 500, Tag: "early"}}
					items = append(items, proto.Item{Scn: s, Class: fmt.Sprintf("%s/%s/%s/early-reply", v, rtag, g.form)})
				}
				// a stale reply: answers the same TTL of the previous run of this process to the same target
				// (not for relaxed variants: a previous run to the same target and port is indistinguishable by construction of "relaxed")
				if !vi.Relaxed {
					s := base(v, r)
					s2 := base(v, r)
					s2.Inject = []proto.Inject{{OnTTL: g.ttl, AnswerTTL: g.ttl, Form: g.form, From: injFrom(evilFor(vi, g.form, "", ""), &s2, g.form), DelayUs: 700, Tag: "stale", PrevRun: true}}
					s2.Hops = map[int]proto.HopSpec{g.ttl: {Form: g.form}}
					s.Then = []proto.Scn{s2}
					items = append(items, proto.Item{Scn: s, Class: fmt.Sprintf("%s/%s/%s/stale-previous-run", v, rtag, g.form)})
				}
			}
		}
		// identifier bases at their wrap-around points: perturbed per-probe identifier, instead of the genuine reply
		r := rng{1, 4}
		type bs struct {
			name       string
			ipid, echo uint32
			rnd        []uint32
			ack        uint32
		}
		bases := []bs{{"zero", 0, 0, []uint32{0, 1, 2, 3, 4, 5}, 0}, {"max", 65535, 65534, []uint32{0xffffffff, 0xfffffffe, 0, 1, 0xfffffffd, 2}, 0xffffffff},
			{"wrap-inside", 65533, 65535, []uint32{0xfffffffe, 0xffffffff, 0, 1, 2, 3}, 0xfffffffd}}
		if tier != "thorough" {
			bases = bases[1:]
		}
		for _, bb := range bases {
			for _, g := range []struct {
				ttl  int
				form string
			}{{1, vi.TEForm}, {3, vi.DestForm}} {
				fields := simnet.Fields(vi.Kind, g.form)
				idField := fields[len(fields)-1]
				for _, op := range []string{"+1", "-1", "+256"} {
					s := base(v, r)
					s.IPIDBase, s.EchoBase, s.Rand = bb.ipid, bb.echo, bb.rnd
					if vi.Kind == "sack" {
						s.SynAck = &simnet.SynAckSpec{Enabled: true, ISN: 0xfffffff0, AckNum: bb.ack, SackPermitted: true}
					}
					pt := &simnet.Perturb{Field: idField, Op: op}
					s.Hops = map[int]proto.HopSpec{g.ttl: {Form: g.form, From: evilFor(vi, g.form, idField, ""), Perturb: pt, Tag: "perturbed", AliasTTL: aliasTTL(vi.Kind, idField, op, g.ttl, r)}}
					items = append(items, proto.Item{Scn: s, Class: fmt.Sprintf("%s/base-%s/%s/%s/%s/instead", v, bb.name, g.form, idField, op)})
				}
				s := base(v, r)
				s.IPIDBase, s.EchoBase, s.Rand = bb.ipid, bb.echo, bb.rnd
				if vi.Kind == "sack" {
					s.SynAck = &simnet.SynAckSpec{Enabled: true, ISN: 0xfffffff0, AckNum: bb.ack, SackPermitted: true}
				}
				items = append(items, proto.Item{Scn: s, Class: fmt.Sprintf("%s/base-%s/baseline", v, bb.name)})
			}
		}
	}
	return items
}

// aliasTTL: a +-1 perturbation of a per-probe identifier yields the identifier of the neighbouring probe of the same run.
func aliasTTL(kind, field, op string, ttl int, r rng) int {
	perProbe := false
	switch field {
	case "echo.seq", "q.echoseq", "q.len", "sack.left":
		perProbe = true
	case "q.ipid":
		perProbe = kind == "udp4" || kind == "tcp"
	case "q.seq":
		perProbe = kind == "sack"
	}
	if !perProbe {
		return 0
	}
	a := 0
	switch op {
	case "+1":
		a = ttl + 1
	case "-1":
		a = ttl - 1
	}
	if a < r.first || a > r.last {
		return 0
	}
	return a
}

// relaxedSkips: with relaxed quoted-source checking the quoted source address/port are by definition not identifying.
func relaxedSkips(vi proto.VInfo, field string) bool {
	return vi.Relaxed && (field == "q.src" || field == "q.sport")
}

func injFrom(from string, s *proto.Scn, form string) string {
	if from != "" {
		return from
	}
	return s.Target().String()
}

func check(it *proto.Item, r *proto.Result) []proto.Issue {
	var out []proto.Issue
	for i := range r.Obs {
		sc := scnOf(it, i)
		if r.Obs[i].Err != nil {
			out = append(out, proto.Issue{Key: "run-aborted", Detail: "a genuine path plus at most one foreign packet, yet the run failed (every hop lost): " + r.Obs[i].Err.Error()})
			continue
		}
		out = append(out, proto.Attribution(sc, r, i)...)
	}
	return out
}

func scnOf(it *proto.Item, i int) *proto.Scn {
	if i == 0 {
		return &it.Scn
	}
	k := i - 1
	if k < len(it.Scn.Then) {
		return &it.Scn.Then[k]
	}
	return &it.Also[k-len(it.Scn.Then)]
}

var F = &proto.Family{ID: "C01", Gen: gen, Check: check,
	Bound: func(tier string) int {
		if tier == "thorough" {
			return 3
		}
		return 2
	},
	Nontrivial: func(it *proto.Item) bool {
		return len(it.Scn.Hops) > 0 || len(it.Scn.Inject) > 0 || len(it.Scn.Then) > 0
	}}

func init() {
	F.Register("model_checking",
		"item = (variant, TTL range, genuine reply, identifying field, perturbation op, arrival mode instead/before/after | early | stale | identifier base at wrap-around); "+
			"the complete product is enumerated and each item is executed through the variant's exported entry point over the simulated wire (quick: default schedule; thorough: every schedule with <=1 preemption); "+
			"oracle: every reported hop (t,a,rtt) is backed by a genuine reply to this run's probe t sent by a whose arrival explains rtt; non-trivial = item carries a perturbed/early/stale packet; distinct = distinct hop lists",
		[]string{"replies and perturbations are built by an independent codec (refcodec) from the probe bytes the run actually emitted",
			"a perturbed ICMP error is given a distinct responder address so that its acceptance is visible; perturbed direct replies are told apart by their arrival time"})
}
