// Package c20: TCP method policy. sack => SACK trace or error; prefer_sack => SYN trace
// exactly when SACK is unavailable for the target, any other SACK failure is reported;
// syn => no TCP connection to the target is ever opened; e2e probes use SYN.
package c20

import (
	"encoding/json"
	"errors"
	"fmt"
	"strings"

	"github.com/DataDog/datadog-traceroute/result"
	"github.com/DataDog/datadog-traceroute/sack"
	"github.com/DataDog/datadog-traceroute/traceroute"

	"verif/props/core"
	"verif/props/proto"
	"verif/refcodec"
	"verif/simnet"
)

var caps = []string{"", "dsack-below-window", "fin-during-trace", "rstack-during-trace", "timestamps", "timestamps-bsd-option-order", "bsd-option-order", "duplicate-synack", "slow-synack", "isn-near-wrap", "no-sack-permitted", "plain-acks", "plain-acks-with-timestamps", "plain-acks-with-payload", "empty-sack-option", "half-sack-block", "closed", "no-handshake", "syn-dropped", "greeting-before-synack", "greeting-without-synack", "ecn-setup-synack", "ecn-setup-synack-without-sack"}

func unavailable(c string) bool {
	return c == "no-sack-permitted" || c == "plain-acks" || c == "plain-acks-with-timestamps" || c == "plain-acks-with-payload" || c == "empty-sack-option" || c == "half-sack-block" || c == "closed" || c == "syn-dropped" || c == "ecn-setup-synack-without-sack"
}

func req(method, cap string, e2e int) proto.RTScn {
	return proto.RTScn{Hostname: "198.18.0.9", Protocol: "tcp", Method: method, MinTTL: 1, MaxTTL: 5, DelayMs: 10, TimeoutMs: 300, Queries: 1, E2e: e2e,
		Dest: 3, Capability: cap, UseListenerPort: true, IPIDBase: 2000, EchoBase: 200}
}

func reqFor(method, cap string, e2e int) proto.RTScn {
	r := req(method, cap, e2e)
	if strings.HasPrefix(cap, "greeting-") {
		r.FiltersOff = true
	}
	// ("syn-dropped": the connect's SYN is never answered - modelled on the virtual clock by the net.Dialer stand-in, which
	// gives up at the dialer's own timeout; the target is silent towards SYN probes as well)
	return r
}

func gen(tier string) []proto.RTItem {
	var items []proto.RTItem
	for _, m := range []string{"sack", "prefer_sack", "syn", ""} {
		for _, c := range caps {
			for _, e2e := range []int{0, 2} {
				if c == "syn-dropped" && (m == "syn" || m == "") {
					continue // (no connect is made)
				}
				items = append(items, proto.RTItem{Scn: reqFor(m, c, e2e), Class: fmt.Sprintf("method=%q/capability=%q/e2e=%d/no-fault", m, c, e2e)})
			}
		}
		// the caller's context is already cancelled / is cancelled a millisecond into the call: whatever the request then
		// answers (the cancellation, or the trace it was asked for), a cancelled caller is not "SACK unavailable" and does
		// not turn the request into a SYN trace
		if m == "sack" || m == "prefer_sack" {
			for _, at := range []int{-1, 1, 15} {
				r := req(m, "", 0)
				r.CancelAtMs = at
				items = append(items, proto.RTItem{Scn: r, Class: fmt.Sprintf("method=%q/caller-cancelled-at-%dms", m, at), Note: map[string]string{"cancelled": "1"}})
			}
		}
		// non-capability failures (capability fine): every filter installation, every send, every read
		for _, f := range []simnet.Fault{{Op: "SetPacketFilter", K: 1, Class: "fatal"}, {Op: "SetPacketFilter", K: 2, Class: "fatal"}, {Op: "WriteTo", K: -1, Class: "fatal"}, {Op: "Read", K: -1, Class: "fatal"},
			{Op: "NewSource", K: 1, Class: "fatal"}, {Op: "NewSink", K: 1, Class: "fatal"}, {Op: "SetReadDeadline", K: -1, Class: "fatal"}} {
			for _, c := range []string{"", "timestamps", "duplicate-synack"} {
				r := req(m, c, 0)
				r.Faults = []simnet.Fault{f}
				items = append(items, proto.RTItem{Scn: r, Class: fmt.Sprintf("method=%q/capability=%q/fault-%s-k%d", m, c, f.Op, f.K)})
			}
		}
	}
	return items
}

func check(it *proto.RTItem, r *proto.RTResult) []proto.Issue {
	sc := &it.Scn
	var out []proto.Issue
	probes := r.ProbesBySink()
	// classify each run by its probes
	synTrace, sackTrace, e2eSyn, e2eOther := 0, 0, 0, 0
	for _, ps := range probes {
		isE2e := len(ps) == 1 && int(ps[0].TTL) == sc.MaxTTL
		syn := ps[0].Flags&refcodec.SYN != 0
		for _, p := range ps {
			if (p.Flags&refcodec.SYN != 0) != syn {
				out = append(out, proto.Issue{Key: "mixed-probe-kinds-in-one-run", Detail: ""})
			}
		}
		switch {
		case isE2e && syn:
			e2eSyn++
		case isE2e:
			e2eOther++
		case syn:
			synTrace++
		default:
			sackTrace++
		}
	}
	faulted := r.Net.Injected > 0
	method := sc.Method
	if method == "" {
		method = "syn"
	}
	if e2eOther > 0 {
		out = append(out, proto.Issue{Key: "e2e-probe-not-syn", Detail: fmt.Sprintf("%d end-to-end probes were not SYN packets", e2eOther)})
	}
	switch method {
	case "syn":
		if r.Accepted > 0 {
			out = append(out, proto.Issue{Key: "syn-opened-a-connection", Detail: fmt.Sprintf("the target accepted %d TCP connections", r.Accepted)})
		}
		if sackTrace > 0 {
			out = append(out, proto.Issue{Key: "syn-sent-sack-probes", Detail: ""})
		}
	case "sack":
		if synTrace > 0 {
			out = append(out, proto.Issue{Key: "sack-masked-by-syn-trace", Detail: fmt.Sprintf("method sack produced %d SYN traceroute runs (err=%v)", synTrace, r.Err)})
		}
		if r.Err == nil && sackTrace == 0 {
			out = append(out, proto.Issue{Key: "sack-success-without-sack-trace", Detail: r.Summary()})
		}
		if r.Err == nil && (unavailable(sc.Capability) || (sc.Capability == "no-handshake" || sc.Capability == "greeting-without-synack")) {
			out = append(out, proto.Issue{Key: "sack-success-on-incapable-target", Detail: r.Summary()})
		}
	case "prefer_sack":
		switch {
		case faulted:
			// a non-capability failure of the SACK attempt must surface, not be masked by a fallback
			if synTrace > 0 && sackTrace+synTrace > 0 && faultInSack(r) {
				out = append(out, proto.Issue{Key: "failure-masked-by-fallback", Detail: fmt.Sprintf("fault %v was followed by a SYN traceroute (err=%v)", r.Net.InjectedAt, r.Err)})
			}
			if r.Err == nil && faultInSack(r) {
				out = append(out, proto.Issue{Key: "failure-swallowed", Detail: fmt.Sprintf("fault %v, success returned", r.Net.InjectedAt)})
			}
		case unavailable(sc.Capability):
			if r.Err != nil {
				out = append(out, proto.Issue{Key: "no-fallback-when-sack-unavailable", Detail: r.Err.Error()})
			} else if synTrace == 0 {
				out = append(out, proto.Issue{Key: "no-syn-trace-when-sack-unavailable", Detail: r.Summary()})
			}
		case (sc.Capability == "no-handshake" || sc.Capability == "greeting-without-synack"):
			if synTrace > 0 || r.Err == nil {
				out = append(out, proto.Issue{Key: "failure-masked-by-fallback", Detail: fmt.Sprintf("handshake never captured: synTraces=%d err=%v", synTrace, r.Err)})
			}
		default:
			if synTrace > 0 {
				out = append(out, proto.Issue{Key: "fallback-although-sack-available", Detail: r.Summary()})
			}
			if r.Err != nil && it.Note["cancelled"] != "" {
				// the cancellation may be what the request answers
			} else if r.Err != nil {
				out = append(out, proto.Issue{Key: "unexpected-error", Detail: r.Err.Error()})
			} else if sackTrace == 0 {
				out = append(out, proto.Issue{Key: "no-sack-trace", Detail: r.Summary()})
			}
		}
	}
	if !faulted && sc.E2e > 0 && r.Err == nil && e2eSyn != sc.E2e {
		out = append(out, proto.Issue{Key: "e2e-probe-count", Detail: fmt.Sprintf("%d SYN end-to-end probes on the wire, %d requested", e2eSyn, sc.E2e)})
	}
	return out
}

// faultInSack: the injected fault hit the SACK attempt (the first run's handles: sink/source id 0).
func faultInSack(r *proto.RTResult) bool {
	for _, c := range r.Net.InjectedAt {
		if c.Handle == 0 {
			return true
		}
	}
	return false
}

var F = &proto.RTFamily{ID: "C20", Gen: gen, SecondEvery: 3}

// ---- the selector itself, for every error-wrapping depth ------------------------------------------

func wrapN(err error, n int, join bool) error {
	for i := 0; i < n; i++ {
		if join && i == 0 {
			err = errors.Join(errors.New("context"), err)
		} else {
			err = fmt.Errorf("layer %d: %w", i, err)
		}
	}
	return err
}

func selectorCases() (int, []string) {
	n := 0
	var fails []string
	synRun := &result.TracerouteRun{RunID: "syn"}
	sackRun := &result.TracerouteRun{RunID: "sack"}
	for _, m := range []string{"", "syn", "sack", "prefer_sack", "syn_socket", "bogus"} {
		for _, kind := range []string{"ok", "notsupported", "other"} {
			for depth := 0; depth <= 3; depth++ {
				for _, join := range []bool{false, true} {
					n++
					var sackErr error
					switch kind {
					case "notsupported":
						sackErr = wrapN(&sack.NotSupportedError{Err: errors.New("no sack")}, depth, join)
					case "other":
						sackErr = wrapN(errors.New("filter failed"), depth, join)
					}
					synCalls, sackCalls := 0, 0
					doSyn := func() (*result.TracerouteRun, error) { synCalls++; return synRun, nil }
					doSack := func() (*result.TracerouteRun, error) {
						sackCalls++
						if sackErr != nil {
							return nil, sackErr
						}
						return sackRun, nil
					}
					doSock := func() (*result.TracerouteRun, error) { return nil, errors.New("unsupported") }
					res, err := traceroute.VerifPerformTCPFallback(traceroute.TCPMethod(m), doSyn, doSack, doSock)
					bad := ""
					switch m {
					case "", "syn":
						if sackCalls != 0 || res != synRun {
							bad = "syn must not touch SACK"
						}
					case "sack":
						if synCalls != 0 {
							bad = "sack fell back to syn"
						}
						if (sackErr == nil) != (err == nil) {
							bad = "sack outcome not passed through"
						}
					case "prefer_sack":
						switch kind {
						case "ok":
							if res != sackRun || synCalls != 0 {
								bad = "sack result not used"
							}
						case "notsupported":
							if res != synRun || err != nil {
								bad = "no fallback on NotSupportedError"
							}
						case "other":
							if err == nil || synCalls != 0 || !errors.Is(err, sackErr) {
								bad = "other failure masked or cause lost"
							}
						}
					case "bogus":
						if err == nil {
							bad = "unknown method accepted"
						}
					}
					if bad != "" && len(fails) < 8 {
						fails = append(fails, fmt.Sprintf("method=%q sack=%s depth=%d join=%v: %s", m, kind, depth, join, bad))
					}
				}
			}
		}
	}
	return n, fails
}

func init() {
	F.Check = check
	count := func(tier string) int { return F.Count(tier) + 1 }
	run := func(tier string, idx int, r *core.ScnResult) {
		if idx == 0 {
			n, fails := selectorCases()
			r.Evals = int64(n)
			r.Nontrivial = true
			r.Outcome("selector-ok")
			for _, f := range fails {
				r.Fail(core.Failure{Key: "C20 selector/policy", What: f, Scenario: core.JSON(map[string]any{"selector": true})})
			}
			return
		}
		F.Run(tier, idx-1, r)
	}
	replay := func(scn json.RawMessage, choices []int) (string, bool) {
		var w struct {
			Selector bool `json:"selector"`
		}
		json.Unmarshal(scn, &w)
		if w.Selector {
			_, fails := selectorCases()
			if len(fails) > 0 {
				return fmt.Sprintf("ORACLE FAILED: %v\n", fails), false
			}
			return "oracle: ok\n", true
		}
		return F.Replay(scn, choices)
	}
	core.Register(&core.Property{ID: "C20", Level: "model_checking",
		Rule: "item = (method in {sack, prefer_sack, syn, \"\"}) x (target capability in {listening with SACK-permitted, + timestamps, without SACK-permitted, SACK-permitted but plain ACKs, port closed, handshake never captured}) x (end-to-end probes 0/2), and x (injected non-capability failure: first filter, second filter, source/sink constructor, every send k, every read k, every deadline set k - positions enumerated as choices); a real listener in the private namespace plays the target; " +
			"plus the method selector called directly with a SACK outcome in {success, NotSupportedError, other error} wrapped at depth 0..3 with fmt.Errorf/%w and errors.Join; " +
			"oracle: probe kinds on the wire (SYN vs ACK|PSH), connections accepted by the target, error chain: sack => SACK trace or error, never a SYN trace; prefer_sack => SYN trace iff SACK unavailable, other failures surface; syn => zero connections; e2e probes are SYN; distinct = distinct (error?, runs)",
		Count: count, Run: run, Replay: replay, Exhaustive: true, NeedsNetns: true,
		Assumptions: []string{"'handshake never captured' is not one of the statement's three unavailability cases: it must surface as an error"}})
}
