// Package c16: the result document is self-consistent and JSON-stable.
package c16

import (
	"encoding/hex"
	"encoding/json"
	"fmt"
	"math"
	"net"
	"sort"
	"strings"

	"github.com/DataDog/datadog-traceroute/result"

	"verif/props/core"
	"verif/props/proto"
)

// golden JSON key sets (the published field names), per object
var golden = map[string][]string{
	"results":              {"destination", "e2e_probe", "protocol", "source", "test_run_id", "traceroute"},
	"source":               {"public_ip"},
	"destination":          {"hostname", "port"},
	"traceroute":           {"hop_count", "runs"},
	"hop_count":            {"avg", "max", "min"},
	"run":                  {"destination", "hops", "run_id", "source"},
	"run.source":           {"ip_address", "port"},
	"run.destination":      {"ip_address", "port"},
	"run.destination+rdns": {"ip_address", "port", "reverse_dns"},
	"hop":                  {"ip_address", "reachable", "rtt", "ttl"},
	"hop+rdns":             {"ip_address", "reachable", "reverse_dns", "rtt", "ttl"},
	"e2e_probe":            {"jitter", "packet_loss_percentage", "packets_received", "packets_sent", "rtt", "rtts"},
	"e2e.rtt":              {"avg", "max", "min"},
}

var hopKinds = []func() net.IP{
	func() net.IP { return nil },
	func() net.IP { return net.IP{198, 51, 100, 7} },
	func() net.IP { return net.IPv4(198, 51, 100, 8) }, // 16-byte (v4-mapped) form
	func() net.IP { return net.ParseIP("2001:db8::9") },
	func() net.IP { return net.ParseIP("::ffff:203.0.113.5") },
	func() net.IP { return net.IP{10, 1, 2, 3} }, // private: blanked by the redaction step
	func() net.IP { return net.IP{} },            // an address slice that is empty but not nil (what some hop producers return for "no answer")
	func() net.IP { return net.ParseIP("::") },   // the unspecified IPv6 address: sixteen zero bytes are still an address
}

var rttAlpha = []float64{0, 1e-9, 0.1, 1.5, 3, 1e6}

// hopLists3 is the alphabet of the thorough tier's three-run product: every list of length <= 3 over the hop kinds WITHOUT
// the last one ('::', covered by the one- and two-run products and by the quick tier's three-run product): the cube of the
// full set is three times larger and does not fit the worker budget.
func hopLists3() [][]int {
	var out [][]int
	for _, l := range hopLists(3) {
		ok := true
		for _, k := range l {
			if k == len(hopKinds)-1 {
				ok = false
			}
		}
		if ok {
			out = append(out, l)
		}
	}
	return out
}

func hopLists(maxLen int) [][]int {
	var out [][]int
	var rec func(cur []int)
	rec = func(cur []int) {
		if len(cur) > 0 {
			out = append(out, append([]int{}, cur...))
		}
		if len(cur) == maxLen {
			return
		}
		for k := range hopKinds {
			rec(append(cur, k))
		}
	}
	rec(nil)
	return out
}

func mkRun(list []int, destLast bool, rdns bool) result.TracerouteRun {
	run := result.TracerouteRun{Source: result.TracerouteSource{IPAddress: net.IP{192, 0, 2, 1}, Port: 4242}, Destination: result.TracerouteDestination{IPAddress: net.IP{203, 0, 113, 9}, Port: 33434}}
	if rdns {
		run.Destination.ReverseDns = []string{"dest.example."}
	}
	for i, k := range list {
		h := &result.TracerouteHop{TTL: i + 1, IPAddress: hopKinds[k]()}
		if len(h.IPAddress) > 0 {
			h.RTT = float64(i) + 0.25
			if rdns {
				h.ReverseDns = []string{"h.example."}
			}
		}
		if destLast && i == len(list)-1 && len(h.IPAddress) > 0 {
			h.IsDest = true
		}
		run.Hops = append(run.Hops, h)
	}
	return run
}

func keysOf(m map[string]any) []string {
	var ks []string
	for k := range m {
		ks = append(ks, k)
	}
	sort.Strings(ks)
	return ks
}

func sameKeys(m map[string]any, name string) string {
	// every published field name is there (a field added next to them does not un-publish anything)
	got := keysOf(m)
	have := map[string]bool{}
	for _, k := range got {
		have[k] = true
	}
	for _, k := range golden[name] {
		if !have[k] {
			return fmt.Sprintf("%s: published field %q is missing; keys %v, published %v", name, k, got, golden[name])
		}
	}
	return ""
}

// every identifier produced in the run (tens of millions in the thorough tier): UUID strings are kept as their 16
// bytes, anything else as the string itself
var ids = idSet{}

type idSet struct {
	u map[[16]byte]struct{}
	s map[string]struct{}
}

func (x *idSet) key(id string) ([16]byte, bool) {
	var k [16]byte
	if len(id) != 36 || id[8] != '-' || id[13] != '-' || id[18] != '-' || id[23] != '-' {
		return k, false
	}
	h := id[0:8] + id[9:13] + id[14:18] + id[19:23] + id[24:36]
	if _, err := hex.Decode(k[:], []byte(h)); err != nil {
		return k, false
	}
	return k, true
}

func (x *idSet) has(id string) bool {
	if k, ok := x.key(id); ok {
		_, in := x.u[k]
		return in
	}
	_, in := x.s[id]
	return in
}

func (x *idSet) add(id string) {
	if x.u == nil {
		x.u, x.s = map[[16]byte]struct{}{}, map[string]struct{}{}
	}
	if k, ok := x.key(id); ok {
		x.u[k] = struct{}{}
		return
	}
	x.s[id] = struct{}{}
}

var copiedRunsN int

const tol = 1e-12

func le(a, b float64) bool { return a <= b+tol*math.Max(1, math.Max(math.Abs(a), math.Abs(b))) }

// checkDoc normalises the document and checks every relation of the statement; returns (key, detail).
func checkDoc(r *result.Results, nRuns int, lens []int) (key string, detail string) {
	return checkDocN(r, nRuns, lens, false)
}

// checkDocN: finished = the document comes out of RunTraceroute (already normalised by the real pipeline).
func checkDocN(r *result.Results, nRuns int, lens []int, finished bool) (key string, detail string) {
	rtts := append([]float64{}, r.E2eProbe.RTTs...)
	if !finished {
		r.Normalize()
	}
	// ids
	all := []string{r.TestRunID}
	for _, run := range r.Traceroute.Runs {
		all = append(all, run.RunID)
	}
	for _, id := range all {
		if id == "" {
			return "id/empty", ""
		}
		if ids.has(id) {
			return "id/reused", id
		}
		ids.add(id)
	}
	// hops
	maxLen, minLen := 0, 1<<30
	for i, run := range r.Traceroute.Runs {
		if len(run.Hops) != lens[i] {
			return "hops/count-changed", ""
		}
		if len(run.Hops) > maxLen {
			maxLen = len(run.Hops)
		}
		if len(run.Hops) < minLen {
			minLen = len(run.Hops)
		}
		for _, h := range run.Hops {
			has := len(h.IPAddress) > 0
			if h.Reachable != has {
				return "hop/reachable-iff-address", fmt.Sprintf("ttl %d address %v reachable %v", h.TTL, h.IPAddress, h.Reachable)
			}
		}
	}
	if nRuns > 0 {
		hc := r.Traceroute.HopCount
		if !(float64(hc.Min) <= hc.Avg+tol && hc.Avg <= float64(hc.Max)+tol) {
			return "hop-count/min-avg-max", fmt.Sprintf("%+v", hc)
		}
		if hc.Min < 1 || hc.Max > maxLen {
			return "hop-count/outside-run-lengths", fmt.Sprintf("%+v run lengths %d..%d", hc, minLen, maxLen)
		}
	}
	// e2e
	e := r.E2eProbe
	var pos []float64
	for _, x := range rtts {
		if x > 0 {
			pos = append(pos, x)
		}
	}
	if e.PacketsSent != len(rtts) {
		return "e2e/packets-sent", fmt.Sprintf("%d for %d samples", e.PacketsSent, len(rtts))
	}
	if e.PacketsReceived != len(pos) {
		return "e2e/packets-received", fmt.Sprintf("%d, positive samples %d (%v)", e.PacketsReceived, len(pos), rtts)
	}
	if len(rtts) > 0 {
		want := float32(len(rtts)-len(pos)) / float32(len(rtts))
		if e.PacketLossPercentage != want {
			return "e2e/loss", fmt.Sprintf("%v want %v", e.PacketLossPercentage, want)
		}
	} else if e.PacketLossPercentage != 0 {
		return "e2e/loss", "non-zero loss without samples"
	}
	if len(pos) > 0 {
		mn, mx, sum := pos[0], pos[0], 0.0
		for _, x := range pos {
			mn, mx, sum = math.Min(mn, x), math.Max(mx, x), sum+x
		}
		if e.RTT.Min != mn {
			return "e2e/rtt-min", fmt.Sprintf("min %v, smallest positive sample %v (%v)", e.RTT.Min, mn, rtts)
		}
		if e.RTT.Max != mx {
			return "e2e/rtt-max", fmt.Sprintf("max %v, largest sample %v (%v)", e.RTT.Max, mx, rtts)
		}
		if !le(e.RTT.Min, e.RTT.Avg) || !le(e.RTT.Avg, e.RTT.Max) {
			return "e2e/min-avg-max", fmt.Sprintf("%+v (%v)", e.RTT, rtts)
		}
		if math.Abs(e.RTT.Avg-sum/float64(len(pos))) > 1e-9*math.Max(1, mx) {
			return "e2e/avg", fmt.Sprintf("%v want %v", e.RTT.Avg, sum/float64(len(pos)))
		}
		if e.Jitter < 0 || !le(e.Jitter, mx-mn) {
			return "e2e/jitter-bounds", fmt.Sprintf("jitter %v, max-min %v (%v)", e.Jitter, mx-mn, rtts)
		}
	} else {
		if e.RTT.Min != 0 || e.RTT.Max != 0 || e.RTT.Avg != 0 || e.Jitter != 0 {
			return "e2e/stats-without-positive-samples", fmt.Sprintf("%+v", e)
		}
	}
	// JSON
	b, err := json.Marshal(r)
	if err != nil {
		return "json/marshal", err.Error()
	}
	var m map[string]any
	json.Unmarshal(b, &m)
	if s := sameKeys(m, "results"); s != "" {
		return "json/keys", s
	}
	for _, sub := range []string{"source", "destination", "traceroute", "e2e_probe"} {
		if s := sameKeys(m[sub].(map[string]any), sub); s != "" {
			return "json/keys", s
		}
	}
	if s := sameKeys(m["e2e_probe"].(map[string]any)["rtt"].(map[string]any), "e2e.rtt"); s != "" {
		return "json/keys", s
	}
	tr := m["traceroute"].(map[string]any)
	if s := sameKeys(tr["hop_count"].(map[string]any), "hop_count"); s != "" {
		return "json/keys", s
	}
	if runs, ok := tr["runs"].([]any); ok {
		for _, ru := range runs {
			rm := ru.(map[string]any)
			if s := sameKeys(rm, "run"); s != "" {
				return "json/keys", s
			}
			if s := sameKeys(rm["source"].(map[string]any), "run.source"); s != "" {
				return "json/keys", s
			}
			dn := "run.destination"
			if _, ok := rm["destination"].(map[string]any)["reverse_dns"]; ok {
				dn += "+rdns"
			}
			if s := sameKeys(rm["destination"].(map[string]any), dn); s != "" {
				return "json/keys", s
			}
			for _, h := range rm["hops"].([]any) {
				hn := "hop"
				if _, ok := h.(map[string]any)["reverse_dns"]; ok {
					hn += "+rdns"
				}
				if s := sameKeys(h.(map[string]any), hn); s != "" {
					return "json/keys", s
				}
			}
		}
	}
	// the last post-processing step of a request with skip-private-hops: the relations still hold afterwards
	defer func() {
		if key != "" {
			return
		}
		r.RemovePrivateHops()
		for i, run := range r.Traceroute.Runs {
			if len(run.Hops) != lens[i] {
				key, detail = "after-redaction/hops/count-changed", ""
				return
			}
			for k, h := range run.Hops {
				if h.TTL != k+1 {
					key, detail = "after-redaction/hop/ttl", fmt.Sprintf("entry %d has ttl %d", k, h.TTL)
					return
				}
				if h.Reachable != (len(h.IPAddress) > 0) {
					key, detail = "after-redaction/hop/reachable-iff-address", fmt.Sprintf("ttl %d address %v reachable %v", h.TTL, h.IPAddress, h.Reachable)
					return
				}
			}
		}
		if _, err := json.Marshal(r); err != nil {
			key, detail = "after-redaction/json/marshal", err.Error()
		}
	}()
	// round trip
	var back result.Results
	if err := json.Unmarshal(b, &back); err != nil {
		return "json/unmarshal", err.Error()
	}
	if back.TestRunID != r.TestRunID || back.Protocol != r.Protocol || back.Source != r.Source || back.Destination != r.Destination ||
		back.Traceroute.HopCount != r.Traceroute.HopCount || len(back.Traceroute.Runs) != len(r.Traceroute.Runs) {
		return "json/round-trip", "top-level fields differ"
	}
	be, re := back.E2eProbe, r.E2eProbe
	if be.PacketsSent != re.PacketsSent || be.PacketsReceived != re.PacketsReceived || be.PacketLossPercentage != re.PacketLossPercentage || be.Jitter != re.Jitter || be.RTT != re.RTT || len(be.RTTs) != len(re.RTTs) {
		return "json/round-trip", "e2e fields differ"
	}
	for i := range re.RTTs {
		if be.RTTs[i] != re.RTTs[i] {
			return "json/round-trip", "rtt samples differ"
		}
	}
	for i := range r.Traceroute.Runs {
		a, c := r.Traceroute.Runs[i], back.Traceroute.Runs[i]
		if a.RunID != c.RunID || !a.Source.IPAddress.Equal(c.Source.IPAddress) || a.Source.Port != c.Source.Port || !a.Destination.IPAddress.Equal(c.Destination.IPAddress) ||
			a.Destination.Port != c.Destination.Port || strings.Join(a.Destination.ReverseDns, ",") != strings.Join(c.Destination.ReverseDns, ",") || len(a.Hops) != len(c.Hops) {
			return "json/round-trip", "run fields differ"
		}
		for j := range a.Hops {
			x, y := a.Hops[j], c.Hops[j]
			if x.TTL != y.TTL || x.RTT != y.RTT || x.Reachable != y.Reachable || strings.Join(x.ReverseDns, ",") != strings.Join(y.ReverseDns, ",") {
				return "json/round-trip", fmt.Sprintf("hop %d differs", j)
			}
			if len(x.IPAddress) == 0 != (len(y.IPAddress) == 0) || (len(x.IPAddress) > 0 && !x.IPAddress.Equal(y.IPAddress)) {
				return "json/round-trip", fmt.Sprintf("hop %d address %v -> %v", j, x.IPAddress, y.IPAddress)
			}
		}
	}
	// a document assembled from runs that already carry identifiers (its first run copied twice out of this finished
	// result, the result's own test identifier kept): once normalised, its identifiers are fresh and pairwise distinct too
	copiedRunsN++
	if !finished && len(r.Traceroute.Runs) > 0 && len(r.Traceroute.Runs[0].Hops) < 1000 && copiedRunsN%16 == 1 {
		// (every sixteenth document: the identifier table of a thorough run already holds tens of millions of entries)
		d2 := result.Results{TestRunID: r.TestRunID, Traceroute: result.Traceroute{Runs: []result.TracerouteRun{r.Traceroute.Runs[0], r.Traceroute.Runs[0]}}}
		d2.Normalize()
		for _, id := range []string{d2.TestRunID, d2.Traceroute.Runs[0].RunID, d2.Traceroute.Runs[1].RunID} {
			if id == "" {
				return "id/empty", "document assembled from copied runs"
			}
			if ids.has(id) {
				return "id/reused", "document assembled from copied runs: " + id
			}
			ids.add(id)
		}
	}
	return "", ""
}

// ---- enumeration -----------------------------------------------------------------------------------

type chunk struct {
	kind string // "runs2" "runs3" "rtts"
	lo   int
}

const chunkSize = 512

func chunks(tier string) []chunk {
	var cs []chunk
	l2 := len(hopLists(3))
	n2 := (1 + l2 + l2*l2) * 2
	for lo := 0; lo < n2; lo += chunkSize {
		cs = append(cs, chunk{"runs2", lo})
	}
	l3 := len(hopLists(2))
	if tier == "thorough" {
		l3 = len(hopLists3())
	}
	n3 := l3 * l3 * l3
	step := chunkSize
	if tier == "thorough" {
		step = 8192
	}
	for lo := 0; lo < n3; lo += step {
		cs = append(cs, chunk{"runs3", lo})
	}
	nr := 0
	p := 1
	for l := 0; l <= 5; l++ {
		nr += p
		p *= len(rttAlpha)
	}
	for lo := 0; lo < nr; lo += chunkSize {
		cs = append(cs, chunk{"rtts", lo})
	}
	cs = append(cs, chunk{"sizes", 0})
	return cs
}

// sizeDocs: the run lengths of documents whose SIZE is the point (a run as long as the TTL range allows, many runs, totals
// around and beyond 255 and 65535 hops): the aggregates are sums over everything in the document.
var sizeDocs = [][]int{{255}, {255, 1}, {200, 56}, {128, 128}, {100, 100, 100}, {30, 30, 30, 30, 30, 30, 30, 30, 30}, {30, 30, 30, 30, 30, 30, 30, 30, 30, 30},
	{16, 16, 16, 16, 16, 16, 16, 16, 16, 16, 16, 16, 16, 16, 16, 16, 16}, {255, 255, 255}, {1, 255, 2}}

func sizeDoc(i int) []int {
	if i < len(sizeDocs) {
		return sizeDocs[i]
	}
	if i == len(sizeDocs) {
		// 258 runs of 255 hops: more than 65535 hops in all
		l := make([]int, 258)
		for k := range l {
			l[k] = 255
		}
		return l
	}
	return nil
}

func rttSeq(i int) []float64 {
	p := 1
	for l := 0; l <= 5; l++ {
		if i < p {
			s := make([]float64, l)
			for k := l - 1; k >= 0; k-- {
				s[k] = rttAlpha[i%len(rttAlpha)]
				i /= len(rttAlpha)
			}
			return s
		}
		i -= p
		p *= len(rttAlpha)
	}
	return nil
}

func run(tier string, idx int, r *core.ScnResult) {
	c := chunks(tier)[idx]
	r.Nontrivial = true
	step := chunkSize
	l2 := hopLists(3)
	l3 := hopLists(2)
	if tier == "thorough" {
		l3 = hopLists3()
		if c.kind == "runs3" {
			step = 8192
		}
	}
	fail := func(k, d string, doc any) {
		r.Fail(core.Failure{Key: "C16 " + k, What: d, Scenario: core.JSON(map[string]any{"doc": doc})})
	}
	for i := c.lo; i < c.lo+step; i++ {
		var doc result.Results
		var lens []int
		var desc any
		switch c.kind {
		case "runs2":
			rdns := i%2 == 1
			j := i / 2
			n := len(l2)
			switch {
			case j == 0:
			case j <= n:
				doc.Traceroute.Runs = []result.TracerouteRun{mkRun(l2[j-1], true, rdns)}
				lens = []int{len(l2[j-1])}
			case j < 1+n+n*n:
				k := j - 1 - n
				a, b := l2[k/n], l2[k%n]
				doc.Traceroute.Runs = []result.TracerouteRun{mkRun(a, true, rdns), mkRun(b, false, rdns)}
				lens = []int{len(a), len(b)}
			default:
				continue
			}
			doc.E2eProbe.RTTs = []float64{1.5, 0, 3}
			desc = map[string]any{"kind": c.kind, "index": i}
		case "runs3":
			n := len(l3)
			if i >= n*n*n {
				continue
			}
			a, b, d := l3[i/(n*n)], l3[(i/n)%n], l3[i%n]
			doc.Traceroute.Runs = []result.TracerouteRun{mkRun(a, true, false), mkRun(b, true, false), mkRun(d, false, false)}
			lens = []int{len(a), len(b), len(d)}
			desc = map[string]any{"kind": c.kind, "index": i}
		case "sizes":
			ls := sizeDoc(i)
			if ls == nil {
				continue
			}
			for ri, n := range ls {
				list := make([]int, n)
				for k := range list {
					list[k] = 1 + (k+ri)%2 // answered hops of two address kinds
				}
				doc.Traceroute.Runs = append(doc.Traceroute.Runs, mkRun(list, true, false))
				lens = append(lens, n)
			}
			doc.E2eProbe.RTTs = []float64{1.5, 0, 3}
			desc = map[string]any{"kind": c.kind, "index": i}
		case "rtts":
			s := rttSeq(i)
			if s == nil && i > 0 {
				continue
			}
			doc.E2eProbe.RTTs = s
			doc.Traceroute.Runs = []result.TracerouteRun{mkRun([]int{1, 0, 3}, true, false)}
			lens = []int{3}
			desc = map[string]any{"kind": c.kind, "rtts": s}
		}
		r.Evals++
		k, d := checkDoc(&doc, len(lens), lens)
		if k != "" {
			fail(k, d, desc)
		}
		if c.kind == "rtts" {
			r.Outcome(fmt.Sprintf("recv%d/loss%.2f", doc.E2eProbe.PacketsReceived, doc.E2eProbe.PacketLossPercentage))
		} else {
			r.Outcome(fmt.Sprintf("runs%d/hc%d-%d", len(lens), doc.Traceroute.HopCount.Min, doc.Traceroute.HopCount.Max))
		}
		if i == c.lo && idx%40 == 0 {
			b, _ := json.Marshal(doc)
			r.Sample = core.JSON(map[string]any{"desc": desc, "document": json.RawMessage(b)})
		}
	}
}

func replay(scn json.RawMessage, choices []int) (string, bool) {
	var w struct {
		Doc struct {
			Kind  string    `json:"kind"`
			Index int       `json:"index"`
			RTTs  []float64 `json:"rtts"`
		} `json:"doc"`
	}
	json.Unmarshal(scn, &w)
	var doc result.Results
	var lens []int
	switch w.Doc.Kind {
	case "rtts":
		doc.E2eProbe.RTTs = w.Doc.RTTs
		doc.Traceroute.Runs = []result.TracerouteRun{mkRun([]int{1, 0, 3}, true, false)}
		lens = []int{3}
	default:
		// re-run the chunk containing the index
		for _, tier := range []string{"quick", "thorough"} {
			cs := chunks(tier)
			for ci, c := range cs {
				if c.kind == w.Doc.Kind && w.Doc.Index >= c.lo && w.Doc.Index < c.lo+8192 {
					r := &core.ScnResult{}
					ids = idSet{}
					run(tier, ci, r)
					if len(r.Failures) > 0 {
						return fmt.Sprintf("ORACLE FAILED: %s: %s\n", r.Failures[0].Key, r.Failures[0].What), false
					}
				}
			}
		}
		return "oracle: ok\n", true
	}
	k, d := checkDoc(&doc, len(lens), lens)
	if k != "" {
		return fmt.Sprintf("document %s\nORACLE FAILED: %s: %s\n", scn, k, d), false
	}
	return "oracle: ok\n", true
}

// ---- documents as they come out of the entry points ------------------------------------------------------------

func genRT(tier string) []proto.RTItem {
	var items []proto.RTItem
	for _, entry := range []string{"RunTraceroute", "http", "cli"} {
		for _, c := range [][2]int{{0, 2}, {1, 0}, {2, 2}, {0, 0}, {3, 1}} {
			for _, dest := range []int{3, 0} {
				r := proto.RTScn{Hostname: "203.0.113.77", Protocol: "udp", MinTTL: 1, MaxTTL: 4, DelayMs: 50, TimeoutMs: 100, Queries: c[0], E2e: c[1], Dest: dest, IPIDBase: 1600, EchoBase: 160,
					HTTP: entry == "http", CLI: entry == "cli", Bound: -1}
				items = append(items, proto.RTItem{Scn: r, Class: fmt.Sprintf("finished-document/%s/runs=%d,e2e=%d/dest-%d", entry, c[0], c[1], dest)})
			}
		}
	}
	return items
}

var RF = &proto.RTFamily{ID: "C16", Gen: genRT, Check: func(it *proto.RTItem, r *proto.RTResult) []proto.Issue {
	if r.Err != nil {
		return []proto.Issue{{Key: "request-failed", Detail: r.Err.Error()}}
	}
	var lens []int
	for _, run := range r.Res.Traceroute.Runs {
		lens = append(lens, len(run.Hops))
	}
	if len(lens) != it.Scn.Queries || len(r.Res.E2eProbe.RTTs) != it.Scn.E2e {
		return []proto.Issue{{Key: "counts", Detail: r.Summary()}}
	}
	if k, d := checkDocN(r.Res, len(lens), lens, true); k != "" {
		return []proto.Issue{{Key: k, Detail: d}}
	}
	return nil
}}

func init() {
	nDoc := func(t string) int { return len(chunks(t)) }
	docRun, docReplay := run, replay
	run := func(tier string, idx int, r *core.ScnResult) {
		if idx >= nDoc(tier) {
			RF.Run(tier, idx-nDoc(tier), r)
			return
		}
		docRun(tier, idx, r)
	}
	replay := func(scn json.RawMessage, choices []int) (string, bool) {
		var w struct {
			RT json.RawMessage `json:"rt"`
		}
		if json.Unmarshal(scn, &w); w.RT != nil {
			return RF.Replay(scn, choices)
		}
		return docReplay(scn, choices)
	}
	core.Register(&core.Property{ID: "C16", Level: "model_checking", NeedsNetns: true,
		Rule: "every document from a small alphabet: 0..2 runs over all hop lists of length 1..3 over {empty, IPv4 4-byte, IPv4 16-byte, IPv6, IPv4-mapped} (x destination flag x reverse-DNS names), 3 runs over all hop lists of length <=2 (thorough: <=3), and every RTT sample sequence of length 0..5 over {0, 1e-9, 0.1, 1.5, 3, 1e6} (hence every permutation of every multiset); each is normalised by the real code and checked against the relations of the statement, " +
			"the published JSON key sets (golden list in this package) and a marshal/unmarshal round trip; ids must be pairwise distinct over everything produced in the run; distinct = distinct (runs, hop-count min/max) and (received, loss) classes; " +
			"finished documents: requests with run / probe counts incl. 0 through RunTraceroute, the HTTP handler and the CLI over the simulated wire, the returned document checked against the same relations without normalising it again",
		Count: func(t string) int { return nDoc(t) + RF.Count(t) }, Run: run, Replay: replay, Exhaustive: true,
		Assumptions: []string{"identifier freshness is observed only as pairwise distinctness over the documents of one run", "floating-point relations use a relative tolerance of 1e-12 (DESIGN.md §6.4)"}})
}
