// Package c02: recognition completeness. Every genuine reply form real devices
// produce, arriving inside the probe's listening window, yields its hop.
package c02

import (
	"fmt"

	"verif/props/c05"
	"verif/props/proto"
	"verif/simnet"
)

type rng struct{ first, last int }

func base(v string, r rng, dest int) proto.Scn {
	return proto.Scn{Variant: v, First: r.first, Last: r.last, Dest: dest, IPIDBase: 200, EchoBase: 11, TimeoutMs: 300, DelayMs: 10}
}

func routerForms(vi proto.VInfo) []string {
	if vi.V6 {
		return simnet.ICMPErrForms6
	}
	return simnet.ICMPErrForms4
}

func destForms(vi proto.VInfo) []string {
	switch vi.Kind {
	case "icmp4", "icmp6":
		return []string{"echo"}
	case "udp4", "udp6":
		return append(append([]string{}, simnet.DUForms...), routerForms(vi)...)
	case "tcp", "tcpparis":
		return []string{"synack", "rst", "rstack"}
	case "sack":
		return append([]string{"sack1", "sack2", "sack3", "sackTS"}, routerForms(vi)...)
	}
	return nil
}

func perms(n int) [][]int {
	if n == 1 {
		return [][]int{{0}}
	}
	var out [][]int
	for _, p := range perms(n - 1) {
		for i := 0; i <= len(p); i++ {
			q := append(append(append([]int{}, p[:i]...), n-1), p[i:]...)
			out = append(out, q)
		}
	}
	return out
}

func gen(tier string) []proto.Item {
	var items []proto.Item
	ranges := []rng{{1, 4}, {254, 255}}
	if tier == "thorough" {
		ranges = []rng{{1, 4}, {2, 6}, {1, 30}, {254, 255}, {255, 255}, {250, 255}}
	}
	for _, v := range proto.Variants {
		vi := proto.Info(v)
		for _, r := range ranges {
			rtag := fmt.Sprintf("r%d-%d", r.first, r.last)
			dest := r.first + 2
			if dest > r.last {
				dest = r.last
			}
			items = append(items, proto.Item{Scn: base(v, r, dest), Class: v + "/" + rtag + "/all-default"})
			// every catalogue form at a router position and at the destination position
			type pos struct {
				ttl   int
				forms []string
				what  string
			}
			var ps []pos
			for t := r.first; t < dest; t++ {
				ps = append(ps, pos{t, routerForms(vi), "router"})
			}
			ps = append(ps, pos{dest, destForms(vi), "destination"})
			for _, p := range ps {
				for _, form := range p.forms {
					mk := func() proto.Scn {
						s := base(v, r, dest)
						s.Hops = map[int]proto.HopSpec{p.ttl: {Form: form}}
						return s
					}
					cls := fmt.Sprintf("%s/%s/%s/%s", v, rtag, form, p.what)
					items = append(items, proto.Item{Scn: mk(), Class: cls + "/others-delivered"})
					// each other reply lost / duplicated
					for u := r.first; u <= dest; u++ {
						if u == p.ttl {
							continue
						}
						s := mk()
						s.Hops[u] = proto.HopSpec{Silent: true}
						items = append(items, proto.Item{Scn: s, Class: cls + "/other-lost"})
						if vi.Parallel {
							// (serial engine: a duplicate necessarily arrives after its probe's own window, which the
							// property's quantifier excludes)
							s = mk()
							s.Hops[u] = proto.HopSpec{Copies: 1}
							items = append(items, proto.Item{Scn: s, Class: cls + "/other-duplicated"})
						}
					}
					if vi.Parallel {
						s := mk()
						h := s.Hops[p.ttl]
						h.Copies = 2
						s.Hops[p.ttl] = h
						items = append(items, proto.Item{Scn: s, Class: cls + "/self-duplicated"})
					}
					// NAT rewrote the quoted source (address and port): must still match in relaxed mode
					if simnet.IsICMPError(form) && vi.Relaxed && vi.Kind != "icmp4" && vi.Kind != "icmp6" {
						s := mk()
						h := s.Hops[p.ttl]
						h.Rewrite = []simnet.Perturb{{Field: "q.src", Op: "other", Other: 0x21}, {Field: "q.sport", Op: "other", Other: 40001}}
						s.Hops[p.ttl] = h
						items = append(items, proto.Item{Scn: s, Class: cls + "/nat-rewritten-source"})
					}
				}
			}
			// all arrival orders of the replies (parallel engines; <= 4 replies)
			n := dest - r.first + 1
			if vi.Parallel && n >= 2 && n <= 4 {
				for pi, p := range perms(n) {
					s := base(v, r, dest)
					s.Hops = map[int]proto.HopSpec{}
					for k := 0; k < n; k++ {
						t := r.first + k
						arrive := 60000 + p[k]*7000 // us after the first probe
						s.Hops[t] = proto.HopSpec{DelayUs: arrive - k*10000}
					}
					_ = pi
					items = append(items, proto.Item{Scn: s, Class: fmt.Sprintf("%s/%s/arrival-order", v, rtag)})
				}
			}
			// replies with no latency at all: on the capture handle when the send call returns (loopback, same host)
			for t := r.first; t <= dest; t++ {
				s := base(v, r, dest)
				s.Hops = map[int]proto.HopSpec{t: {DelayUs: -1}}
				items = append(items, proto.Item{Scn: s, Class: fmt.Sprintf("%s/%s/no-latency-reply", v, rtag)})
			}
			{
				s := base(v, r, dest)
				s.Hops = map[int]proto.HopSpec{}
				for t := r.first; t <= dest; t++ {
					s.Hops[t] = proto.HopSpec{DelayUs: -1}
				}
				items = append(items, proto.Item{Scn: s, Class: fmt.Sprintf("%s/%s/no-latency-replies", v, rtag)})
			}
			// a reply slower than the per-probe timeout parameter but well inside the run's budget (timeout + probes x delay):
			// the budget, not the timeout, is the listening window of the parallel engine
			// (a range of 30 TTLs makes the budget 600 ms, so that 304 ms is more than one poll interval before the deadline)
			if vi.Parallel && r.first == 1 && r.last == 4 {
				for _, d := range []int{3, 0} {
					s := base(v, rng{1, 30}, d)
					s.Hops = map[int]proto.HopSpec{1: {DelayUs: 300000 + 4000}}
					if d == 0 {
						for t := 5; t <= 30; t++ {
							s.Hops[t] = proto.HopSpec{Silent: true}
						}
					}
					items = append(items, proto.Item{Scn: s, Class: fmt.Sprintf("%s/r1-30/slower-than-timeout-inside-budget/dest-%d", v, d)})
				}
			}
			// a burst of frames that answer nobody's probe here (time-exceeded for another destination, one every millisecond)
			// sits in front of a genuine reply that still arrives early in its own window: reading them costs no listening time
			if r.first == 1 && r.last == 4 {
				for _, n := range []int{8, 40} {
					s := base(v, r, dest)
					s.Hops = map[int]proto.HopSpec{2: {DelayUs: 70000}}
					s.Bound = 1 // (dozens of deliveries: every one adds scheduling points)
					if n > 10 {
						s.Bound = -1
					}
					s.Inject = []proto.Inject{{OnTTL: 2, AnswerTTL: 2, Form: vi.TEForm, From: proto.Evil(vi.V6).String(), DelayUs: 1000, Tag: "unrelated-burst", Rewrite: []simnet.Perturb{{Field: "q.dst", Op: "+1"}}, Repeat: n, EveryUs: 1000}}
					items = append(items, proto.Item{Scn: s, Class: fmt.Sprintf("%s/%s/unrelated-burst-of-%d-before-the-reply", v, rtag, n)})
				}
			}
			// a send delay LONGER than the poll interval (300 ms): the budget is timeout + one delay per probe, and a reply that
			// arrives in its last delay-sized slice, more than a poll interval before the deadline, is still read
			if vi.Parallel && r.first == 1 && r.last == 4 {
				for _, n := range []int{1, 3} {
					s := proto.Scn{Variant: v, First: 1, Last: n, Dest: 0, IPIDBase: 100, EchoBase: 11, TimeoutMs: 300, DelayMs: 300, Bound: 1}
					budget := 300000 + n*300000
					sentAt := (n - 1) * 300000
					s.Hops = map[int]proto.HopSpec{n: {DelayUs: budget - sentAt - 150000}}
					items = append(items, proto.Item{Scn: s, Class: fmt.Sprintf("%s/r1-%d/long-send-delay/late-inside-budget", v, n)})
				}
			}
			// replies that arrive late but inside the budget (one poll interval before the deadline)
			if vi.Parallel {
				s := base(v, r, dest)
				budget := 300000 + (r.last-r.first+1)*10000
				s.Hops = map[int]proto.HopSpec{r.first: {DelayUs: budget - 100000 - 2000}}
				items = append(items, proto.Item{Scn: s, Class: fmt.Sprintf("%s/%s/late-inside-budget", v, rtag)})
			}
		}
		// SACK for any initial sequence number, with and without timestamps
		if vi.Kind == "sack" {
			r := rng{1, 4}
			acks := []uint32{0, 1, 0x7fffffff, 0x80000000, 0xffffffff, 0xfffffffe, 0xfffffffd, 0xfffffffc, 0xfffffffb}
			for _, a := range acks {
				for _, ts := range []bool{false, true} {
					for _, form := range []string{"sack1", "sack3", "sackTS"} {
						s := base(v, r, 3)
						s.SynAck = &simnet.SynAckSpec{Enabled: true, ISN: a ^ 0x55aa, AckNum: a, SackPermitted: true, Timestamps: ts}
						s.Hops = map[int]proto.HopSpec{3: {Form: form}, 4: {Form: form}}
						items = append(items, proto.Item{Scn: s, Class: fmt.Sprintf("%s/isn-wrap/%s", v, form)})
						// the earlier duplicate ACK lost: the later one carries both segments
						s2 := s
						s2.Hops = map[int]proto.HopSpec{3: {Silent: false, Form: form, DelayUs: 250000}, 4: {Form: form}}
						items = append(items, proto.Item{Scn: s2, Class: fmt.Sprintf("%s/isn-wrap/%s/reordered-acks", v, form)})
					}
				}
			}
		}
		if vi.Kind == "sack" {
			// the SYN-ACK of another connection to the same target port is captured before the run's own
			s := base(v, rng{1, 4}, 3)
			s.SynAck = &simnet.SynAckSpec{Enabled: true, ISN: 0x1234, AckNum: 0x8000, SackPermitted: true, WrongFirst: true}
			items = append(items, proto.Item{Scn: s, Class: v + "/other-connections-synack-first"})
		}
		if vi.Kind == "sack" {
			// a segment of the run's own connection that is no probe reply - the handshake SYN-ACK retransmitted, the target
			// closing (FIN) or resetting (RST) its side - arrives at each position among the replies: the replies inside
			// their windows are still all recognised
			for _, form := range []string{"synack", "tcpfinack", "rstack", "rst"} {
				for _, t := range []int{1, 2, 3} {
					for _, d := range []int{-1, 2500} {
						s := base(v, rng{1, 4}, 3)
						s.Inject = []proto.Inject{{OnTTL: t, AnswerTTL: t, Form: form, From: s.Target().String(), DelayUs: d, Tag: "own-connection-non-reply"}}
						items = append(items, proto.Item{Scn: s, Class: fmt.Sprintf("%s/r1-4/own-connection-%s-among-the-replies", v, form)})
					}
				}
			}
		}
		// SACK: every history of the probes that reach the target (acknowledged / acknowledgement lost / probe lost),
		// for initial sequence numbers such that the 2^32 wrap falls inside the probed range
		if vi.Kind == "sack" {
			r := rng{1, 6}
			inits := []uint32{0x2000, 0xfffffff9, 0xfffffffa, 0xfffffffb, 0xfffffffc, 0xfffffffd, 0xfffffffe, 0xffffffff}
			if tier != "thorough" {
				inits = []uint32{0x2000, 0xfffffffb, 0xfffffffc, 0xfffffffd}
			}
			for _, a := range inits {
				for code := 0; code < 81; code++ {
					s := base(v, r, 3)
					s.SynAck = &simnet.SynAckSpec{Enabled: true, ISN: 0x77, AckNum: a, SackPermitted: true}
					s.Hops = map[int]proto.HopSpec{}
					c := code
					for t := 3; t <= 6; t++ {
						switch c % 3 {
						case 1:
							s.Hops[t] = proto.HopSpec{LostReply: true}
						case 2:
							s.Hops[t] = proto.HopSpec{Silent: true}
						}
						c /= 3
					}
					items = append(items, proto.Item{Scn: s, Class: fmt.Sprintf("%s/isn-wrap/ack-history", v)})
				}
			}
		}
		// identifier bases at wrap-around: complete path expected
		for _, b := range []struct {
			name       string
			ipid, echo uint32
			rnd        []uint32
		}{{"max", 65535, 65534, []uint32{0xffffffff, 0xfffffffe, 0, 1, 0xfffffffd, 2}}, {"wrap-inside", 65533, 65535, []uint32{0xfffffffe, 0xffffffff, 0, 1, 2, 3}}} {
			s := base(v, rng{1, 4}, 3)
			s.IPIDBase, s.EchoBase, s.Rand = b.ipid, b.echo, b.rnd
			items = append(items, proto.Item{Scn: s, Class: v + "/base-" + b.name + "/all-default"})
		}
	}
	// UDP: a router rejects a probe with a destination-unreachable of its own (host, administratively prohibited, port)
	for _, v := range proto.Variants {
		if k := proto.Info(v).Kind; k != "udp4" && k != "udp6" {
			continue
		}
		for _, form := range []string{"duHost", "duAdmin", "duPort"} {
			for _, t := range []int{1, 2} {
				s := base(v, rng{1, 4}, 3)
				s.Hops = map[int]proto.HopSpec{t: {Form: form}}
				items = append(items, proto.Item{Scn: s, Class: fmt.Sprintf("%s/r1-4/%s/router/others-delivered", v, form)})
			}
		}
	}
	// TCP SYN: the probe's sequence number is 2^32-1, so the destination's SYN-ACK / RST-ACK acknowledges 0: recognised
	// like any other answer (default mode: one number for the whole run; Paris mode: every probe draws it)
	for _, v := range []string{"syn", "synr", "synparis"} {
		for _, form := range []string{"synack", "rstack"} {
			s := base(v, rng{1, 4}, 3)
			s.Rand = []uint32{0xffffffff, 0x22222222, 0x33333333, 0x44444444, 0x55555555, 0x66666666}
			if v == "synparis" {
				// (every probe draws its own number: the third one, the first to reach the destination, draws 2^32-1)
				s.Rand = []uint32{0x11111111, 0x22222222, 0xffffffff, 0x44444444, 0x55555555, 0x66666666}
			}
			s.Hops = map[int]proto.HopSpec{3: {Form: form}, 4: {Form: form}}
			items = append(items, proto.Item{Scn: s, Class: fmt.Sprintf("%s/r1-4/sequence-number-all-ones/%s", v, form)})
		}
	}
	items = append(items, c05.ForwardReorder(tier, 200, 11)...)
	return items
}

func check(it *proto.Item, r *proto.Result) []proto.Issue {
	var out []proto.Issue
	o := r.Obs[0]
	if o.Err != nil {
		return []proto.Issue{{Key: "run-error", Detail: "only genuine replies were delivered, but the run failed: " + o.Err.Error()}}
	}
	out = append(out, proto.Completeness(&it.Scn, r, 0)...)
	return out
}

var F = &proto.Family{ID: "C02", Gen: gen, Check: check,
	Bound: func(tier string) int {
		if tier == "thorough" {
			return 3
		}
		return 2
	}}

func init() {
	F.Register("model_checking",
		"item = (variant, TTL range, position router/destination, catalogue reply form, history of the other replies: delivered / each lost / each duplicated / every arrival order / NAT-rewritten quoted source / late inside the budget / SACK initial sequence numbers around 2^31 and 2^32); "+
			"complete product enumerated, each item executed through the exported entry point over the simulated wire with the real BPF programs installed; "+
			"oracle: every genuine reply delivered >= one poll interval before the engine's deadline (serial: inside its own window) appears as its hop with the responder's address unless beyond the destination hop; distinct = distinct hop lists",
		[]string{"reply encodings are built by refcodec from the emitted probe bytes: 28-byte / full / RFC 4884 extension quotes, outer IP options, rewritten quoted TTL / checksum / TOS, echo reply, destination unreachable codes, SYN-ACK / RST / RST-ACK, duplicate ACKs with 1-3 merged SACK blocks, with and without timestamps"})
}
