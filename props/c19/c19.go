// Package c19: parameters are honoured exactly or rejected, never wrapped; no crash.
package c19

import (
	"fmt"
	"net/netip"
	"sort"
	"strings"

	"verif/props/proto"
	"verif/refcodec"
)

// (the last two of each list: values beyond 32 bits whose low 32 bits alone would be an ordinary value)
var ttlVals = []int{-1, 0, 1, 2, 30, 254, 255, 256, 257, 258, 300, 511, 65536, 65537, 1<<32 + 3, -(1 << 32) + 3}
var portVals = []int{-1, 0, 1, 65535, 65536, 70000, 1<<32 + 33434, -(1 << 32) + 33434}
var protoVals = []string{"udp", "tcp", "icmp", "UDP", "", "sctp"}
var methodVals = []string{"", "syn", "sack", "prefer_sack", "syn_socket", "bogus"}

type kind struct {
	proto, method, target string
}

func kinds() []kind {
	return []kind{{"udp", "", "203.0.113.77"}, {"icmp", "", "203.0.113.77"}, {"tcp", "syn", "203.0.113.77"}, {"tcp", "sack", "198.18.0.9"}, {"udp", "", "2001:db8::77"}, {"icmp", "", "2001:db8::77"}}
}

func req(k kind, min, max, port, dest int) proto.RTScn {
	return proto.RTScn{Hostname: k.target, Port: port, Protocol: k.proto, Method: k.method, MinTTL: min, MaxTTL: max, DelayMs: 10, TimeoutMs: 100, Queries: 1, E2e: 0,
		Dest: dest, IPIDBase: 1900, EchoBase: 190, WantV6: strings.Contains(k.target, ":"), UseListenerPort: k.method == "sack" && port == 33434}
}

func gen(tier string) []proto.RTItem {
	var items []proto.RTItem
	ks := kinds()
	// (A) all pairs of TTL bounds
	for _, k := range ks {
		tv := ttlVals
		if tier != "thorough" && strings.Contains(k.target, ":") {
			tv = []int{0, 1, 251, 255, 256} // IPv6 in the quick tier: the boundary values only
		}
		for _, min := range tv {
			for _, max := range tv {
				for _, dest := range []int{3, 0} {
					if dest == 0 && !(min >= 1 && max <= 255 && min <= max && max-min < 8) && tier != "thorough" {
						continue // silent world only for short valid ranges in the quick tier
					}
					r := req(k, min, max, 33434, dest)
					items = append(items, proto.RTItem{Scn: r, Class: fmt.Sprintf("RunTraceroute/%s-%s/ttl/min=%d,max=%d/dest-%d", k.proto, k.method, min, max, dest)})
				}
			}
		}
	}
	// (B) ports
	for _, k := range ks[:4] {
		for _, p := range portVals {
			r := req(k, 1, 3, p, 3)
			if k.method == "sack" {
				r.UseListenerPort = p == 0
			}
			items = append(items, proto.RTItem{Scn: r, Class: fmt.Sprintf("RunTraceroute/%s-%s/port/%d", k.proto, k.method, p)})
		}
	}
	// (C) protocol and method strings
	for _, pr := range protoVals {
		for _, m := range methodVals {
			tgt := "203.0.113.77"
			if pr == "tcp" && (m == "sack" || m == "prefer_sack") {
				tgt = "198.18.0.9"
			}
			r := req(kind{pr, m, tgt}, 1, 3, 33434, 3)
			r.UseListenerPort = tgt == "198.18.0.9"
			items = append(items, proto.RTItem{Scn: r, Class: fmt.Sprintf("RunTraceroute/strings/protocol=%q,method=%q", pr, m)})
			if ok, _ := representable(&r); !ok {
				// the same unrepresentable strings when the request consists of end-to-end probes only (a different code path decides the method there)
				r2 := r
				r2.Queries, r2.E2e = 0, 2
				items = append(items, proto.RTItem{Scn: r2, Class: fmt.Sprintf("RunTraceroute/strings/protocol=%q,method=%q/e2e-probes-only", pr, m)})
				r3 := r2
				r3.HTTP = true
				items = append(items, proto.RTItem{Scn: r3, Class: fmt.Sprintf("http/strings/protocol=%q,method=%q/e2e-probes-only", pr, m)})
			}
		}
	}
	// (D) target literal forms
	for _, k := range []kind{{"udp", "", ""}, {"tcp", "syn", ""}, {"icmp", "", ""}} {
		for _, t := range []string{"203.0.113.77", "2001:db8::77", "[2001:db8::77]", "203.0.113.77:4444", "[2001:db8::77]:4444", "203.0.113.77:0", "203.0.113.77:65536", "203.0.113.77:-1"} {
			if k.proto == "tcp" && strings.Contains(t, "db8") {
				continue // TCP SYN is IPv4 only in this tool; an IPv6 target is outside the variant list
			}
			kk := k
			kk.target = t
			r := req(kk, 1, 3, 0, 3)
			r.UseListenerPort = false
			items = append(items, proto.RTItem{Scn: r, Class: fmt.Sprintf("RunTraceroute/%s/target-form/%s", k.proto, t)})
		}
	}
	// (D') the port parameter next to a target literal that is bracketed but carries no port of its own
	for _, k := range []kind{{"udp", "", "[203.0.113.77]"}, {"tcp", "syn", "[203.0.113.77]"}, {"udp", "", "[2001:db8::77]"}} {
		for _, p := range portVals {
			for _, http := range []bool{false, true} {
				r := req(k, 1, 3, p, 3)
				r.UseListenerPort = false
				r.HTTP = http
				if http && p == 0 {
					continue
				}
				items = append(items, proto.RTItem{Scn: r, Class: fmt.Sprintf("%s/%s/bracketed-target-%s/port=%d", map[bool]string{false: "RunTraceroute", true: "http"}[http], k.proto, k.target, p)})
			}
		}
	}
	// (E) the HTTP API (MinTTL fixed at 1)
	for _, k := range ks[:4] {
		for _, max := range ttlVals {
			r := req(k, 1, max, 33434, 3)
			r.HTTP = true
			items = append(items, proto.RTItem{Scn: r, Class: fmt.Sprintf("http/%s-%s/max-ttl=%d", k.proto, k.method, max)})
		}
		for _, p := range portVals {
			r := req(k, 1, 3, p, 3)
			r.HTTP = true
			if k.method == "sack" {
				r.UseListenerPort = false
			}
			if p == 0 {
				continue // the handler has its own default for an absent port; port=0 in the query is covered by (B)
			}
			items = append(items, proto.RTItem{Scn: r, Class: fmt.Sprintf("http/%s-%s/port=%d", k.proto, k.method, p)})
		}
	}
	// (E') the same numbers spelled with a leading zero or a plus sign (still decimal numbers): the TTL and port grids once more
	for _, sp := range []string{"leading-zero", "plus"} {
		for _, k := range ks[:2] {
			for _, max := range ttlVals {
				if max < 0 {
					continue
				}
				r := req(k, 1, max, 33434, 3)
				r.HTTP, r.IntSpelling = true, sp
				items = append(items, proto.RTItem{Scn: r, Class: fmt.Sprintf("http/%s-%s/max-ttl=%d/spelled-%s", k.proto, k.method, max, sp)})
			}
			for _, p := range portVals {
				if p <= 0 {
					continue
				}
				r := req(k, 1, 9, p, 3)
				r.HTTP, r.IntSpelling = true, sp
				items = append(items, proto.RTItem{Scn: r, Class: fmt.Sprintf("http/%s-%s/port=%d/spelled-%s", k.proto, k.method, p, sp)})
			}
		}
	}
	// (F) the command-line front end (first TTL fixed at 1, send delay fixed at 50 ms), run in-process over the simulated wire
	for _, k := range ks {
		if tier != "thorough" && strings.Contains(k.target, ":") && k.proto == "icmp" {
			continue
		}
		for _, max := range ttlVals {
			r := req(k, 1, max, 33434, 3)
			r.CLI, r.DelayMs = true, 50
			items = append(items, proto.RTItem{Scn: r, Class: fmt.Sprintf("cli/%s-%s/max-ttl=%d", k.proto, k.method, max)})
		}
	}
	for _, k := range ks[:4] {
		for _, p := range portVals {
			r := req(k, 1, 3, p, 3)
			r.CLI, r.DelayMs = true, 50
			if k.method == "sack" {
				r.UseListenerPort = p == 0
			}
			items = append(items, proto.RTItem{Scn: r, Class: fmt.Sprintf("cli/%s-%s/port=%d", k.proto, k.method, p)})
		}
	}
	for _, pr := range protoVals {
		for _, m := range methodVals {
			if pr == "" {
				continue // (an empty --proto is the flag's own business)
			}
			tgt := "203.0.113.77"
			if pr == "tcp" && (m == "sack" || m == "prefer_sack") {
				tgt = "198.18.0.9"
			}
			r := req(kind{pr, m, tgt}, 1, 3, 33434, 3)
			r.UseListenerPort = tgt == "198.18.0.9"
			r.CLI, r.DelayMs = true, 50
			items = append(items, proto.RTItem{Scn: r, Class: fmt.Sprintf("cli/strings/protocol=%q,method=%q", pr, m)})
		}
	}
	// (H) the pause between probes (library parameter), longer than the receive poll interval and than the timeout: the
	// whole requested range is still probed when nobody answers
	for _, k := range ks {
		for _, d := range []int{150, 300, 1000} {
			r := req(k, 1, 8, 33434, 0)
			r.DelayMs = d
			items = append(items, proto.RTItem{Scn: r, Class: fmt.Sprintf("RunTraceroute/%s-%s/send-delay=%dms", k.proto, k.method, d)})
		}
	}
	// (G) requests that ask for runs AND end-to-end probes: each kind of run keeps its own TTL range
	for _, k := range ks {
		for _, entry := range []string{"RunTraceroute", "http", "cli"} {
			if entry != "RunTraceroute" && strings.Contains(k.target, ":") && tier != "thorough" {
				continue
			}
			r := req(k, 1, 5, 33434, 3)
			r.Queries, r.E2e = 2, 2
			r.HTTP, r.CLI = entry == "http", entry == "cli"
			if r.CLI {
				r.DelayMs = 50
			}
			items = append(items, proto.RTItem{Scn: r, Class: fmt.Sprintf("%s/%s-%s/runs-and-e2e-probes", entry, k.proto, k.method)})
		}
	}
	for _, m := range methodVals {
		r := req(kind{"tcp", m, "203.0.113.77"}, 1, 3, 33434, 3)
		if m == "sack" || m == "prefer_sack" {
			r.Hostname = "198.18.0.9"
			r.UseListenerPort = true
		}
		r.HTTP = true
		items = append(items, proto.RTItem{Scn: r, Class: fmt.Sprintf("http/tcp/method=%q", m)})
	}
	return items
}

func representable(sc *proto.RTScn) (bool, string) {
	if sc.MinTTL < 1 || sc.MaxTTL > 255 || sc.MinTTL > sc.MaxTTL {
		return false, "ttl-range"
	}
	switch sc.Protocol {
	case "udp", "tcp", "icmp":
	default:
		return false, "protocol"
	}
	if sc.Protocol == "tcp" {
		switch sc.Method {
		case "", "syn", "sack", "prefer_sack", "syn_socket":
		default:
			return false, "method"
		}
	}
	if sc.Protocol != "icmp" {
		// a port inside the hostname wins over the port parameter
		if i := strings.LastIndex(sc.Hostname, "]:"); i >= 0 || (strings.Count(sc.Hostname, ":") == 1) {
			ps := sc.Hostname[strings.LastIndex(sc.Hostname, ":")+1:]
			var p int
			if _, err := fmt.Sscan(ps, &p); err != nil || p < 1 || p > 65535 {
				return false, "port"
			}
		} else if sc.Port != 0 && (sc.Port < 1 || sc.Port > 65535) {
			return false, "port"
		}
	}
	return true, ""
}

func check(it *proto.RTItem, r *proto.RTResult) []proto.Issue {
	sc := &it.Scn
	ok, why := representable(sc)
	var out []proto.Issue
	probes := r.ProbesBySink()
	if r.Err != nil && !ok {
		// rejected: nothing may have been put on the wire on behalf of a request that cannot be executed as stated
		if len(probes) > 0 {
			return []proto.Issue{{Key: "probes-sent-for-rejected-request-" + why, Detail: fmt.Sprintf("%d runs emitted probes before the error %v", len(probes), r.Err)}}
		}
		return nil
	}
	if !ok {
		// accepted although not representable: say what was actually done
		desc := ""
		for sid, ps := range probes {
			var ttls []int
			for _, p := range ps {
				ttls = append(ttls, int(p.TTL))
			}
			desc += fmt.Sprintf("run%d probed TTLs %v to %s port %d; ", sid, ttls, ps[0].Dst, ps[0].DstPort)
		}
		return []proto.Issue{{Key: "accepted-unrepresentable-" + why, Detail: "the request was executed instead of rejected: " + desc}}
	}
	// executed: exactly as stated
	wantPort := sc.Port
	if wantPort == 0 {
		wantPort = 33434
	}
	if sc.UseListenerPort {
		wantPort = int(r.ListenPort)
	}
	if i := strings.LastIndex(sc.Hostname, ":"); i > 0 && (strings.Contains(sc.Hostname, "]:") || strings.Count(sc.Hostname, ":") == 1) {
		fmt.Sscan(sc.Hostname[i+1:], &wantPort)
	}
	host := strings.Trim(sc.Hostname, "[]")
	if ap, err := netip.ParseAddrPort(sc.Hostname); err == nil {
		host = ap.Addr().String()
	}
	wantAddr, _ := netip.ParseAddr(host)
	if len(probes) == 0 {
		if r.Err != nil {
			return nil // rejected before anything was sent
		}
		return []proto.Issue{{Key: "success-without-probes", Detail: r.Summary()}}
	}
	// end-to-end probes are runs of a single probe at the last TTL: up to E2e such runs are judged as probes, the others as
	// the regular runs the request asked for (which start at the first TTL)
	e2eLeft, nE2e, nRuns := sc.E2e, 0, 0
	var sids []int
	for sid := range probes {
		sids = append(sids, sid)
	}
	sort.Ints(sids)
	for _, sid := range sids {
		ps := probes[sid]
		isE2e := e2eLeft > 0 && len(ps) == 1 && int(ps[0].TTL) == sc.MaxTTL && sc.MinTTL != sc.MaxTTL
		if isE2e {
			e2eLeft--
			nE2e++
		} else {
			nRuns++
		}
		for k, p := range ps {
			if !isE2e && int(p.TTL) != sc.MinTTL+k {
				out = append(out, proto.Issue{Key: "ttl-range-not-honoured", Detail: fmt.Sprintf("run %d: probe #%d has TTL %d, requested range %d..%d", sid, k, p.TTL, sc.MinTTL, sc.MaxTTL)})
				break
			}
			if p.Dst != wantAddr {
				out = append(out, proto.Issue{Key: "wrong-address", Detail: fmt.Sprintf("probe to %s, requested %s", p.Dst, wantAddr)})
				break
			}
			var kindOK bool
			switch sc.Protocol {
			case "udp":
				kindOK = p.Proto == refcodec.ProtoUDP
			case "icmp":
				kindOK = p.Proto == refcodec.ProtoICMP || p.Proto == refcodec.ProtoICMPv6
			case "tcp":
				kindOK = p.Proto == refcodec.ProtoTCP
			}
			if !kindOK {
				out = append(out, proto.Issue{Key: "wrong-protocol", Detail: fmt.Sprintf("probe protocol %d for %q", p.Proto, sc.Protocol)})
				break
			}
			if sc.Protocol != "icmp" && int(p.DstPort) != wantPort {
				out = append(out, proto.Issue{Key: "wrong-port", Detail: fmt.Sprintf("probe to port %d, requested %d", p.DstPort, wantPort)})
				break
			}
			if sc.Protocol == "tcp" {
				syn := p.Flags&refcodec.SYN != 0
				m := sc.Method
				if isE2e {
					m = "syn" // end-to-end probes are always SYN probes
				}
				switch m {
				case "", "syn":
					if !syn {
						out = append(out, proto.Issue{Key: "wrong-method", Detail: "non-SYN probe with method syn"})
					}
				case "sack":
					if syn {
						out = append(out, proto.Issue{Key: "wrong-method", Detail: "SYN probe with method sack"})
					}
				}
			}
		}
		if isE2e {
			continue
		}
		last := sc.MinTTL + len(ps) - 1
		if last > sc.MaxTTL {
			out = append(out, proto.Issue{Key: "ttl-range-exceeded", Detail: fmt.Sprintf("run %d sent %d probes for the range %d..%d", sid, len(ps), sc.MinTTL, sc.MaxTTL)})
		} else if last != sc.MaxTTL && r.Err == nil {
			// the sender may stop early only because the destination answered (one probe in flight allowed)
			// (as many probes are in flight as send intervals fit into the scripted latency of the first destination answer, plus one)
			fd := max(sc.Dest, sc.MinTTL)
			stopOK := sc.Dest > 0 && last >= sc.Dest && last <= fd+proto.DefaultDelayUs(fd)/(sc.DelayMs*1000)+1
			if !stopOK {
				out = append(out, proto.Issue{Key: "ttl-range-not-covered", Detail: fmt.Sprintf("run %d probed TTLs %d..%d, requested %d..%d (destination answers from TTL %d)", sid, sc.MinTTL, last, sc.MinTTL, sc.MaxTTL, sc.Dest)})
			}
		}
	}
	if r.Err == nil && sc.MinTTL != sc.MaxTTL && (sc.Queries > 0 || sc.E2e > 0) && sc.E2e > 0 {
		if nRuns != sc.Queries || nE2e != sc.E2e {
			out = append(out, proto.Issue{Key: "runs-and-probes-not-as-requested", Detail: fmt.Sprintf("%d runs starting at the first TTL and %d single probes at the last TTL on the wire; requested %d and %d", nRuns, nE2e, sc.Queries, sc.E2e)})
		}
	}
	return out
}

var F = &proto.RTFamily{ID: "C19", Gen: gen, SecondEvery: 3}

func init() {
	F.Check = check
	F.Register("model_checking",
		"item = a parameter set from the grid: all pairs of TTL bounds from {-1,0,1,2,30,254..258,300,511,65536,65537} x {udp, icmp, tcp-syn, tcp-sack (, IPv6 udp/icmp)} x {destination answers from TTL 3, silent}; ports {-1,0,1,65535,65536,70000}; protocol x method strings; target literal forms (IPv4, IPv6, bracketed, with port, bad ports); the same through the HTTP handler (max-ttl, port, tcp-method); "+
			"each executed through RunTraceroute / TracerouteHandler over the simulated wire; oracle: no crash or hang; not representable => error; accepted => the probed TTLs are exactly first..last (or stop right after the destination answered), every probe goes to the requested address, port (33434 when 0) and protocol/method; distinct = distinct (error?, hop lists)",
		[]string{"ICMP has no port on the wire: a port value is neither checked nor required there (DESIGN.md §6.7)", "an upper-case or empty protocol string may be rejected or executed; only acceptance of something not executable as stated is a violation"})
}
