// Package core is the shared worker/master plumbing of the property harnesses:
// scenario sharding, statistics, finding keys, replay files, evidence.
package core

import (
	"crypto/sha1"
	"encoding/hex"
	"encoding/json"
	"fmt"
	"sort"
	"strings"

	"verif/vsched"
)

// Failure is one oracle failure, reduced to a finding key (DESIGN.md Appendix D).
type Failure struct {
	Key      string          `json:"key"`
	What     string          `json:"what"`
	Scenario json.RawMessage `json:"scenario"`
	Choices  []int           `json:"choices"`
	Bound    int             `json:"bound"`
	Detail   string          `json:"detail,omitempty"`
}

// ScnResult is what a worker reports for one scenario.
type ScnResult struct {
	Index      int              `json:"i"`
	Stats      vsched.Stats     `json:"stats"`
	Outcomes   map[string]int64 `json:"outcomes,omitempty"` // canonical outcome hash -> executions
	Branches   map[string]int64 `json:"branches,omitempty"` // oracle branches taken
	Nontrivial bool             `json:"nontrivial"`
	Failures   []Failure        `json:"failures,omitempty"`
	Sample     json.RawMessage  `json:"sample,omitempty"`
	Infra      string           `json:"infra,omitempty"` // infrastructure problem (not a verdict)
	DetChecked int64            `json:"det_checked,omitempty"`
	DetEqual   int64            `json:"det_equal,omitempty"`
	Evals      int64            `json:"evals,omitempty"` // for pure enumerators: cases evaluated
}

func (r *ScnResult) Outcome(h string) {
	if r.Outcomes == nil {
		r.Outcomes = map[string]int64{}
	}
	r.Outcomes[h]++
}

func (r *ScnResult) Branch(b string) {
	if r.Branches == nil {
		r.Branches = map[string]int64{}
	}
	r.Branches[b]++
}

// Fail records a failure once per key per scenario.
func (r *ScnResult) Fail(f Failure) {
	for _, e := range r.Failures {
		if e.Key == f.Key {
			return
		}
	}
	r.Failures = append(r.Failures, f)
}

// Property is what each props/cNN package registers.
type Property struct {
	ID    string
	Level string // evidence level
	Rule  string // how cases are enumerated / what makes one non-trivial
	// Count returns the number of scenarios of the tier.
	Count func(tier string) int
	// Run explores scenario idx exhaustively within the tier's bounds.
	Run func(tier string, idx int, r *ScnResult)
	// Replay re-executes one scenario + choice list verbosely; returns a description and whether the oracle passed.
	Replay func(scn json.RawMessage, choices []int) (string, bool)
	// Assumptions are copied into the evidence.
	Assumptions []string
	// Exhaustive reports whether the tier enumerates its finite space completely (when no cap is hit).
	Exhaustive bool
	// NeedsNetns: run workers inside a private network namespace.
	NeedsNetns bool
	// Race: must be built with -race.
	Race bool
	// MaxJobs limits the number of workers (0 = no limit).
	MaxJobs int
}

var registry = map[string]*Property{}

func Register(p *Property)       { registry[p.ID] = p }
func Lookup(id string) *Property { return registry[id] }
func IDs() []string {
	var ids []string
	for k := range registry {
		ids = append(ids, k)
	}
	sort.Strings(ids)
	return ids
}

func Hash(parts ...any) string {
	h := sha1.New()
	for _, p := range parts {
		fmt.Fprintf(h, "%v|", p)
	}
	return hex.EncodeToString(h.Sum(nil))[:12]
}

func JSON(v any) json.RawMessage {
	b, err := json.Marshal(v)
	if err != nil {
		panic(err)
	}
	return b
}

// HasClockDeviation reports whether the execution took an "advance the clock" option.
func HasClockDeviation(x *vsched.Exec) bool {
	for _, p := range x.Points {
		if p.Kind == vsched.KindSched && p.HasAdv && p.Chosen == p.N-1 {
			return true
		}
	}
	return false
}

func KeySafe(s string) string {
	r := strings.NewReplacer("/", "_", " ", "_", ":", "_", "|", "_", "*", "x", "(", "", ")", "", "<", "", ">", "", "\"", "", ",", "_", "[", "", "]", "")
	return r.Replace(s)
}
