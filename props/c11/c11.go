// Package c11: concurrent traceroutes are isolated; identifier ranges never overlap.
package c11

import (
	"encoding/json"
	"fmt"
	"net/netip"
	"sort"
	"sync"

	"github.com/DataDog/datadog-traceroute/icmp"
	"github.com/DataDog/datadog-traceroute/packets"

	"verif/props/core"
	"verif/props/proto"
	"verif/refcodec"
	"verif/simnet"
	"verif/vsched"
)

func scn(v string, flow int, target string, dest int) proto.Scn {
	return proto.Scn{Variant: v, First: 1, Last: 4, Dest: dest, Flow: flow, TargetOverride: target, TimeoutMs: 300, DelayMs: 10}
}

type set struct {
	name string
	scns []proto.Scn
}

func sets() []set {
	var out []set
	t2 := "203.0.113.78"
	t26 := "2001:db8::78"
	pair := func(name, v string, other string) {
		a, b := scn(v, 0, "", 3), scn(v, 1, other, 3)
		b.Dest = 2 // the second path is shorter: cross-talk changes its shape
		where := "same-target"
		if other != "" {
			where = "different-targets"
		}
		out = append(out, set{name + "/" + where, []proto.Scn{a, b}})
	}
	for _, v := range []string{"icmp4", "udp4", "syn", "synparis"} {
		pair(v+"+"+v, v, "")
		pair(v+"+"+v, v, t2)
	}
	for _, v := range []string{"icmp6", "udp6"} {
		pair(v+"+"+v, v, "")
		pair(v+"+"+v, v, t26)
	}
	// sack||sack: two connections to the same listener, and to two listeners
	{
		a, b := scn("sackstrict", 0, "", 3), scn("sackstrict", 1, "", 2)
		out = append(out, set{"sack+sack/different-ports", []proto.Scn{a, b}})
		a2, b2 := scn("sackstrict", 0, "", 3), scn("sackstrict", 1, "", 2)
		b2.ShareListener = 1
		out = append(out, set{"sack+sack/same-target", []proto.Scn{a2, b2}})
		a3, b3 := scn("sack", 0, "", 3), scn("sack", 1, "", 2)
		out = append(out, set{"sack-relaxed+sack-relaxed/different-ports", []proto.Scn{a3, b3}})
	}
	// the same with capture filtering off (it is only an optimisation, a no-op on some platforms)
	for _, v := range []string{"syn", "synparis", "sackstrict"} {
		a, b := scn(v, 0, "", 3), scn(v, 1, "", 2)
		a.FiltersOff, b.FiltersOff = true, true
		if v == "sackstrict" {
			b.ShareListener = 1
		}
		out = append(out, set{v + "+" + v + "/same-target/filters-off", []proto.Scn{a, b}})
		if v != "sackstrict" {
			// the target port is closed: it answers with a bare RST, which carries no acknowledgement number to tell the runs apart
			a2, b2 := scn(v, 0, "", 3), scn(v, 1, "", 2)
			a2.FiltersOff, b2.FiltersOff = true, true
			a2.Hops = map[int]proto.HopSpec{3: {Form: "rst"}, 4: {Form: "rst"}}
			b2.Hops = map[int]proto.HopSpec{2: {Form: "rst"}, 3: {Form: "rst"}, 4: {Form: "rst"}}
			out = append(out, set{v + "+" + v + "/same-target/filters-off/closed-port", []proto.Scn{a2, b2}})
		}
	}
	// runs with different first TTLs (as the end-to-end probes of a request have), the one with the larger first TTL allocating first
	{
		a, b := scn("syn", 0, "", 3), scn("syn", 1, "", 3)
		a.First, a.Last = 4, 4
		out = append(out, set{"syn(4..4)+syn(1..4)/same-target", []proto.Scn{a, b}})
		a2, b2, c2 := scn("syn", 0, "", 3), scn("syn", 1, "", 3), scn("syn", 2, "", 3)
		a2.First, a2.Last = 3, 4
		b2.First, b2.Last = 2, 4
		out = append(out, set{"syn(3..4)+syn(2..4)+syn(1..4)/same-target", []proto.Scn{a2, b2, c2}})
	}
	// the other run's replies arrive with a short quote (the router quoted the IP header and 0..3 transport bytes): useless
	// to the run they answer, and certainly to the neighbour, which has just decoded an ordinary reply of its own
	for _, v := range []string{"udp4", "udp6", "syn"} {
		for _, cut := range []int{0, 2} {
			a, b := scn(v, 0, "", 4), scn(v, 1, "", 4)
			ql := 20
			if proto.Info(v).V6 {
				ql = 40
			}
			outer := map[bool]int{false: 20 + 8, true: 40 + 8}[proto.Info(v).V6]
			a.Hops = map[int]proto.HopSpec{2: {Truncate: outer + ql + cut, DelayUs: 30000}, 3: {Truncate: outer + ql + cut, DelayUs: 30000}}
			b.Hops = map[int]proto.HopSpec{2: {Silent: true}, 3: {Silent: true}}
			out = append(out, set{fmt.Sprintf("%s+%s/same-target/neighbours-replies-with-short-quote-%d", v, v, cut), []proto.Scn{a, b}})
		}
	}
	// protocol mixes
	out = append(out, set{"icmp4+udp4+syn/same-target", []proto.Scn{scn("icmp4", 0, "", 3), scn("udp4", 1, "", 2), scn("syn", 2, "", 4)}})
	out = append(out, set{"udp4+udp4+udp4/same-target", []proto.Scn{scn("udp4", 0, "", 3), scn("udp4", 1, "", 2), scn("udp4", 2, "", 4)}})
	out = append(out, set{"icmp4+icmp4+icmp4/same-target", []proto.Scn{scn("icmp4", 0, "", 3), scn("icmp4", 1, "", 2), scn("icmp4", 2, "", 4)}})
	out = append(out, set{"syn+sack/same-address", []proto.Scn{scn("syn", 0, "198.18.0.9", 3), scn("sackstrict", 1, "", 2)}})
	return out
}

func gen(tier string) []proto.Item {
	var items []proto.Item
	type base struct {
		name       string
		ipid, echo uint32
	}
	bases := []base{{"plain", 3000, 300}, {"wrap", 65533, 65534}}
	if tier == "thorough" {
		bases = append(bases, base{"wrap-1", 65535, 65535}, base{"zero", 0, 0})
	}
	for _, s := range sets() {
		for _, b := range bases {
			it := proto.Item{Scn: s.scns[0], Class: s.name + "/base-" + b.name}
			it.Scn.IPIDBase, it.Scn.EchoBase = b.ipid, b.echo
			it.Also = append([]proto.Scn{}, s.scns[1:]...)
			items = append(items, it)
		}
	}
	// whatever random numbers the process draws while the runs are set up (every triple over {0..3} for the first three
	// draws): the identifiers of runs that are alive together stay distinct, each run's hops stay its solo hops
	for _, st := range sets() {
		if st.name != "icmp4+icmp4+icmp4/same-target" {
			continue
		}
		for code := 0; code < 64; code++ {
			it := proto.Item{Scn: st.scns[0], Class: fmt.Sprintf("%s/base-plain/random-draws-%d-%d-%d", st.name, code%4, code/4%4, code/16)}
			it.Scn.IPIDBase, it.Scn.EchoBase = 3000, 300
			it.Scn.Rand = []uint32{uint32(code % 4), uint32(code / 4 % 4), uint32(code / 16)}
			it.Also = append([]proto.Scn{}, st.scns[1:]...)
			items = append(items, it)
		}
	}
	return items
}

var (
	mu   sync.Mutex
	solo = map[string]string{}
)

func soloHops(sc *proto.Scn) string {
	k, _ := json.Marshal(sc)
	mu.Lock()
	defer mu.Unlock()
	if v, ok := solo[string(k)]; ok {
		return v
	}
	s := *sc
	s.ShareListener = 0
	r := F.RunPlain(&proto.Item{Scn: s})
	v := "error: " + fmt.Sprint(r.Obs[0].Err)
	if r.Obs[0].Err == nil {
		v = proto.HopsKey(proto.Hops(r.Obs[0].Run))
	}
	solo[string(k)] = v
	return v
}

func check(it *proto.Item, r *proto.Result) []proto.Issue {
	var out []proto.Issue
	all := append([]proto.Scn{it.Scn}, it.Also...)
	for i := range all {
		sc := all[i]
		sc.IPIDBase, sc.EchoBase = it.Scn.IPIDBase, it.Scn.EchoBase
		want := soloHops(&sc)
		o := r.Obs[i]
		got := "error: " + fmt.Sprint(o.Err)
		if o.Err == nil {
			got = proto.HopsKey(proto.Hops(o.Run))
		}
		if got != want {
			out = append(out, proto.Issue{Key: "run-differs-from-solo", Detail: fmt.Sprintf("run %d (%s, flow %d): concurrent: %s ; alone: %s", i, sc.Variant, sc.Flow, got, want)})
		}
	}
	if is := ipidOverlap(r.Net); is != nil {
		out = append(out, *is)
	}
	// the kernel hands concurrent runs disjoint source ports only while each run keeps its port reserved
	for _, s := range r.Net.Sinks {
		if len(s.PortNotHeld) > 0 {
			out = append(out, proto.Issue{Key: "flow-identifier-not-reserved", Detail: fmt.Sprintf("a run sent probes from source ports no socket owned at that moment (proto:port %v): a concurrent run can be handed the same flow", s.PortNotHeld)})
			break
		}
	}
	return out
}

var F = &proto.Family{ID: "C11", Gen: gen, Bound: func(tier string) int {
	if tier == "thorough" {
		return 2
	}
	return 1
}}

// ---- the 3 runs + 2 end-to-end probes of one request ------------------------------------------------------

func genRT(tier string) []proto.RTItem {
	var items []proto.RTItem
	for _, pr := range []struct{ p, m, h string }{{"udp", "", "203.0.113.77"}, {"icmp", "", "203.0.113.77"}, {"tcp", "syn", "203.0.113.77"}, {"tcp", "sack", "198.18.0.9"}, {"udp", "", "2001:db8::77"}} {
		for _, b := range []struct{ ipid, echo uint32 }{{3000, 300}, {65533, 65533}} {
			r := proto.RTScn{Hostname: pr.h, Protocol: pr.p, Method: pr.m, MinTTL: 1, MaxTTL: 5, DelayMs: 10, TimeoutMs: 300, Queries: 3, E2e: 2, Dest: 3, IPIDBase: b.ipid, EchoBase: b.echo,
				UseListenerPort: pr.m == "sack", WantV6: pr.h == "2001:db8::77"}
			items = append(items, proto.RTItem{Scn: r, Class: fmt.Sprintf("one-request/%s-%s/ipid-base-%d", pr.p, pr.m, b.ipid)})
		}
	}
	// a SACK request whose own SYN-ACK is slow: the SYN-ACKs answering its end-to-end SYN probes are captured first
	for _, m := range []string{"sack", "prefer_sack"} {
		r := proto.RTScn{Hostname: "198.18.0.9", Protocol: "tcp", Method: m, MinTTL: 1, MaxTTL: 5, DelayMs: 10, TimeoutMs: 300, Queries: 1, E2e: 2, Dest: 3, IPIDBase: 3000, EchoBase: 300,
			UseListenerPort: true, Capability: "slow-synack"}
		items = append(items, proto.RTItem{Scn: r, Class: fmt.Sprintf("one-request/tcp-%s/slow-synack-behind-the-probes-synacks", m)})
	}
	return items
}

func checkRT(it *proto.RTItem, r *proto.RTResult) []proto.Issue {
	if r.Err != nil {
		return []proto.Issue{{Key: "run-error", Detail: r.Err.Error()}}
	}
	var out []proto.Issue
	if is := ipidOverlap(r.Net); is != nil {
		out = append(out, *is)
	}
	if len(r.Res.Traceroute.Runs) != it.Scn.Queries {
		return []proto.Issue{{Key: "run-count", Detail: r.Summary()}}
	}
	target, _ := netip.ParseAddr(it.Scn.Hostname)
	for ri := range r.Res.Traceroute.Runs {
		hops := proto.Hops(&r.Res.Traceroute.Runs[ri])
		if len(hops) != it.Scn.Dest {
			out = append(out, proto.Issue{Key: "run-differs-from-solo", Detail: fmt.Sprintf("run %d has %d hops, the path has %d: %s", ri, len(hops), it.Scn.Dest, proto.HopsString(hops))})
			continue
		}
		flow := -1
		for i, h := range hops {
			if i == len(hops)-1 {
				if h.Addr != target || !h.Dest {
					out = append(out, proto.Issue{Key: "run-differs-from-solo", Detail: "last hop is not the destination: " + proto.HopsString(hops)})
				}
				continue
			}
			if !h.Addr.IsValid() {
				out = append(out, proto.Issue{Key: "run-differs-from-solo", Detail: "empty hop: " + proto.HopsString(hops)})
				continue
			}
			f := flowOf(h.Addr)
			if flow >= 0 && f != flow {
				out = append(out, proto.Issue{Key: "foreign-reply-in-hops", Detail: fmt.Sprintf("run %d mixes replies to different runs' probes: %s", ri, proto.HopsString(hops))})
			}
			flow = f
			if h.Addr != proto.Router(target.Is6(), f, h.TTL) {
				out = append(out, proto.Issue{Key: "foreign-reply-in-hops", Detail: fmt.Sprintf("run %d hop %d: %s", ri, h.TTL, proto.HopsString(hops))})
			}
		}
	}
	return out
}

// ipidOverlap: the IP-IDs concurrent TCP SYN runs in default mode put on the wire come from the process-wide allocator's
// blocks and must be pairwise disjoint between runs.
func ipidOverlap(n *simnet.Net) *proto.Issue {
	owner := map[uint16]int{}
	for _, e := range n.Ledger {
		if e.Dir != "tx" || e.P == nil || e.P.Proto != refcodec.ProtoTCP || e.P.Flags&refcodec.SYN == 0 || e.P.IPID == 41821 {
			continue
		}
		if o, ok := owner[e.P.IPID]; ok && o != e.Sink {
			return &proto.Issue{Key: "ip-id-blocks-overlap", Detail: fmt.Sprintf("IP-ID %d was used by run %d (ttl %d) and by run %d", e.P.IPID, e.Sink, e.P.TTL, o)}
		}
		owner[e.P.IPID] = e.Sink
	}
	return nil
}

func flowOf(a netip.Addr) int {
	if a.Is4() {
		return int(a.As4()[1]) - 64
	}
	return int(a.As16()[5]) - 0x10
}

var FR = &proto.RTFamily{ID: "C11", Gen: genRT, Bound: func(string) int { return 1 }}

// ---- allocators under concurrent callers --------------------------------------------------------------------

type AScn struct {
	What    string `json:"what"` // packet-id | echo-id
	Base    uint32 `json:"base"`
	Callers []int  `json:"callers"` // maxTTL per caller (packet-id)
	Bound   int    `json:"bound"`
}

func runAlloc(sc *AScn, prefix []int, sig []uint32) (*vsched.Exec, [][2]int) {
	var got [][2]int
	if sc.What == "packet-id" {
		packets.VerifSetPacketIDBase(sc.Base)
	} else {
		icmp.VerifSetEchoIDBase(sc.Base)
	}
	x := vsched.Run(vsched.Config{Prefix: prefix, PrefixSig: sig}, nil, func() {
		res := make([][2]int, len(sc.Callers))
		done := 0
		for i, m := range sc.Callers {
			i, m := i, m
			vsched.Go(func() {
				if sc.What == "packet-id" {
					res[i] = [2]int{int(packets.AllocPacketID(uint8(m))), m}
				} else {
					res[i] = [2]int{int(icmp.VerifNextEchoID()), 1}
				}
				done++
			})
		}
		vsched.Block(waitN{&done, len(sc.Callers)}, -1, "join")
		got = res
	})
	return x, got
}

type waitN struct {
	p *int
	n int
}

func (w waitN) Ready() bool { return *w.p >= w.n }

func checkAlloc(sc *AScn, x *vsched.Exec, got [][2]int) (string, string) {
	if x.Outcome != vsched.Normal {
		return "abnormal-outcome", x.Outcome.String()
	}
	used := map[int]int{}
	for i, g := range got {
		for k := 0; k < g[1]; k++ {
			id := (g[0] + k) & 0xffff
			if j, dup := used[id]; dup {
				return "ranges-overlap", fmt.Sprintf("callers %d and %d both own identifier %d (ranges %v)", j, i, id, got)
			}
			used[id] = i
		}
	}
	return "", ""
}

func allocItems(tier string) []AScn {
	var out []AScn
	b := 2
	if tier == "thorough" {
		b = 3
	}
	for _, base := range []uint32{0, 41821, 65535 - 3, 65535 - 40, 65535, 0xffffffff - 5} {
		out = append(out, AScn{"packet-id", base, []int{30, 30}, b}, AScn{"packet-id", base, []int{30, 255, 1}, b}, AScn{"packet-id", base, []int{255, 255, 255}, b})
	}
	for _, base := range []uint32{0, 7, 65533, 65534, 65535, 0xfffffffe, 0xffffffff} {
		out = append(out, AScn{"echo-id", base, []int{1, 1}, b}, AScn{"echo-id", base, []int{1, 1, 1}, b})
	}
	return out
}

func init() {
	F.Check = check
	FR.Check = checkRT
	count := func(tier string) int { return len(allocItems(tier)) + F.Count(tier) + FR.Count(tier) }
	run := func(tier string, idx int, r *core.ScnResult) {
		as := allocItems(tier)
		if idx < len(as) {
			sc := &as[idx]
			r.Nontrivial = true
			var got [][2]int
			e := &vsched.Explorer{Bound: sc.Bound}
			e.RunOne = func(prefix []int, sig []uint32) *vsched.Exec {
				var x *vsched.Exec
				x, got = runAlloc(sc, prefix, sig)
				return x
			}
			e.Check = func(x *vsched.Exec, cost int) bool {
				if x.Outcome == vsched.Diverged {
					r.Infra = "replay diverged"
					return false
				}
				k, d := checkAlloc(sc, x, got)
				if k != "" {
					r.Fail(core.Failure{Key: "C11 allocator/" + sc.What + "/" + k, What: d, Scenario: core.JSON(map[string]any{"alloc": sc}), Choices: x.Choices(), Bound: cost})
					return false
				}
				var starts []int
				for _, g := range got {
					starts = append(starts, g[0])
				}
				sort.Ints(starts)
				r.Outcome(core.Hash(sc.What, starts))
				return true
			}
			e.Explore()
			r.Stats = e.Stats
			if idx%7 == 0 {
				r.Sample = core.JSON(sc)
			}
			return
		}
		idx -= len(as)
		if idx < F.Count(tier) {
			F.Run(tier, idx, r)
			return
		}
		FR.Run(tier, idx-F.Count(tier), r)
	}
	replay := func(scn json.RawMessage, choices []int) (string, bool) {
		var w struct {
			A  *AScn           `json:"alloc"`
			RT json.RawMessage `json:"rt"`
		}
		json.Unmarshal(scn, &w)
		if w.A != nil {
			x, got := runAlloc(w.A, choices, nil)
			k, d := checkAlloc(w.A, x, got)
			if k != "" {
				return fmt.Sprintf("allocator %s choices %v -> %v\nORACLE FAILED: %s: %s\n", scn, choices, got, k, d), false
			}
			return "oracle: ok\n", true
		}
		if w.RT != nil {
			return FR.Replay(scn, choices)
		}
		return F.Replay(scn, choices)
	}
	core.Register(&core.Property{ID: "C11", Level: "model_checking",
		Rule: "run sets {icmp||icmp, udp||udp, syn||syn (default and Paris), sack||sack (same listener / two listeners), icmp||udp||syn, udp x3, icmp x3, syn||sack to one address; IPv4 and IPv6; same and different targets} on one wire where every capture handle sees every packet and the router address encodes the flow, allocator bases plain and at wrap-around, explored over all schedules within the delay bound (quick 1, thorough 2); " +
			"the 3 runs + 2 end-to-end probes of one RunTraceroute request per protocol; the IP-ID and echo-id allocators called by 2-3 threads under every interleaving within the preemption bound with bases around 2^16 and 2^32; " +
			"oracle: each run's hops equal the hops the same scenario produces alone (differential), every hop of a run answers that run's own probes, allocated ranges pairwise disjoint mod 2^16; distinct = distinct hop-list tuples / allocation outcomes",
		Count: count, Run: run, Replay: replay, Exhaustive: true, NeedsNetns: true,
		Assumptions: []string{"two relaxed-source runs to the same target and port are excluded: they cannot be told apart by construction of 'relaxed' (DESIGN.md §6.5)",
			"multi-run sets use delay-bounded scheduling (every non-default scheduling choice costs one deviation): free reordering of >=4 simultaneously blocked threads is exponential"}})
}
