// Package c09: malformed or hostile inbound bytes never crash or abort a run;
// they are skipped and the run's result equals the noise-free run's.
package c09

import (
	"encoding/json"
	"fmt"
	"sync"

	"verif/props/proto"
	"verif/simnet"
)

func base(v string, alone bool) proto.Scn {
	s := proto.Scn{Variant: v, First: 1, Last: 4, Dest: 3, IPIDBase: 900, EchoBase: 91, TimeoutMs: 300, DelayMs: 10}
	if alone {
		s.Dest = 0
		s.Hops = map[int]proto.HopSpec{1: {Silent: true}, 2: {Silent: true}, 3: {Silent: true}, 4: {Silent: true}}
	}
	return s
}

func forms(vi proto.VInfo) []string {
	var fs []string
	if vi.V6 {
		fs = []string{"teFull", "duPort", "echo"}
	} else {
		fs = []string{"te28", "teFull", "teExt", "teOpts6", "duPort", "echo"}
	}
	switch vi.Kind {
	case "tcp", "tcpparis":
		fs = append(fs, "synack", "rst")
	case "sack":
		fs = append(fs, "sack3", "sackTS", "synack")
	}
	return fs
}

func gen(tier string) []proto.Item {
	var items []proto.Item
	kinds := proto.NoiseKinds
	for _, v := range proto.Variants {
		vi := proto.Info(v)
		for _, form := range forms(vi) {
			for _, kind := range kinds {
				for _, flow := range []string{"foreign-flow", "own-flow"} {
					if flow == "own-flow" {
						// a mutated packet on the run's own flow may still be a valid (duplicate) reply: it is delivered after the
						// genuine reply of its TTL, which leaves the parallel engines' result unchanged; the serial engine is
						// excluded (a duplicate ends its current window), as is the SACK exception (own-flow ACK without SACK blocks)
						if !vi.Parallel {
							continue
						}
						if vi.Kind == "sack" && (form == "sack3" || form == "sackTS" || form == "synack") && !(kind == "sack-opt-len" && form != "synack") {
							continue // (sack-opt-len keeps every complete block: the packet is still an acknowledgement WITH blocks)
						}
						if form == "synack" || form == "rst" {
							continue
						}
					}
					for _, mode := range []string{"interleaved", "alone"} {
						if mode == "alone" && flow == "own-flow" {
							continue
						}
						for _, pos := range []string{"start", "mid", "after-destination"} {
							if tier != "thorough" && pos == "after-destination" && mode == "alone" {
								continue
							}
							s := base(v, mode == "alone")
							in := proto.Inject{Form: form, Tag: "noise", NoiseKind: kind, NoiseArg: -1}
							direct := !simnet.IsICMPError(form)
							switch pos {
							case "start":
								in.OnTTL, in.AnswerTTL, in.DelayUs = 1, 1, 0
							case "mid":
								in.OnTTL, in.AnswerTTL, in.DelayUs = 2, 2, 2000
							case "after-destination":
								in.OnTTL, in.AnswerTTL, in.DelayUs = 3, 3, proto.DefaultDelayUs(3)+5000
							}
							if flow == "foreign-flow" {
								in.From = proto.Evil(vi.V6).String()
								if direct {
									in.From = s.Target().String()
									in.Rewrite = []simnet.Perturb{{Field: "outer.src", Op: "+1"}}
								} else {
									in.Rewrite = []simnet.Perturb{{Field: "q.dst", Op: "+1"}}
								}
							} else {
								// own flow: from the genuine responder of that TTL, after its genuine reply
								if direct {
									in.OnTTL, in.AnswerTTL = 3, 3
									in.From = s.Target().String()
									in.DelayUs = proto.DefaultDelayUs(3) + 3000
								} else {
									in.From = proto.Router(vi.V6, 0, in.AnswerTTL).String()
									if in.AnswerTTL == 3 {
										in.From = s.Target().String()
									}
									in.DelayUs = proto.DefaultDelayUs(in.AnswerTTL) + 3000
								}
							}
							s.Inject = []proto.Inject{in}
							items = append(items, proto.Item{Scn: s, Class: fmt.Sprintf("%s/%s/%s/%s/%s/%s", v, form, kind, flow, mode, pos)})
							if kind == "oversize" {
								// the same over a capture source that hands over IP packets directly: the read fills the whole buffer
								s2 := s
								s2.DirectIP = true
								items = append(items, proto.Item{Scn: s2, Class: fmt.Sprintf("%s/%s/%s/%s/%s/%s/source-hands-over-ip-packets", v, form, kind, flow, mode, pos)})
							}
						}
					}
				}
			}
		}
		// the genuine reply of a hop is lost and what arrives instead is the same reply with another IP version nibble (every
		// value that is neither 4 nor 6): not an IP packet of a family the tool speaks - the hop stays empty
		if vi.Parallel {
			for _, pos := range []int{2, 3} {
				for a := 0; a < 16; a++ {
					if a == 4 || a == 6 {
						continue
					}
					s := base(v, false)
					form := vi.TEForm
					from := proto.Router(vi.V6, 0, pos).String()
					if pos == 3 {
						form, from = vi.DestForm, s.Target().String()
					}
					s.Hops = map[int]proto.HopSpec{pos: {LostReply: true}}
					s.Inject = []proto.Inject{{OnTTL: pos, AnswerTTL: pos, Form: form, From: from, DelayUs: proto.DefaultDelayUs(pos), Tag: "noise", NoiseKind: "version", NoiseArg: a}}
					items = append(items, proto.Item{Scn: s, Class: fmt.Sprintf("%s/%s/version/own-flow/instead-of-the-lost-genuine-reply/ttl%d", v, form, pos)})
				}
			}
		}
		// structure-aware mutations: valid headers whose identifying fields carry hostile values (own flow), delivered
		// after the genuine reply of their TTL; +-1 is left out because it yields a neighbouring probe's identifier
		for _, g := range []struct {
			ttl  int
			form string
		}{{1, vi.TEForm}, {3, vi.DestForm}} {
			for _, field := range simnet.Fields(vi.Kind, g.form) {
				for _, op := range []string{"+256", "-256", "swap", "zero", "other", "+1"} {
					if vi.Relaxed && (field == "q.src" || field == "q.sport") {
						continue
					}
					if op == "+1" && !vi.Parallel {
						// +1 on a per-probe identifier names the next probe, which is not yet sent when the packet arrives (or never
						// sent, after the destination answered): the parallel engines read it at once and must skip it; the serial
						// engine reads it before that probe is sent only if it arrives BEFORE the genuine reply of its TTL
						if g.ttl == 1 {
							s := base(v, false)
							s.Inject = []proto.Inject{{OnTTL: g.ttl, AnswerTTL: g.ttl, Form: g.form, From: proto.Router(vi.V6, 0, g.ttl).String(), DelayUs: 1000, Tag: "noise",
								Perturb: &simnet.Perturb{Field: field, Op: op}}}
							items = append(items, proto.Item{Scn: s, Class: fmt.Sprintf("%s/%s/field-%s/%s/own-flow/interleaved/before-genuine", v, g.form, field, op)})
						}
						continue
					}
					s := base(v, false)
					from := proto.Router(vi.V6, 0, g.ttl).String()
					if g.ttl == 3 {
						from = s.Target().String()
					}
					other := uint32(0x1234)
					if field == "q.seq" || field == "tcp.ack" || field == "sack.left" {
						other = 0x12345678
					}
					s.Inject = []proto.Inject{{OnTTL: g.ttl, AnswerTTL: g.ttl, Form: g.form, From: from, DelayUs: proto.DefaultDelayUs(g.ttl) + 4000, Tag: "noise",
						Perturb: &simnet.Perturb{Field: field, Op: op, Other: other}}}
					items = append(items, proto.Item{Scn: s, Class: fmt.Sprintf("%s/%s/field-%s/%s/own-flow/interleaved/after-genuine", v, g.form, field, op)})
				}
			}
		}
		// SACK: an acknowledgement from the target's address AND port to this host but to ANOTHER local port (a neighbouring
		// connection to the same service), with and without blocks, where the capture handle is not filtered by port: it is
		// not on the probed connection, so it is not "the target acknowledging without blocks" either
		if vi.Kind == "sack" {
			for _, form := range []string{"plainack", "sack1"} {
				for _, t := range []int{1, 2, 3} {
					s := base(v, false)
					s.FiltersOff = true
					s.Inject = []proto.Inject{{OnTTL: t, AnswerTTL: t, Form: form, From: s.Target().String(), DelayUs: 1500, Tag: "noise", Rewrite: []simnet.Perturb{{Field: "tcp.dport", Op: "+1"}}}}
					items = append(items, proto.Item{Scn: s, Class: fmt.Sprintf("%s/%s/neighbouring-connections-segment/foreign-flow/interleaved/ttl%d", v, form, t)})
				}
			}
		}
		// TCP SYN: a segment on the probed connection's ports, from the target, that acknowledges something else than the probe
		// (a stale reset of an earlier connection on the same ports, a blind reset, a SYN-ACK for another sequence number),
		// while the probes of the hops BEFORE the destination are outstanding: it answers nothing, the run goes on
		if vi.Kind == "tcp" || vi.Kind == "tcpparis" {
			for _, form := range []string{"rstack", "synack"} {
				for _, op := range []string{"+256", "-256", "other", "zero", "swap"} {
					for _, t := range []int{1, 2} {
						s := base(v, false)
						s.Inject = []proto.Inject{{OnTTL: t, AnswerTTL: t, Form: form, From: s.Target().String(), DelayUs: 1000, Tag: "noise",
							Perturb: &simnet.Perturb{Field: "tcp.ack", Op: op, Other: 0x12345678}}}
						items = append(items, proto.Item{Scn: s, Class: fmt.Sprintf("%s/%s/field-tcp.ack/%s/own-flow/interleaved/before-the-destination-is-reached", v, form, op)})
					}
				}
			}
		}
		// a frame of the WRONG IP version: the reply a probe would be answered with, but carried in an IPv6 datagram between the
		// IPv4-mapped forms (::ffff:a.b.c.d) of the run's two addresses, while that probe is outstanding (IPv4 runs; the direct
		// replies: echo reply, SYN-ACK, RST, selective acknowledgement)
		if !vi.V6 {
			dfs := []string{vi.DestForm}
			if vi.Kind == "tcp" || vi.Kind == "tcpparis" {
				dfs = append(dfs, "rst")
			}
			for _, form := range dfs {
				if simnet.IsICMPError(form) {
					continue
				}
				for _, t := range []int{1, 2} {
					s := base(v, false)
					s.Inject = []proto.Inject{{OnTTL: t, AnswerTTL: t, Form: "v6mapped:" + form, From: s.Target().String(), DelayUs: 1000, Tag: "noise"}}
					items = append(items, proto.Item{Scn: s, Class: fmt.Sprintf("%s/%s/wrong-ip-version-mapped-addresses/ttl%d", v, form, t)})
				}
			}
		}
		// an identifier one past the LAST probe of the run (never sent by anybody): the edge of every per-TTL table
		for _, form := range []string{vi.TEForm, vi.DestForm} {
			fields := simnet.Fields(vi.Kind, form)
			if len(fields) == 0 {
				continue
			}
			idf := fields[len(fields)-1]
			for _, last := range []int{4, 255} {
				s := base(v, false)
				s.Last = last
				if last == 255 {
					s.First, s.Dest = 253, 254
				}
				from := proto.Evil(vi.V6).String()
				if !simnet.IsICMPError(form) {
					from = s.Target().String()
				}
				s.Inject = []proto.Inject{{OnTTL: s.First, AnswerTTL: last, Form: form, From: from, DelayUs: 1500, Tag: "noise", Perturb: &simnet.Perturb{Field: idf, Op: "+1"}}}
				items = append(items, proto.Item{Scn: s, Class: fmt.Sprintf("%s/%s/field-%s/one-past-the-last-probe/last-%d", v, form, idf, last)})
			}
		}
		// SACK: hostile bytes during the handshake (mutations of the SYN-ACK preceding the genuine one)
		if vi.Kind == "sack" {
			for _, kind := range append(append([]string{}, kinds...), "ts-opt-len") {
				for _, foreign := range []bool{true, false} {
					// own-flow mutations are restricted to those that cannot yield a well-formed SYN-ACK lacking
					// SACK-permitted (which would be a genuine "SACK unsupported" answer, not hostile bytes)
					if !foreign && kind != "truncate" && kind != "ts-opt-len" {
						continue
					}
					for _, ts := range []bool{false, true} {
						s := base(v, false)
						s.SynAck = &simnet.SynAckSpec{Enabled: true, ISN: 0x1000, AckNum: 0x2000, SackPermitted: true, Timestamps: ts, NoiseKind: kind, NoiseArg: -1, NoiseForeign: foreign}
						fl := "own-flow"
						if foreign {
							fl = "foreign-flow"
						}
						items = append(items, proto.Item{Scn: s, Class: fmt.Sprintf("%s/handshake-synack/%s/%s/ts-%v", v, kind, fl, ts)})
						if !foreign && ts {
							// the same mutations of a SYN-ACK that acknowledges ANOTHER number (stale, forged): skipped like the
							// others - accepting one would shift the connection's sequence base
							s2 := s
							sa := *s.SynAck
							sa.NoiseAckDelta = 0x1000
							s2.SynAck = &sa
							items = append(items, proto.Item{Scn: s2, Class: fmt.Sprintf("%s/handshake-synack/%s/%s/ts-%v/acknowledging-another-number", v, kind, fl, ts)})
						}
					}
				}
			}
		}
	}
	return items
}

var (
	bmu   sync.Mutex
	bases = map[string]string{}
)

func outcomeOf(r *proto.Result) string {
	o := r.Obs[0]
	if f := proto.Fatal(r); f != nil {
		return "FATAL:" + f.Key
	}
	if o.Err != nil {
		return "error"
	}
	return proto.HopsKey(proto.Hops(o.Run))
}

func baseline(it *proto.Item) string {
	b := it.Scn
	b.Inject = nil
	if b.SynAck != nil {
		sa := *b.SynAck
		sa.NoiseKind = ""
		// keep the genuine SYN-ACK's timing identical
		if sa.DelayNs == 0 && it.Scn.SynAck.NoiseKind != "" {
			sa.DelayNs = 2_000_000
		}
		b.SynAck = &sa
	}
	k, _ := json.Marshal(b)
	bmu.Lock()
	defer bmu.Unlock()
	if v, ok := bases[string(k)]; ok {
		return v
	}
	bi := proto.Item{Scn: b}
	r := F.RunPlain(&bi)
	v := outcomeOf(r) + rtts(r)
	bases[string(k)] = v
	return v
}

func rtts(r *proto.Result) string {
	// RTTs rounded to 0.1ms: noise costs at most a few microseconds of read time
	s := "|"
	for _, h := range proto.Hops(r.Obs[0].Run) {
		s += fmt.Sprintf("%d,", (h.RTTus+50)/100)
	}
	return s
}

func check(it *proto.Item, r *proto.Result) []proto.Issue {
	want := baseline(it)
	got := outcomeOf(r) + rtts(r)
	if got == want {
		return nil
	}
	// find the culprit packets: re-run with each variant alone
	var out []proto.Issue
	seen := map[string]bool{}
	detail := func() string {
		d := fmt.Sprintf("noise-free run: %s ; with noise: %s", want, got)
		if r.Obs[0].Err != nil {
			d += " ; error: " + r.Obs[0].Err.Error()
		}
		if r.X.Crash != nil {
			d += " ; panic: " + r.X.Crash.Value + "\n" + r.X.Crash.Stack
		}
		return d
	}
	single := func(arg int) (string, *proto.Result) {
		one := *it
		one.Scn = it.Scn
		if len(it.Scn.Inject) > 0 {
			in := it.Scn.Inject[0]
			in.NoiseArg = arg
			one.Scn.Inject = []proto.Inject{in}
		} else if it.Scn.SynAck != nil {
			sa := *it.Scn.SynAck
			sa.NoiseArg = arg
			one.Scn.SynAck = &sa
		}
		rr := F.RunPlain(&one)
		return outcomeOf(rr) + rtts(rr), rr
	}
	isBatch := (len(it.Scn.Inject) > 0 && it.Scn.Inject[0].NoiseArg < 0) || (it.Scn.SynAck != nil && it.Scn.SynAck.NoiseKind != "" && it.Scn.SynAck.NoiseArg < 0)
	if isBatch {
		kind := ""
		if len(it.Scn.Inject) > 0 {
			kind = it.Scn.Inject[0].NoiseKind
		} else {
			kind = it.Scn.SynAck.NoiseKind
		}
		max := 260
		if kind == "truncate" {
			max = 1600
		}
		misses := 0
		for a := 0; a < max && len(out) < 6; a++ {
			g, rr := single(a)
			if g == want {
				misses++
				continue
			}
			lbl := fmt.Sprint(a)
			if kind == "truncate" {
				lbl = truncLabel(rr, a)
			}
			if seen[lbl] {
				continue
			}
			seen[lbl] = true
			d := fmt.Sprintf("variant %d of %s: noise-free run: %s ; with this packet: %s", a, kind, want, g)
			if rr.Obs[0].Err != nil {
				d += " ; error: " + rr.Obs[0].Err.Error()
			}
			if rr.X.Crash != nil {
				d += " ; panic: " + rr.X.Crash.Value
			}
			out = append(out, proto.Issue{Key: lbl + "/" + verdict(g), Detail: d})
		}
		if len(out) > 0 {
			return out
		}
	}
	return []proto.Issue{{Key: "batch/" + verdict(got), Detail: detail()}}
}

func truncLabel(r *proto.Result, arg int) string {
	// bucket by where the cut falls, using the noise packet actually delivered
	for _, e := range r.Net.Ledger {
		if e.Meta.Tag == "noise" || e.Meta.Tag == "handshake-noise" {
			n := len(e.Raw)
			v6 := n > 0 && e.Raw[0]>>4 == 6
			iph := 20
			if v6 {
				iph = 40
			} else if n > 0 {
				iph = int(e.Raw[0]&0xf) * 4
			}
			switch {
			case n < iph:
				return "cut-inside-ip-header"
			case n < iph+8:
				return "cut-inside-l4-header"
			case n < iph+8+20:
				return "cut-inside-next-20-bytes"
			}
			return "cut-in-tail"
		}
	}
	return fmt.Sprintf("cut-%d", arg)
}

func verdict(g string) string {
	switch {
	case len(g) >= 6 && g[:6] == "FATAL:":
		return g[6:]
	case len(g) >= 5 && g[:5] == "error":
		return "run-aborted"
	}
	return "result-changed"
}

var F = &proto.Family{ID: "C09", Gen: gen, NoFatalShortcut: true}

func init() {
	F.Check = check
	F.Register("model_checking",
		"item = (variant, catalogue reply form, mutation kind from the lattice {every truncation length, version nibble x16, IHL x16, total/payload length boundary values, protocol/next-header x256, ICMP type x256, TCP data offset x16, first TCP option length, oversize beyond the 1024-byte read buffer, quoted IHL/version/protocol/length, garbage after valid headers}, flow {foreign, own}, network otherwise {answering, silent}, injection point {start, between probes, after the destination reply}; SACK: the same lattice applied to the handshake SYN-ACK); "+
			"all variants of one mutation kind are delivered in one execution, 1us apart; on any difference the variants are re-run one by one to name the culprit; oracle: no panic, no error, hops and RTTs (0.1 ms resolution) equal the noise-free run of the same scenario; distinct = distinct hop lists",
		[]string{"bytes outside the lattice (random / coverage-guided corpora) are not covered: that is a different technique family",
			"own-flow noise is delivered after the genuine reply of its TTL and only to the parallel engines, so that a still-valid mutated duplicate cannot legitimately change the result",
			"the stated SACK exception (own-flow ACK without SACK blocks) is excluded from the noise set"})
}
