// Package c13: Linux kernel conformance. Real kernel routers (network namespaces joined by veth pairs), real
// raw/AF_PACKET sockets, the CLI built from the working tree: every protocol variant must report exactly the
// router chain followed by the destination.
package c13

import (
	"bytes"
	"encoding/json"
	"fmt"
	"net/netip"
	"os"
	"os/exec"
	"strings"
	"sync"
	"time"

	"verif/props/core"
)

type Cfg struct {
	Len    int    `json:"path_length"` // number of routers between source and destination
	Proto  string `json:"proto"`
	Method string `json:"method"`
	Port   string `json:"port"`   // open | closed | nosack
	Silent int    `json:"silent"` // index (1-based) of a router that generates no ICMP, 0 = none
	First  int    `json:"first_ttl"`
	Concur int    `json:"concurrent"`        // invocations at once (same topology)
	Max    int    `json:"max_ttl,omitempty"` // 0 = 8
	E2e    int    `json:"e2e"`
	V6     bool   `json:"ipv6"`
	// History k > 0: the run happens in a process whose earlier runs have used up packet identifiers; its own range starts k below the 16-bit wrap
	History int `json:"id_history,omitempty"`
	// TimeoutMs (0 = 1000): the per-probe timeout; with a short one the later probes leave AFTER it has passed (they are sent
	// 50 ms apart), which is fine: the listening budget is the timeout plus the send delays
	TimeoutMs int `json:"timeout_ms,omitempty"`
	// NoDelay: no pause between probes: several of them reach the destination before its first answer is back, and each is answered
	NoDelay bool `json:"no_delay,omitempty"`
	// Paris: TCP SYN in Paris mode (library parameter: every probe draws its own sequence number, the IP ID is constant)
	Paris bool `json:"paris,omitempty"`
}

func (c Cfg) class() string {
	fam := ""
	if c.V6 {
		fam = "/ipv6"
	}
	if c.Max > 0 {
		fam += fmt.Sprintf("/max-ttl-%d", c.Max)
	}
	if c.History > 0 {
		fam += fmt.Sprintf("/packet-ids-%d-before-wrap", c.History)
	}
	if c.TimeoutMs > 0 {
		fam += fmt.Sprintf("/timeout-%dms", c.TimeoutMs)
	}
	if c.NoDelay {
		fam += "/no-send-delay"
	}
	if c.Paris {
		fam += "/paris-mode"
	}
	return fmt.Sprintf("len%d/%s-%s/port-%s/silent-%d/first-%d/x%d%s", c.Len, c.Proto, c.Method, c.Port, c.Silent, c.First, c.Concur, fam)
}

func configs(tier string) []Cfg {
	var out []Cfg
	type pm struct{ p, m string }
	variants := []pm{{"icmp", ""}, {"udp", ""}, {"tcp", "syn"}, {"tcp", "sack"}, {"tcp", "prefer_sack"}}
	lens := []int{2}
	if tier == "thorough" {
		lens = []int{1, 2, 3, 4}
	}
	for _, l := range lens {
		for _, v := range variants {
			for _, port := range []string{"open", "closed", "nosack"} {
				if (v.p == "icmp" || v.p == "udp") && port != "open" {
					if !(v.p == "udp" && port == "closed") {
						continue
					}
				}
				if port == "nosack" && v.m == "syn" {
					continue
				}
				out = append(out, Cfg{Len: l, Proto: v.p, Method: v.m, Port: port, First: 1, Concur: 1, E2e: 2})
			}
			if tier == "thorough" || l == 2 {
				for s := 1; s <= l; s++ {
					if tier != "thorough" && s != 1 {
						continue
					}
					out = append(out, Cfg{Len: l, Proto: v.p, Method: v.m, Port: "open", Silent: s, First: 1, Concur: 1})
				}
				out = append(out, Cfg{Len: l, Proto: v.p, Method: v.m, Port: "open", First: 2, Concur: 1})
				if l >= 2 {
					// both together: a first TTL above 1 and a silent router inside the probed range (its entry keeps its TTL)
					out = append(out, Cfg{Len: l, Proto: v.p, Method: v.m, Port: "open", Silent: l, First: 2, Concur: 1})
				}
				// the last TTL is exactly the destination's distance: the probe with TTL = max TTL is the one that counts
				out = append(out, Cfg{Len: l, Proto: v.p, Method: v.m, Port: "open", First: 1, Concur: 1, Max: l + 1})
				if v.p == "tcp" && v.m != "sack" && l == 2 {
					// not the first run of its process: the packet-identifier range of the SYN probes crosses the 16-bit wrap
					out = append(out, Cfg{Len: l, Proto: v.p, Method: v.m, Port: map[string]string{"syn": "open", "prefer_sack": "nosack"}[v.m], First: 1, Concur: 1, History: 2})
				}
				if v.p == "tcp" && v.m == "syn" {
					// Paris mode (a library parameter): the same chain of routers, then the destination, open and closed port
					out = append(out, Cfg{Len: l, Proto: v.p, Method: v.m, Port: "open", First: 1, Concur: 1, E2e: 1, Paris: true})
					out = append(out, Cfg{Len: l, Proto: v.p, Method: v.m, Port: "closed", First: 1, Concur: 1, Paris: true})
					out = append(out, Cfg{Len: l, Proto: v.p, Method: v.m, Port: "open", Silent: 1, First: 2, Concur: 1, Paris: true})
				}
				if v.m != "syn" {
					out = append(out, Cfg{Len: l, Proto: v.p, Method: v.m, Port: "open", First: 1, Concur: 1, NoDelay: true})
					// a timeout shorter than the time it takes to send the probes up to the destination (parallel engines)
					out = append(out, Cfg{Len: l, Proto: v.p, Method: v.m, Port: "open", First: 1, Concur: 1, TimeoutMs: 80})
				}
				// the very first probe already reaches the destination
				out = append(out, Cfg{Len: l, Proto: v.p, Method: v.m, Port: "open", First: l + 1, Concur: 1})
			}
		}
		// IPv6 (ICMPv6 and UDP are the IPv6-capable variants)
		for _, v := range []pm{{"icmp", ""}, {"udp", ""}} {
			out = append(out, Cfg{Len: l, Proto: v.p, Method: v.m, Port: "closed", First: 1, Concur: 1, E2e: 2, V6: true})
			if tier == "thorough" {
				out = append(out, Cfg{Len: l, Proto: v.p, Method: v.m, Port: "closed", Silent: 1, First: 1, Concur: 1, V6: true})
			}
		}
		out = append(out, Cfg{Len: l, Proto: "mix", Port: "open", First: 1, Concur: 3})
		out = append(out, Cfg{Len: l, Proto: "mix-tcp", Port: "open", First: 1, Concur: 3})
	}
	return out
}

func timeoutOf(c Cfg) string {
	if c.TimeoutMs > 0 {
		return fmt.Sprint(c.TimeoutMs)
	}
	return "1000"
}

func maxOf(c Cfg) string {
	if c.Max > 0 {
		return fmt.Sprint(c.Max)
	}
	return "8"
}

func sh(timeout time.Duration, name string, args ...string) (string, string, error) {
	cmd := exec.Command(name, args...)
	var o, e bytes.Buffer
	cmd.Stdout, cmd.Stderr = &o, &e
	done := make(chan error, 1)
	if err := cmd.Start(); err != nil {
		return "", "", err
	}
	go func() { done <- cmd.Wait() }()
	select {
	case err := <-done:
		return o.String(), e.String(), err
	case <-time.After(timeout):
		cmd.Process.Kill()
		return o.String(), e.String(), fmt.Errorf("timeout after %s", timeout)
	}
}

type lab struct {
	prefix string
	n      int
	ns     []string
	procs  []*exec.Cmd
}

func (l *lab) exec(ns string, args ...string) error {
	a := append([]string{"netns", "exec", ns}, args...)
	_, e, err := sh(10*time.Second, "ip", a...)
	if err != nil {
		return fmt.Errorf("%v: %s (%v)", args, e, err)
	}
	return nil
}

// build creates src - r1 - ... - rn - dst. Link i (0..n) has subnet 10.77.i.0/24, left end .1, right end .2.
func build(prefix string, n int, cfg Cfg) (*lab, error) {
	l := &lab{prefix: prefix, n: n}
	names := []string{prefix + "src"}
	for i := 1; i <= n; i++ {
		names = append(names, fmt.Sprintf("%sr%d", prefix, i))
	}
	names = append(names, prefix+"dst")
	for _, ns := range names {
		if _, e, err := sh(5*time.Second, "ip", "netns", "add", ns); err != nil {
			l.ns = append(l.ns, ns)
			l.destroy()
			return nil, fmt.Errorf("netns add %s: %s %v", ns, e, err)
		}
		l.ns = append(l.ns, ns)
		l.exec(ns, "ip", "link", "set", "lo", "up")
		l.exec(ns, "sysctl", "-qw", "net.ipv4.icmp_ratelimit=0")
		l.exec(ns, "sysctl", "-qw", "net.ipv4.icmp_ratemask=0")
		l.exec(ns, "sysctl", "-qw", "net.ipv4.ip_forward=1")
		l.exec(ns, "sysctl", "-qw", "net.ipv4.conf.all.rp_filter=0")
		l.exec(ns, "sysctl", "-qw", "net.ipv6.conf.all.forwarding=1")
		l.exec(ns, "sysctl", "-qw", "net.ipv6.icmp.ratelimit=0")
		// no duplicate address detection: link-local addresses would stay tentative for over a second and neighbour
		// discovery (hence the first run in a fresh lab) would fail
		l.exec(ns, "sysctl", "-qw", "net.ipv6.conf.default.accept_dad=0")
		l.exec(ns, "sysctl", "-qw", "net.ipv6.conf.all.accept_dad=0")
	}
	for i := 0; i <= n; i++ {
		a, b := names[i], names[i+1]
		va, vb := fmt.Sprintf("%sa%d", prefix, i), fmt.Sprintf("%sb%d", prefix, i)
		if _, e, err := sh(5*time.Second, "ip", "link", "add", va, "netns", a, "type", "veth", "peer", "name", vb, "netns", b); err != nil {
			l.destroy()
			return nil, fmt.Errorf("veth: %s %v", e, err)
		}
		l.exec(a, "ip", "addr", "add", fmt.Sprintf("10.77.%d.1/24", i), "dev", va)
		l.exec(b, "ip", "addr", "add", fmt.Sprintf("10.77.%d.2/24", i), "dev", vb)
		l.exec(a, "ip", "link", "set", va, "up")
		l.exec(b, "ip", "link", "set", vb, "up")
		l.exec(a, "ip", "-6", "addr", "add", fmt.Sprintf("fd77:%x::1/64", i), "dev", va, "nodad")
		l.exec(b, "ip", "-6", "addr", "add", fmt.Sprintf("fd77:%x::2/64", i), "dev", vb, "nodad")
	}
	// routes: everybody forwards towards dst via the right neighbour, towards src via the left neighbour
	for i := 0; i <= n; i++ {
		if err := l.exec(names[i], "ip", "route", "add", "default", "via", fmt.Sprintf("10.77.%d.2", i)); err != nil {
			l.destroy()
			return nil, err
		}
		l.exec(names[i], "ip", "-6", "route", "add", "default", "via", fmt.Sprintf("fd77:%x::2", i))
	}
	for i := 1; i <= n+1; i++ {
		// back towards the source's subnet (and the subnets to the left)
		for j := 0; j < i-1; j++ {
			l.exec(names[i], "ip", "route", "add", fmt.Sprintf("10.77.%d.0/24", j), "via", fmt.Sprintf("10.77.%d.1", i-1))
			l.exec(names[i], "ip", "-6", "route", "add", fmt.Sprintf("fd77:%x::/64", j), "via", fmt.Sprintf("fd77:%x::1", i-1))
		}
	}
	dst := names[n+1]
	if cfg.Port == "nosack" {
		l.exec(dst, "sysctl", "-qw", "net.ipv4.tcp_sack=0")
	}
	if cfg.Silent > 0 {
		r := names[cfg.Silent]
		if err := l.exec(r, "nft", "add", "table", "ip", "f"); err != nil {
			l.destroy()
			return nil, err
		}
		l.exec(r, "nft", "add", "chain", "ip", "f", "out", "{ type filter hook output priority 0 ; }")
		if err := l.exec(r, "nft", "add", "rule", "ip", "f", "out", "icmp", "type", "time-exceeded", "drop"); err != nil {
			l.destroy()
			return nil, err
		}
		l.exec(r, "nft", "add", "table", "ip6", "f6")
		l.exec(r, "nft", "add", "chain", "ip6", "f6", "out", "{ type filter hook output priority 0 ; }")
		l.exec(r, "nft", "add", "rule", "ip6", "f6", "out", "icmpv6", "type", "time-exceeded", "drop")
	}
	// a TCP listener on port 8080 of the destination (port 8081 stays closed)
	c := exec.Command("ip", "netns", "exec", dst, "python3", "-c", "import socket,time\ns=socket.socket();s.setsockopt(socket.SOL_SOCKET,socket.SO_REUSEADDR,1);s.bind(('0.0.0.0',8080));s.listen(64)\nconns=[]\nwhile True:\n c,_=s.accept();conns.append(c)\n")
	if err := c.Start(); err != nil {
		l.destroy()
		return nil, err
	}
	l.procs = append(l.procs, c)
	// wait until it listens
	for i := 0; i < 50; i++ {
		o, _, _ := sh(3*time.Second, "ip", "netns", "exec", dst, "sh", "-c", "cat /proc/net/tcp | grep -c ':1F90 ' || true")
		if strings.TrimSpace(o) != "0" && strings.TrimSpace(o) != "" {
			break
		}
		time.Sleep(50 * time.Millisecond)
	}
	return l, nil
}

func (l *lab) destroy() {
	for _, p := range l.procs {
		if p.Process != nil {
			p.Process.Kill()
			p.Wait()
		}
	}
	for _, ns := range l.ns {
		sh(5*time.Second, "ip", "netns", "del", ns)
	}
}

type doc struct {
	Traceroute struct {
		Runs []struct {
			Hops []struct {
				TTL       int     `json:"ttl"`
				IP        string  `json:"ip_address"`
				RTT       float64 `json:"rtt"`
				Reachable bool    `json:"reachable"`
			} `json:"hops"`
		} `json:"runs"`
	} `json:"traceroute"`
	E2e struct {
		RTTs     []float64 `json:"rtts"`
		Received int       `json:"packets_received"`
	} `json:"e2e_probe"`
}

// invoke runs one traceroute from the source namespace and returns (json document or nil, stderr, exit error).
func invoke(l *lab, c Cfg, proto, method string) (*doc, string, error) {
	dstAddr := fmt.Sprintf("10.77.%d.2", l.n)
	if c.V6 {
		dstAddr = fmt.Sprintf("fd77:%x::2", l.n)
	}
	port := "8080"
	if c.Port == "closed" {
		port = "8081"
	}
	src := l.ns[0]
	var args []string
	if c.First > 1 || c.History > 0 || c.NoDelay || c.Paris {
		args = []string{"netns", "exec", src, os.Getenv("VERIF_C13_DRV"), "-proto", proto, "-method", method, "-port", port, "-min", fmt.Sprint(c.First), "-max", maxOf(c), "-timeout", timeoutOf(c), "-q", "1", "-e2e", fmt.Sprint(c.E2e), "-history", fmt.Sprint(c.History), "-delay", map[bool]string{false: "50", true: "0"}[c.NoDelay], fmt.Sprintf("-paris=%v", c.Paris), dstAddr}
	} else {
		args = []string{"netns", "exec", src, os.Getenv("VERIF_C13_CLI"), "-P", proto, "-p", port, "-q", "1", "-Q", fmt.Sprint(c.E2e), "-m", maxOf(c), "--timeout", timeoutOf(c)}
		if proto == "tcp" {
			args = append(args, "--tcp-method", method)
		}
		if c.V6 {
			args = append(args, "--ipv6")
		}
		args = append(args, dstAddr)
	}
	o, e, err := sh(60*time.Second, "ip", args...)
	if err != nil {
		return nil, e, err
	}
	var d doc
	if jerr := json.Unmarshal([]byte(o), &d); jerr != nil {
		return nil, o + e, fmt.Errorf("output is not the JSON document: %v", jerr)
	}
	return &d, e, nil
}

func expect(l *lab, c Cfg, proto, method string, d *doc, stderr string, err error) string {
	wantErr := false
	if proto == "tcp" && method == "sack" && (c.Port == "closed" || c.Port == "nosack") {
		wantErr = true
	}
	if wantErr {
		if err == nil {
			return "sack-on-incapable-target-succeeded"
		}
		return ""
	}
	if err != nil {
		return "run-failed: " + strings.TrimSpace(stderr) + " " + err.Error()
	}
	if len(d.Traceroute.Runs) != 1 {
		return fmt.Sprintf("runs=%d", len(d.Traceroute.Runs))
	}
	hops := d.Traceroute.Runs[0].Hops
	var want []string
	addr := func(link int) string {
		if c.V6 {
			return netip.MustParseAddr(fmt.Sprintf("fd77:%x::2", link)).String()
		}
		return fmt.Sprintf("10.77.%d.2", link)
	}
	for k := 1; k <= l.n; k++ {
		if k == c.Silent {
			want = append(want, "")
		} else {
			want = append(want, addr(k-1))
		}
	}
	want = append(want, addr(l.n))
	want = want[c.First-1:]
	var got []string
	for i, h := range hops {
		if h.TTL != c.First+i {
			return fmt.Sprintf("ttl-sequence: entry %d has ttl %d", i, h.TTL)
		}
		if h.RTT < 0 {
			return "negative-rtt"
		}
		if (h.IP != "") != h.Reachable {
			return "reachable-flag"
		}
		got = append(got, h.IP)
	}
	if strings.Join(got, ",") != strings.Join(want, ",") {
		return fmt.Sprintf("path: got [%s] want [%s]", strings.Join(got, " "), strings.Join(want, " "))
	}
	if c.E2e > 0 && d.E2e.Received != c.E2e {
		return fmt.Sprintf("e2e: %d of %d probes answered", d.E2e.Received, c.E2e)
	}
	return ""
}

var seq int

func runCfg(c Cfg, tag string) (string, string) {
	seq++
	prefix := fmt.Sprintf("v%d%s%d", os.Getpid()%100000, tag, seq)
	if len(prefix) > 9 {
		prefix = prefix[len(prefix)-9:]
	}
	l, err := build(prefix, c.Len, c)
	if err != nil {
		return "INFRA", err.Error()
	}
	defer l.destroy()
	if c.Concur <= 1 {
		d, e, err := invoke(l, c, c.Proto, c.Method)
		return expect(l, c, c.Proto, c.Method, d, e, err), ""
	}
	type pm struct{ p, m string }
	mix := []pm{{"udp", ""}, {"icmp", ""}, {"tcp", "syn"}}
	if c.Proto == "mix-tcp" {
		// several TCP traceroutes to the same target address and port at once
		mix = []pm{{"tcp", "sack"}, {"tcp", "sack"}, {"tcp", "syn"}}
	}
	var wg sync.WaitGroup
	res := make([]string, len(mix))
	for i, v := range mix {
		wg.Add(1)
		go func(i int, v pm) {
			defer wg.Done()
			d, e, err := invoke(l, c, v.p, v.m)
			if r := expect(l, c, v.p, v.m, d, e, err); r != "" {
				res[i] = v.p + ": " + r
			}
		}(i, v)
	}
	wg.Wait()
	return strings.TrimSpace(strings.Join(res, " ")), ""
}

func available() string {
	if os.Getenv("VERIF_C13_CLI") == "" {
		return "CLI path not provided"
	}
	if _, _, err := sh(5*time.Second, "ip", "netns", "add", fmt.Sprintf("vprobe%d", os.Getpid())); err != nil {
		return "network namespaces cannot be created here"
	}
	sh(5*time.Second, "ip", "netns", "del", fmt.Sprintf("vprobe%d", os.Getpid()))
	return ""
}

func run(tier string, idx int, r *core.ScnResult) {
	c := configs(tier)[idx]
	if why := available(); why != "" {
		r.Stats.Capped = true
		r.Outcome("not-explored: " + why)
		r.Sample = core.JSON(map[string]any{"skipped": why})
		return
	}
	r.Nontrivial = true
	r.Evals = 1
	res, infra := runCfg(c, "a")
	if res == "INFRA" {
		r.Stats.Capped = true
		r.Outcome("lab-setup-failed")
		r.Sample = core.JSON(map[string]any{"lab_setup_failed": infra})
		return
	}
	if res != "" {
		// real kernel, real clocks: report only what fails alone five times in a row
		fails := 1
		for k := 0; k < 4; k++ {
			again, _ := runCfg(c, "b")
			if again != "" && again != "INFRA" {
				fails++
			}
		}
		if fails == 5 {
			key := res
			if i := strings.Index(key, ":"); i > 0 {
				key = key[:i]
			}
			r.Fail(core.Failure{Key: "C13 " + c.class() + "/" + key, What: res, Scenario: core.JSON(c)})
		} else {
			r.Branch("flaky-not-reported")
		}
	}
	r.Outcome(c.class() + "=" + fmt.Sprint(res == ""))
	r.Sample = core.JSON(c)
}

func replay(scn json.RawMessage, choices []int) (string, bool) {
	var c Cfg
	json.Unmarshal(scn, &c)
	if why := available(); why != "" {
		return "not explored: " + why + "\n", true
	}
	res, infra := runCfg(c, "r")
	if res == "INFRA" {
		return "lab setup failed: " + infra + "\n", true
	}
	if res != "" {
		return fmt.Sprintf("configuration %s\nORACLE FAILED: %s\n", scn, res), false
	}
	return "oracle: ok\n", true
}

func init() {
	core.Register(&core.Property{ID: "C13", Level: "exploration",
		Rule: "configurations enumerated exhaustively: path length (quick 2; thorough 1..4 kernel routers in network namespaces) x variant {icmp, udp, tcp syn, tcp sack, tcp prefer_sack} x destination port {open, closed, open with tcp_sack=0} x silent router (each position; nft drops its time-exceeded) x first TTL {1 via the CLI, 2 via a small library driver} x {1, 3 concurrent invocations}; " +
			"the CLI is built from the working tree without instrumentation and run in the source namespace; replies come from the kernel's own IP/ICMP/TCP stack; oracle: hops = router chain then destination, non-negative RTTs, silent router = empty hop, closed port reached (RST / port unreachable), end-to-end probes answered, sack on a SACK-less or closed target fails and prefer_sack falls back; a failing configuration is re-run alone 4 more times and reported only if it fails every time; non-trivial = every configuration; distinct = distinct (configuration, verdict)",
		Count: func(t string) int { return len(configs(t)) }, Run: run, Replay: replay, Exhaustive: true, MaxJobs: 4,
		Assumptions: []string{"kernel timing and kernel versions are not enumerated: the level is exploration", "if network namespaces cannot be created the check exits 0 with exhaustive:false and says why",
			"destination marking is not part of the JSON document: it is observed through the list ending at the destination and through answered end-to-end probes"}})
}
