// Package refcodec is a hand-written parser/builder for exactly the headers the
// traceroute drivers emit and consume (IPv4, IPv6, ICMPv4, ICMPv6, UDP, TCP) and
// the Internet checksum. It deliberately shares no code with gopacket: probes are
// judged by it and replies are built by it (DESIGN.md E4).
package refcodec

import (
	"encoding/binary"
	"fmt"
	"net/netip"
)

const (
	ProtoICMP   = 1
	ProtoTCP    = 6
	ProtoUDP    = 17
	ProtoICMPv6 = 58
	ProtoFrag6  = 44
)

const (
	FIN = 0x01
	SYN = 0x02
	RST = 0x04
	PSH = 0x08
	ACK = 0x10
)

// Packet is a decoded IP packet plus the list of well-formedness problems found.
type Packet struct {
	V        int
	Src, Dst netip.Addr
	TTL      uint8
	Proto    uint8
	TOS      uint8
	IPID     uint16
	FragWord uint16 // v4 flags+offset
	IHL      int    // bytes
	TotalLen int    // v4 total length / v6 40+payload length
	IPOpts   []byte

	// ICMP
	ICMPType, ICMPCode uint8
	EchoID, EchoSeq    uint16
	ICMPBody           []byte // after the 8-byte ICMP header

	// UDP/TCP
	SrcPort, DstPort uint16
	UDPLen           uint16
	Seq, Ack         uint32
	Flags            uint8
	DataOff          int
	Window           uint16
	TCPOpts          []byte
	Payload          []byte // transport payload

	L4       []byte // transport header + payload
	Raw      []byte
	Problems []string
}

func (p *Packet) problem(f string, a ...any) { p.Problems = append(p.Problems, fmt.Sprintf(f, a...)) }

// Checksum is the Internet checksum of the concatenation of the given byte strings.
func Checksum(parts ...[]byte) uint16 {
	var sum uint32
	odd := false
	var carry byte
	for _, b := range parts {
		for _, c := range b {
			if odd {
				sum += uint32(carry)<<8 | uint32(c)
				odd = false
			} else {
				carry = c
				odd = true
			}
		}
	}
	if odd {
		sum += uint32(carry) << 8
	}
	for sum>>16 != 0 {
		sum = (sum & 0xffff) + (sum >> 16)
	}
	return ^uint16(sum)
}

func pseudo(src, dst netip.Addr, proto uint8, l4len int) []byte {
	if src.Is4() {
		b := make([]byte, 12)
		s, d := src.As4(), dst.As4()
		copy(b[0:4], s[:])
		copy(b[4:8], d[:])
		b[9] = proto
		binary.BigEndian.PutUint16(b[10:], uint16(l4len))
		return b
	}
	b := make([]byte, 40)
	s, d := src.As16(), dst.As16()
	copy(b[0:16], s[:])
	copy(b[16:32], d[:])
	binary.BigEndian.PutUint32(b[32:], uint32(l4len))
	b[39] = proto
	return b
}

// L4Checksum is the transport checksum (pseudo-header included) of l4, whose checksum field must be zero.
func L4Checksum(src, dst netip.Addr, proto uint8, l4 []byte) uint16 {
	return Checksum(pseudo(src, dst, proto, len(l4)), l4)
}

// Parse decodes an IP packet and checks every length and checksum it can.
func Parse(b []byte) (*Packet, error) {
	p := &Packet{Raw: b}
	if len(b) < 1 {
		return nil, fmt.Errorf("empty packet")
	}
	switch b[0] >> 4 {
	case 4:
		if len(b) < 20 {
			return nil, fmt.Errorf("short IPv4 header: %d bytes", len(b))
		}
		p.V = 4
		p.IHL = int(b[0]&0xf) * 4
		if p.IHL < 20 || p.IHL > len(b) {
			return nil, fmt.Errorf("bad IHL %d", p.IHL)
		}
		p.TOS = b[1]
		p.TotalLen = int(binary.BigEndian.Uint16(b[2:]))
		p.IPID = binary.BigEndian.Uint16(b[4:])
		p.FragWord = binary.BigEndian.Uint16(b[6:])
		p.TTL = b[8]
		p.Proto = b[9]
		p.Src = netip.AddrFrom4([4]byte(b[12:16]))
		p.Dst = netip.AddrFrom4([4]byte(b[16:20]))
		p.IPOpts = b[20:p.IHL]
		if p.TotalLen != len(b) {
			p.problem("ipv4 total length %d != %d bytes on the wire", p.TotalLen, len(b))
		}
		if Checksum(b[:p.IHL]) != 0 {
			p.problem("ipv4 header checksum does not verify")
		}
		p.L4 = b[p.IHL:]
	case 6:
		if len(b) < 40 {
			return nil, fmt.Errorf("short IPv6 header: %d bytes", len(b))
		}
		p.V = 6
		p.IHL = 40
		p.TOS = b[0]<<4 | b[1]>>4
		pl := int(binary.BigEndian.Uint16(b[4:]))
		p.TotalLen = 40 + pl
		p.Proto = b[6]
		p.TTL = b[7]
		p.Src = netip.AddrFrom16([16]byte(b[8:24]))
		p.Dst = netip.AddrFrom16([16]byte(b[24:40]))
		if p.TotalLen != len(b) {
			p.problem("ipv6 payload length %d != %d bytes on the wire", pl, len(b)-40)
		}
		p.L4 = b[40:]
	default:
		return nil, fmt.Errorf("IP version %d", b[0]>>4)
	}
	l4 := p.L4
	switch p.Proto {
	case ProtoICMP, ProtoICMPv6:
		if len(l4) < 8 {
			p.problem("short ICMP header")
			return p, nil
		}
		p.ICMPType, p.ICMPCode = l4[0], l4[1]
		p.EchoID = binary.BigEndian.Uint16(l4[4:])
		p.EchoSeq = binary.BigEndian.Uint16(l4[6:])
		p.ICMPBody = l4[8:]
		if p.Proto == ProtoICMP {
			if p.V != 4 {
				p.problem("ICMPv4 inside IPv6")
			}
			if Checksum(l4) != 0 {
				p.problem("icmp checksum does not verify")
			}
		} else {
			if p.V != 6 {
				p.problem("ICMPv6 inside IPv4")
			}
			if Checksum(pseudo(p.Src, p.Dst, ProtoICMPv6, len(l4)), l4) != 0 {
				p.problem("icmpv6 checksum does not verify")
			}
		}
	case ProtoUDP:
		if len(l4) < 8 {
			p.problem("short UDP header")
			return p, nil
		}
		p.SrcPort = binary.BigEndian.Uint16(l4[0:])
		p.DstPort = binary.BigEndian.Uint16(l4[2:])
		p.UDPLen = binary.BigEndian.Uint16(l4[4:])
		p.Payload = l4[8:]
		if int(p.UDPLen) != len(l4) {
			p.problem("udp length %d != %d", p.UDPLen, len(l4))
		}
		ck := binary.BigEndian.Uint16(l4[6:])
		if ck == 0 {
			if p.V == 6 {
				p.problem("udp checksum 0 over IPv6")
			}
		} else if Checksum(pseudo(p.Src, p.Dst, ProtoUDP, len(l4)), l4) != 0 {
			p.problem("udp checksum does not verify")
		}
	case ProtoTCP:
		if len(l4) < 20 {
			p.problem("short TCP header")
			return p, nil
		}
		p.SrcPort = binary.BigEndian.Uint16(l4[0:])
		p.DstPort = binary.BigEndian.Uint16(l4[2:])
		p.Seq = binary.BigEndian.Uint32(l4[4:])
		p.Ack = binary.BigEndian.Uint32(l4[8:])
		p.DataOff = int(l4[12]>>4) * 4
		p.Flags = l4[13]
		p.Window = binary.BigEndian.Uint16(l4[14:])
		if p.DataOff < 20 || p.DataOff > len(l4) {
			p.problem("tcp data offset %d out of range", p.DataOff)
			return p, nil
		}
		p.TCPOpts = l4[20:p.DataOff]
		p.Payload = l4[p.DataOff:]
		if Checksum(pseudo(p.Src, p.Dst, ProtoTCP, len(l4)), l4) != 0 {
			p.problem("tcp checksum does not verify")
		}
	}
	return p, nil
}

// ---- builders ----------------------------------------------------------------------

type IPv4Opts struct {
	TOS      uint8
	ID       uint16
	FragWord uint16
	TTL      uint8
	Options  []byte // padded to a multiple of 4 by the builder
}

func IPv4(src, dst netip.Addr, proto uint8, o IPv4Opts, l4 []byte) []byte {
	opts := o.Options
	for len(opts)%4 != 0 {
		opts = append(opts, 0)
	}
	ihl := 20 + len(opts)
	b := make([]byte, ihl+len(l4))
	b[0] = 0x40 | byte(ihl/4)
	b[1] = o.TOS
	binary.BigEndian.PutUint16(b[2:], uint16(len(b)))
	binary.BigEndian.PutUint16(b[4:], o.ID)
	binary.BigEndian.PutUint16(b[6:], o.FragWord)
	b[8] = o.TTL
	b[9] = proto
	s, d := src.As4(), dst.As4()
	copy(b[12:16], s[:])
	copy(b[16:20], d[:])
	copy(b[20:], opts)
	binary.BigEndian.PutUint16(b[10:], Checksum(b[:ihl]))
	copy(b[ihl:], l4)
	return b
}

func IPv6(src, dst netip.Addr, next uint8, hop uint8, l4 []byte) []byte {
	b := make([]byte, 40+len(l4))
	b[0] = 0x60
	binary.BigEndian.PutUint16(b[4:], uint16(len(l4)))
	b[6] = next
	b[7] = hop
	s, d := src.As16(), dst.As16()
	copy(b[8:24], s[:])
	copy(b[24:40], d[:])
	copy(b[40:], l4)
	return b
}

// ICMP builds an ICMPv4 (src invalid/4) or ICMPv6 message with a correct checksum.
func ICMP(v int, src, dst netip.Addr, typ, code uint8, rest [4]byte, body []byte) []byte {
	m := make([]byte, 8+len(body))
	m[0], m[1] = typ, code
	copy(m[4:8], rest[:])
	copy(m[8:], body)
	var ck uint16
	if v == 4 {
		ck = Checksum(m)
	} else {
		ck = Checksum(pseudo(src, dst, ProtoICMPv6, len(m)), m)
	}
	binary.BigEndian.PutUint16(m[2:], ck)
	return m
}

func TCP(src, dst netip.Addr, sport, dport uint16, seq, ack uint32, flags uint8, window uint16, opts, payload []byte) []byte {
	for len(opts)%4 != 0 {
		opts = append(opts, 1) // NOP padding
	}
	off := 20 + len(opts)
	m := make([]byte, off+len(payload))
	binary.BigEndian.PutUint16(m[0:], sport)
	binary.BigEndian.PutUint16(m[2:], dport)
	binary.BigEndian.PutUint32(m[4:], seq)
	binary.BigEndian.PutUint32(m[8:], ack)
	m[12] = byte(off/4) << 4
	m[13] = flags
	binary.BigEndian.PutUint16(m[14:], window)
	copy(m[20:], opts)
	copy(m[off:], payload)
	binary.BigEndian.PutUint16(m[16:], Checksum(pseudo(src, dst, ProtoTCP, len(m)), m))
	return m
}

func UDP(src, dst netip.Addr, sport, dport uint16, payload []byte) []byte {
	m := make([]byte, 8+len(payload))
	binary.BigEndian.PutUint16(m[0:], sport)
	binary.BigEndian.PutUint16(m[2:], dport)
	binary.BigEndian.PutUint16(m[4:], uint16(len(m)))
	copy(m[8:], payload)
	ck := Checksum(pseudo(src, dst, ProtoUDP, len(m)), m)
	if ck == 0 {
		ck = 0xffff
	}
	binary.BigEndian.PutUint16(m[6:], ck)
	return m
}

// Wrap puts an L4 message into an IP packet of the family of src.
func Wrap(src, dst netip.Addr, proto uint8, ttl uint8, id uint16, l4 []byte) []byte {
	if src.Is4() {
		return IPv4(src, dst, proto, IPv4Opts{TTL: ttl, ID: id}, l4)
	}
	return IPv6(src, dst, proto, ttl, l4)
}

// FixIPv4Checksum recomputes the header checksum of an IPv4 packet in place.
func FixIPv4Checksum(b []byte) {
	ihl := int(b[0]&0xf) * 4
	if ihl < 20 || ihl > len(b) {
		return
	}
	b[10], b[11] = 0, 0
	binary.BigEndian.PutUint16(b[10:], Checksum(b[:ihl]))
}

// TCP option helpers
func OptMSS(v uint16) []byte   { return []byte{2, 4, byte(v >> 8), byte(v)} }
func OptSackPermitted() []byte { return []byte{4, 2} }
func OptNop() []byte           { return []byte{1} }
func OptTimestamps(val, ecr uint32) []byte {
	b := make([]byte, 10)
	b[0], b[1] = 8, 10
	binary.BigEndian.PutUint32(b[2:], val)
	binary.BigEndian.PutUint32(b[6:], ecr)
	return b
}
func OptSack(blocks ...[2]uint32) []byte {
	b := make([]byte, 2+8*len(blocks))
	b[0], b[1] = 5, byte(len(b))
	for i, bl := range blocks {
		binary.BigEndian.PutUint32(b[2+8*i:], bl[0])
		binary.BigEndian.PutUint32(b[6+8*i:], bl[1])
	}
	return b
}

func Cat(parts ...[]byte) []byte {
	var out []byte
	for _, p := range parts {
		out = append(out, p...)
	}
	return out
}
