#!/bin/bash
# ./run.sh <ID> quick|thorough        run one check (the MANIFEST commands)
# ./run.sh <ID> --replay <file>       re-execute one replay file verbosely
# Rebuilds the instrumented harness from $VERIF_REPO's current working tree on every call.
set -u
cd "$(dirname "$0")"
. ./env.sh
export VERIF_DIR="$(pwd)"
ID="$1"; MODE="${2:-quick}"
W="$VERIF_DIR/.work/$$"
mkdir -p "$W" bin
trap 'rm -rf "$W"' EXIT
[ -x bin/vinstr ] || $VGO build -o bin/vinstr ./cmd/vinstr || { echo "INFRA: vinstr build failed"; exit 2; }
./bin/vinstr -repo "$VERIF_REPO" -out "$W" -verif "$VERIF_DIR" >"$W/vinstr.log" 2>&1 || { cat "$W/vinstr.log"; echo "INFRA: instrumentation failed"; exit 2; }
RACE=""
case "$ID" in C14) RACE="-race";; esac
if ! $VGO build $RACE -tags verif -modfile="$W/go.mod" -overlay "$W/overlay.json" -o "$W/vworker" ./cmd/vworker >"$W/build.log" 2>&1; then
  cat "$W/build.log"; echo "INFRA: harness build failed (the repository no longer compiles under instrumentation)"; exit 2
fi
if [ "$ID" = "C13" ]; then
  # the CLI and the library driver, built from the working tree without instrumentation
  (cd "$VERIF_REPO" && $VGO build -o "$W/dtr" . ) >"$W/cli.log" 2>&1 || { cat "$W/cli.log"; echo "INFRA: CLI build failed"; exit 2; }
  sed "s#=> /repo#=> $VERIF_REPO#" go.mod > "$W/plain.mod"; cp "$W/go.sum" "$W/plain.sum"
  $VGO build -modfile="$W/plain.mod" -o "$W/c13drv" ./cmd/c13drv >"$W/drv.log" 2>&1 || { cat "$W/drv.log"; echo "INFRA: driver build failed"; exit 2; }
  export VERIF_C13_CLI="$W/dtr" VERIF_C13_DRV="$W/c13drv"
fi
if [ "$MODE" = "--replay" ]; then
  [ -n "$RACE" ] && export GORACE="log_path=$W/race halt_on_error=0 exitcode=0 history_size=5"
  "$W/vworker" replay "$ID" "$3"; exit $?
fi
if [ -n "$RACE" ]; then export GORACE="log_path=$W/race halt_on_error=0 exitcode=0 history_size=5"; fi
"$W/vworker" master "$ID" "$MODE"
