// Package vrand replaces the top-level functions of math/rand and math/rand/v2
// by a deterministic, harness-scriptable source.
package vrand

import (
	"math/rand"
)

// Source is what the harness installs per execution.
type Source interface {
	Uint32() uint32
	Float64() float64
}

// Src is the active source; nil = the real generator.
var Src Source

func Uint32() uint32 {
	if s := Src; s != nil {
		return s.Uint32()
	}
	return rand.Uint32()
}

func Float64() float64 {
	if s := Src; s != nil {
		return s.Float64()
	}
	return rand.Float64()
}

func Uint64() uint64 { return uint64(Uint32())<<32 | uint64(Uint32()) }
func Int63() int64   { return int64(Uint64() >> 1) }
func Int31() int32   { return int32(Uint32() >> 1) }
func Int() int       { return int(uint(Uint64()) >> 1) }
func Int64() int64   { return int64(Uint64() >> 1) }
func Int32() int32   { return int32(Uint32() >> 1) }

func Intn(n int) int {
	if n <= 0 {
		panic("invalid argument to Intn")
	}
	return int(Uint64() % uint64(n))
}
func IntN(n int) int       { return Intn(n) }
func Int63n(n int64) int64 { return int64(Uint64() % uint64(n)) }
func Int31n(n int32) int32 { return int32(Uint32() % uint32(n)) }
func Int64N(n int64) int64 { return Int63n(n) }
func Int32N(n int32) int32 { return Int31n(n) }
func Uint32N(n uint32) uint32 {
	return Uint32() % n
}
func Uint64N(n uint64) uint64 { return Uint64() % n }
func UintN(n uint) uint       { return uint(Uint64() % uint64(n)) }
func Float32() float32        { return float32(Float64()) }
func Seed(int64)              {}
func Shuffle(n int, swap func(i, j int)) {
	for i := n - 1; i > 0; i-- {
		swap(i, Intn(i+1))
	}
}
func Perm(n int) []int {
	p := make([]int, n)
	for i := range p {
		p[i] = i
	}
	Shuffle(n, func(i, j int) { p[i], p[j] = p[j], p[i] })
	return p
}
