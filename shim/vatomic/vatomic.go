// Package vatomic replaces the sync/atomic value types: each operation is a
// scheduling point followed by the real atomic operation (which the race
// detector models itself).
package vatomic

import (
	"sync/atomic"

	"verif/vsched"
)

type Uint32 struct{ a atomic.Uint32 }

func (x *Uint32) Load() uint32         { vsched.Yield("atomic.Load"); return x.a.Load() }
func (x *Uint32) Store(v uint32)       { vsched.Yield("atomic.Store"); x.a.Store(v) }
func (x *Uint32) Add(d uint32) uint32  { vsched.Yield("atomic.Add"); return x.a.Add(d) }
func (x *Uint32) Swap(v uint32) uint32 { vsched.Yield("atomic.Swap"); return x.a.Swap(v) }
func (x *Uint32) CompareAndSwap(o, n uint32) bool {
	vsched.Yield("atomic.CAS")
	return x.a.CompareAndSwap(o, n)
}

type Int32 struct{ a atomic.Int32 }

func (x *Int32) Load() int32        { vsched.Yield("atomic.Load"); return x.a.Load() }
func (x *Int32) Store(v int32)      { vsched.Yield("atomic.Store"); x.a.Store(v) }
func (x *Int32) Add(d int32) int32  { vsched.Yield("atomic.Add"); return x.a.Add(d) }
func (x *Int32) Swap(v int32) int32 { vsched.Yield("atomic.Swap"); return x.a.Swap(v) }
func (x *Int32) CompareAndSwap(o, n int32) bool {
	vsched.Yield("atomic.CAS")
	return x.a.CompareAndSwap(o, n)
}

type Uint64 struct{ a atomic.Uint64 }

func (x *Uint64) Load() uint64         { vsched.Yield("atomic.Load"); return x.a.Load() }
func (x *Uint64) Store(v uint64)       { vsched.Yield("atomic.Store"); x.a.Store(v) }
func (x *Uint64) Add(d uint64) uint64  { vsched.Yield("atomic.Add"); return x.a.Add(d) }
func (x *Uint64) Swap(v uint64) uint64 { vsched.Yield("atomic.Swap"); return x.a.Swap(v) }
func (x *Uint64) CompareAndSwap(o, n uint64) bool {
	vsched.Yield("atomic.CAS")
	return x.a.CompareAndSwap(o, n)
}

type Int64 struct{ a atomic.Int64 }

func (x *Int64) Load() int64        { vsched.Yield("atomic.Load"); return x.a.Load() }
func (x *Int64) Store(v int64)      { vsched.Yield("atomic.Store"); x.a.Store(v) }
func (x *Int64) Add(d int64) int64  { vsched.Yield("atomic.Add"); return x.a.Add(d) }
func (x *Int64) Swap(v int64) int64 { vsched.Yield("atomic.Swap"); return x.a.Swap(v) }
func (x *Int64) CompareAndSwap(o, n int64) bool {
	vsched.Yield("atomic.CAS")
	return x.a.CompareAndSwap(o, n)
}

type Bool struct{ a atomic.Bool }

func (x *Bool) Load() bool       { vsched.Yield("atomic.Load"); return x.a.Load() }
func (x *Bool) Store(v bool)     { vsched.Yield("atomic.Store"); x.a.Store(v) }
func (x *Bool) Swap(v bool) bool { vsched.Yield("atomic.Swap"); return x.a.Swap(v) }
func (x *Bool) CompareAndSwap(o, n bool) bool {
	vsched.Yield("atomic.CAS")
	return x.a.CompareAndSwap(o, n)
}

type Pointer[T any] struct{ a atomic.Pointer[T] }

func (x *Pointer[T]) Load() *T     { vsched.Yield("atomic.Load"); return x.a.Load() }
func (x *Pointer[T]) Store(v *T)   { vsched.Yield("atomic.Store"); x.a.Store(v) }
func (x *Pointer[T]) Swap(v *T) *T { vsched.Yield("atomic.Swap"); return x.a.Swap(v) }
func (x *Pointer[T]) CompareAndSwap(o, n *T) bool {
	vsched.Yield("atomic.CAS")
	return x.a.CompareAndSwap(o, n)
}

type Value struct{ a atomic.Value }

func (x *Value) Load() any   { vsched.Yield("atomic.Load"); return x.a.Load() }
func (x *Value) Store(v any) { vsched.Yield("atomic.Store"); x.a.Store(v) }

// function forms
func AddUint32(p *uint32, d uint32) uint32 { vsched.Yield("atomic.Add"); return atomic.AddUint32(p, d) }
func AddInt32(p *int32, d int32) int32     { vsched.Yield("atomic.Add"); return atomic.AddInt32(p, d) }
func AddUint64(p *uint64, d uint64) uint64 { vsched.Yield("atomic.Add"); return atomic.AddUint64(p, d) }
func AddInt64(p *int64, d int64) int64     { vsched.Yield("atomic.Add"); return atomic.AddInt64(p, d) }
func LoadUint32(p *uint32) uint32          { vsched.Yield("atomic.Load"); return atomic.LoadUint32(p) }
func LoadInt32(p *int32) int32             { vsched.Yield("atomic.Load"); return atomic.LoadInt32(p) }
func LoadUint64(p *uint64) uint64          { vsched.Yield("atomic.Load"); return atomic.LoadUint64(p) }
func LoadInt64(p *int64) int64             { vsched.Yield("atomic.Load"); return atomic.LoadInt64(p) }
func StoreUint32(p *uint32, v uint32)      { vsched.Yield("atomic.Store"); atomic.StoreUint32(p, v) }
func StoreInt32(p *int32, v int32)         { vsched.Yield("atomic.Store"); atomic.StoreInt32(p, v) }
func StoreUint64(p *uint64, v uint64)      { vsched.Yield("atomic.Store"); atomic.StoreUint64(p, v) }
func StoreInt64(p *int64, v int64)         { vsched.Yield("atomic.Store"); atomic.StoreInt64(p, v) }
func CompareAndSwapUint32(p *uint32, o, n uint32) bool {
	vsched.Yield("atomic.CAS")
	return atomic.CompareAndSwapUint32(p, o, n)
}
func CompareAndSwapInt32(p *int32, o, n int32) bool {
	vsched.Yield("atomic.CAS")
	return atomic.CompareAndSwapInt32(p, o, n)
}
func CompareAndSwapUint64(p *uint64, o, n uint64) bool {
	vsched.Yield("atomic.CAS")
	return atomic.CompareAndSwapUint64(p, o, n)
}
func CompareAndSwapInt64(p *int64, o, n int64) bool {
	vsched.Yield("atomic.CAS")
	return atomic.CompareAndSwapInt64(p, o, n)
}

// And / Or (Go 1.23) and the remaining value types
func (x *Uint32) And(m uint32) uint32 { vsched.Yield("atomic.And"); return x.a.And(m) }
func (x *Uint32) Or(m uint32) uint32  { vsched.Yield("atomic.Or"); return x.a.Or(m) }
func (x *Int32) And(m int32) int32    { vsched.Yield("atomic.And"); return x.a.And(m) }
func (x *Int32) Or(m int32) int32     { vsched.Yield("atomic.Or"); return x.a.Or(m) }
func (x *Uint64) And(m uint64) uint64 { vsched.Yield("atomic.And"); return x.a.And(m) }
func (x *Uint64) Or(m uint64) uint64  { vsched.Yield("atomic.Or"); return x.a.Or(m) }
func (x *Int64) And(m int64) int64    { vsched.Yield("atomic.And"); return x.a.And(m) }
func (x *Int64) Or(m int64) int64     { vsched.Yield("atomic.Or"); return x.a.Or(m) }

type Uintptr struct{ a atomic.Uintptr }

func (x *Uintptr) Load() uintptr          { vsched.Yield("atomic.Load"); return x.a.Load() }
func (x *Uintptr) Store(v uintptr)        { vsched.Yield("atomic.Store"); x.a.Store(v) }
func (x *Uintptr) Add(d uintptr) uintptr  { vsched.Yield("atomic.Add"); return x.a.Add(d) }
func (x *Uintptr) Swap(v uintptr) uintptr { vsched.Yield("atomic.Swap"); return x.a.Swap(v) }
func (x *Uintptr) CompareAndSwap(o, n uintptr) bool {
	vsched.Yield("atomic.CAS")
	return x.a.CompareAndSwap(o, n)
}

func (x *Value) Swap(v any) any { vsched.Yield("atomic.Swap"); return x.a.Swap(v) }
func (x *Value) CompareAndSwap(o, n any) bool {
	vsched.Yield("atomic.CAS")
	return x.a.CompareAndSwap(o, n)
}

func SwapUint32(p *uint32, v uint32) uint32 {
	vsched.Yield("atomic.Swap")
	return atomic.SwapUint32(p, v)
}
func SwapInt32(p *int32, v int32) int32 { vsched.Yield("atomic.Swap"); return atomic.SwapInt32(p, v) }
func SwapUint64(p *uint64, v uint64) uint64 {
	vsched.Yield("atomic.Swap")
	return atomic.SwapUint64(p, v)
}
func SwapInt64(p *int64, v int64) int64 { vsched.Yield("atomic.Swap"); return atomic.SwapInt64(p, v) }
