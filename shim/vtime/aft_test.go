package vtime_test

import (
	"context"
	"testing"
	"time"

	"verif/shim/vctx"
	"verif/shim/vtime"
	"verif/vsched"
)

func TestAfterFuncTickerCtxAfterFunc(t *testing.T) {
	var log []string
	x := vsched.Run(vsched.Config{MaxVirtual: time.Minute}, nil, func() {
		tm := vtime.AfterFunc(50*time.Millisecond, func() { log = append(log, "af@"+time.Duration(vsched.Now()).String()) })
		tm.Reset(80 * time.Millisecond)
		tk := vtime.NewTicker(30 * time.Millisecond)
		n := 0
		for range 3 {
			<-vsched.RecvCh(tk.C)
			n++
		}
		tk.Stop()
		log = append(log, "ticks@"+time.Duration(vsched.Now()).String())
		ctx, cancel := vctx.WithTimeout(vctx.Background(), 20*time.Millisecond)
		defer cancel()
		stop := vctx.AfterFunc(ctx, func() { log = append(log, "ctxaf@"+time.Duration(vsched.Now()).String()) })
		_ = stop
		vtime.Sleep(100 * time.Millisecond)
		ctx2, cancel2 := vctx.WithCancel(context.Context(vctx.Background()))
		stop2 := vctx.AfterFunc(ctx2, func() { log = append(log, "never") })
		if !stop2() {
			log = append(log, "stop2-false")
		}
		cancel2()
		vtime.Sleep(time.Millisecond)
	})
	t.Log(x.Outcome, log)
	want := []string{"af@80ms", "ticks@90ms", "ctxaf@110ms"}
	if len(log) != len(want) {
		t.Fatalf("got %v want %v", log, want)
	}
	for i := range want {
		if log[i] != want[i] {
			t.Fatalf("got %v want %v", log, want)
		}
	}
}
