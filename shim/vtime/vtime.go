// Package vtime replaces the clock-reading and waiting functions of package time
// by the scheduler's virtual clock. Types and constants stay time.*.
package vtime

import (
	"time"
	"unsafe"

	"verif/vsched"
)

// WallStep: from virtual instant WallStepAtNs on, the WALL clock reads WallStepSec seconds more (or less) than it would
// have - an NTP step, `date -s`, a resumed VM - while the monotonic clock runs on undisturbed. Set by the harness for
// one execution (0 = no step). Times read before and after the step still subtract correctly as long as they keep
// their monotonic reading, which is how package time protects elapsed-time measurements from such steps.
var WallStepAtNs, WallStepSec int64

// WallStepSupported: the layout assumption behind stepWall holds for this toolchain (checked at start-up).
var WallStepSupported bool

type timeLayout struct {
	wall uint64 // hasMonotonic:1 | seconds since 1885:33 | nanoseconds:30   (when the top bit is set)
	ext  int64
	loc  *time.Location
}

//go:norace
func stepWall(t time.Time, sec int64) time.Time {
	p := (*timeLayout)(unsafe.Pointer(&t))
	if p.wall>>63 != 0 {
		p.wall += uint64(sec) << 30
	}
	return t
}

func init() {
	if unsafe.Sizeof(time.Time{}) != unsafe.Sizeof(timeLayout{}) {
		return
	}
	t := time.Now()
	u := stepWall(t, 10)
	WallStepSupported = u.Sub(t) == 0 && u.Round(0).Sub(t.Round(0)) == 10*time.Second && stepWall(u, -10).Round(0).Equal(t.Round(0))
}

//go:norace
func Now() time.Time {
	if vsched.Active() == nil {
		return time.Now()
	}
	t := vsched.Base().Add(time.Duration(vsched.Now()))
	if WallStepSec != 0 && WallStepSupported && vsched.Now() >= WallStepAtNs {
		t = stepWall(t, WallStepSec)
	}
	return t
}

func Since(t time.Time) time.Duration { return Now().Sub(t) }
func Until(t time.Time) time.Duration { return t.Sub(Now()) }

// ToVirtual converts an absolute time to virtual nanoseconds.
//
//go:norace
func ToVirtual(t time.Time) int64 { return int64(t.Sub(vsched.Base())) }

func Sleep(d time.Duration) {
	if vsched.Aborting() {
		return
	}
	if !vsched.InThread() {
		time.Sleep(d)
		return
	}
	if d < 0 {
		d = 0
	}
	vsched.Block(vsched.Never, vsched.Now()+int64(d), "sleep")
}

type chanFire struct {
	ch chan time.Time
	at int64
}

//go:norace
func (c *chanFire) Fire() {
	select {
	case c.ch <- vsched.Base().Add(time.Duration(c.at)):
	default:
	}
}

func After(d time.Duration) <-chan time.Time {
	if !vsched.InThread() {
		return time.After(d)
	}
	return NewTimer(d).C
}

// Timer mirrors time.Timer (field C, Stop, Reset).
type Timer struct {
	C    <-chan time.Time
	c    chan time.Time
	tm   *vsched.Timer
	real *time.Timer
	f    func()
	tok  byte
}

// funcFire: the timer of an AfterFunc fires - f runs in a managed thread of its own; what happened before the AfterFunc
// (or Reset) call happens before f.
type funcFire struct{ t *Timer }

//go:norace
func (ff *funcFire) Fire() {
	t := ff.t
	vsched.Spawn(func() {
		vsched.RaceAcquire(unsafe.Pointer(&t.tok))
		t.f()
	})
}

func NewTimer(d time.Duration) *Timer {
	if !vsched.InThread() {
		rt := time.NewTimer(d)
		return &Timer{C: rt.C, real: rt}
	}
	if d < 0 {
		d = 0
	}
	c := make(chan time.Time, 1)
	at := vsched.Now() + int64(d)
	return &Timer{C: c, c: c, tm: vsched.AddTimer(at, &chanFire{c, at})}
}

// AfterFunc runs f in its own managed thread when the timer fires.
func AfterFunc(d time.Duration, f func()) *Timer {
	if !vsched.InThread() {
		return &Timer{real: time.AfterFunc(d, f)}
	}
	if d < 0 {
		d = 0
	}
	t := &Timer{f: f}
	vsched.RaceRelease(unsafe.Pointer(&t.tok))
	t.tm = vsched.AddTimer(vsched.Now()+int64(d), &funcFire{t})
	return t
}

func (t *Timer) Stop() bool {
	if t.real != nil {
		return t.real.Stop()
	}
	if t.tm == nil {
		return false
	}
	return t.tm.Stop()
}

func (t *Timer) Reset(d time.Duration) bool {
	if t.real != nil {
		return t.real.Reset(d)
	}
	was := t.tm.Stop()
	if !vsched.InThread() {
		return was
	}
	if d < 0 {
		d = 0
	}
	at := vsched.Now() + int64(d)
	if t.f != nil {
		vsched.RaceRelease(unsafe.Pointer(&t.tok))
		t.tm = vsched.AddTimer(at, &funcFire{t})
		return was
	}
	// like Go 1.23+ timers: a Reset discards a stale value
	select {
	case <-t.c:
	default:
	}
	t.tm = vsched.AddTimer(at, &chanFire{t.c, at})
	return was
}

// Ticker mirrors time.Ticker.
type Ticker struct {
	C       <-chan time.Time
	real    *time.Ticker
	c       chan time.Time
	d       int64
	tm      *vsched.Timer
	stopped bool
}

type tickFire struct {
	tk *Ticker
	at int64
}

//go:norace
func (f *tickFire) Fire() {
	tk := f.tk
	if tk.stopped {
		return
	}
	select {
	case tk.c <- vsched.Base().Add(time.Duration(f.at)): // (a slow receiver misses ticks, as with the real ticker)
	default:
	}
	next := f.at + tk.d
	tk.tm = vsched.AddTimer(next, &tickFire{tk, next})
}

func NewTicker(d time.Duration) *Ticker {
	if !vsched.InThread() {
		rt := time.NewTicker(d)
		return &Ticker{C: rt.C, real: rt}
	}
	if d <= 0 {
		panic("non-positive interval for NewTicker")
	}
	c := make(chan time.Time, 1)
	tk := &Ticker{C: c, c: c, d: int64(d)}
	at := vsched.Now() + int64(d)
	tk.tm = vsched.AddTimer(at, &tickFire{tk, at})
	return tk
}

func (t *Ticker) Stop() {
	if t.real != nil {
		t.real.Stop()
		return
	}
	t.stopped = true
	if t.tm != nil {
		t.tm.Stop()
	}
}

func (t *Ticker) Reset(d time.Duration) {
	if t.real != nil {
		t.real.Reset(d)
		return
	}
	if d <= 0 {
		panic("non-positive interval for Ticker.Reset")
	}
	if t.tm != nil {
		t.tm.Stop()
	}
	t.stopped, t.d = false, int64(d)
	if !vsched.InThread() {
		return
	}
	at := vsched.Now() + int64(d)
	t.tm = vsched.AddTimer(at, &tickFire{t, at})
}

func Tick(d time.Duration) <-chan time.Time { return NewTicker(d).C }
