// Package vtime replaces the clock-reading and waiting functions of package time
// by the scheduler's virtual clock. Types and constants stay time.*.
package vtime

import (
	"time"
	"unsafe"

	"verif/vsched"
)

// WallStep: from virtual instant WallStepAtNs on, the WALL clock reads WallStepSec seconds more (or less) than it would
// have - an NTP step, `date -s`, a resumed VM - while the monotonic clock runs on undisturbed. Set by the harness for
// one execution (0 = no step). Times read before and after the step still subtract correctly as long as they keep
// their monotonic reading, which is how package time protects elapsed-time measurements from such steps.
var WallStepAtNs, WallStepSec int64

// WallStepSupported: the layout assumption behind stepWall holds for this toolchain (checked at start-up).
var WallStepSupported bool

type timeLayout struct {
	wall uint64 // hasMonotonic:1 | seconds since 1885:33 | nanoseconds:30   (when the top bit is set)
	ext  int64
	loc  *time.Location
}

//go:norace
func stepWall(t time.Time, sec int64) time.Time {
	p := (*timeLayout)(unsafe.Pointer(&t))
	if p.wall>>63 != 0 {
		p.wall += uint64(sec) << 30
	}
	return t
}

func init() {
	if unsafe.Sizeof(time.Time{}) != unsafe.Sizeof(timeLayout{}) {
		return
	}
	t := time.Now()
	u := stepWall(t, 10)
	WallStepSupported = u.Sub(t) == 0 && u.Round(0).Sub(t.Round(0)) == 10*time.Second && stepWall(u, -10).Round(0).Equal(t.Round(0))
}

//go:norace
func Now() time.Time {
	if vsched.Active() == nil {
		return time.Now()
	}
	t := vsched.Base().Add(time.Duration(vsched.Now()))
	if WallStepSec != 0 && WallStepSupported && vsched.Now() >= WallStepAtNs {
		t = stepWall(t, WallStepSec)
	}
	return t
}

func Since(t time.Time) time.Duration { return Now().Sub(t) }
func Until(t time.Time) time.Duration { return t.Sub(Now()) }

// ToVirtual converts an absolute time to virtual nanoseconds.
//
//go:norace
func ToVirtual(t time.Time) int64 { return int64(t.Sub(vsched.Base())) }

func Sleep(d time.Duration) {
	if vsched.Aborting() {
		return
	}
	if !vsched.InThread() {
		time.Sleep(d)
		return
	}
	if d < 0 {
		d = 0
	}
	vsched.Block(vsched.Never, vsched.Now()+int64(d), "sleep")
}

type chanFire struct {
	ch chan time.Time
	at int64
}

//go:norace
func (c *chanFire) Fire() {
	select {
	case c.ch <- vsched.Base().Add(time.Duration(c.at)):
	default:
	}
}

func After(d time.Duration) <-chan time.Time {
	if !vsched.InThread() {
		return time.After(d)
	}
	return NewTimer(d).C
}

// Timer mirrors time.Timer (field C, Stop, Reset).
type Timer struct {
	C    <-chan time.Time
	c    chan time.Time
	tm   *vsched.Timer
	real *time.Timer
	f    func()
}

func NewTimer(d time.Duration) *Timer {
	if !vsched.InThread() {
		rt := time.NewTimer(d)
		return &Timer{C: rt.C, real: rt}
	}
	if d < 0 {
		d = 0
	}
	c := make(chan time.Time, 1)
	at := vsched.Now() + int64(d)
	return &Timer{C: c, c: c, tm: vsched.AddTimer(at, &chanFire{c, at})}
}

type funcFire struct{ f func() }

func (ff *funcFire) Fire() { vsched.Go(ff.f) }

// AfterFunc runs f in its own managed thread when the timer fires.
func AfterFunc(d time.Duration, f func()) *Timer {
	if !vsched.InThread() {
		return &Timer{real: time.AfterFunc(d, f)}
	}
	panic("vtime.AfterFunc is not modelled")
}

func (t *Timer) Stop() bool {
	if t.real != nil {
		return t.real.Stop()
	}
	if t.tm == nil {
		return false
	}
	return t.tm.Stop()
}

func (t *Timer) Reset(d time.Duration) bool {
	if t.real != nil {
		return t.real.Reset(d)
	}
	was := t.tm.Stop()
	// like Go 1.23+ timers: a Reset discards a stale value
	select {
	case <-t.c:
	default:
	}
	if !vsched.InThread() {
		return was
	}
	if d < 0 {
		d = 0
	}
	at := vsched.Now() + int64(d)
	t.tm = vsched.AddTimer(at, &chanFire{t.c, at})
	return was
}

// Ticker mirrors time.Ticker.
type Ticker struct {
	C    <-chan time.Time
	real *time.Ticker
}

func NewTicker(d time.Duration) *Ticker {
	if !vsched.InThread() {
		rt := time.NewTicker(d)
		return &Ticker{C: rt.C, real: rt}
	}
	panic("vtime.NewTicker is not modelled inside executions")
}

func (t *Ticker) Stop() {
	if t.real != nil {
		t.real.Stop()
	}
}

func (t *Ticker) Reset(d time.Duration) {
	if t.real != nil {
		t.real.Reset(d)
	}
}

func Tick(d time.Duration) <-chan time.Time { return NewTicker(d).C }
