// Package vtime replaces the clock-reading and waiting functions of package time
// by the scheduler's virtual clock. Types and constants stay time.*.
package vtime

import (
	"time"

	"verif/vsched"
)

//go:norace
func Now() time.Time {
	if vsched.Active() == nil {
		return time.Now()
	}
	return vsched.Base().Add(time.Duration(vsched.Now()))
}

func Since(t time.Time) time.Duration { return Now().Sub(t) }
func Until(t time.Time) time.Duration { return t.Sub(Now()) }

// ToVirtual converts an absolute time to virtual nanoseconds.
//
//go:norace
func ToVirtual(t time.Time) int64 { return int64(t.Sub(vsched.Base())) }

func Sleep(d time.Duration) {
	if vsched.Aborting() {
		return
	}
	if !vsched.InThread() {
		time.Sleep(d)
		return
	}
	if d < 0 {
		d = 0
	}
	vsched.Block(vsched.Never, vsched.Now()+int64(d), "sleep")
}

type chanFire struct {
	ch chan time.Time
	at int64
}

//go:norace
func (c *chanFire) Fire() {
	select {
	case c.ch <- vsched.Base().Add(time.Duration(c.at)):
	default:
	}
}

func After(d time.Duration) <-chan time.Time {
	if !vsched.InThread() {
		return time.After(d)
	}
	return NewTimer(d).C
}

// Timer mirrors time.Timer (field C, Stop, Reset).
type Timer struct {
	C    <-chan time.Time
	c    chan time.Time
	tm   *vsched.Timer
	real *time.Timer
	f    func()
}

func NewTimer(d time.Duration) *Timer {
	if !vsched.InThread() {
		rt := time.NewTimer(d)
		return &Timer{C: rt.C, real: rt}
	}
	if d < 0 {
		d = 0
	}
	c := make(chan time.Time, 1)
	at := vsched.Now() + int64(d)
	return &Timer{C: c, c: c, tm: vsched.AddTimer(at, &chanFire{c, at})}
}

type funcFire struct{ f func() }

func (ff *funcFire) Fire() { vsched.Go(ff.f) }

// AfterFunc runs f in its own managed thread when the timer fires.
func AfterFunc(d time.Duration, f func()) *Timer {
	if !vsched.InThread() {
		return &Timer{real: time.AfterFunc(d, f)}
	}
	panic("vtime.AfterFunc is not modelled")
}

func (t *Timer) Stop() bool {
	if t.real != nil {
		return t.real.Stop()
	}
	if t.tm == nil {
		return false
	}
	return t.tm.Stop()
}

func (t *Timer) Reset(d time.Duration) bool {
	if t.real != nil {
		return t.real.Reset(d)
	}
	was := t.tm.Stop()
	// like Go 1.23+ timers: a Reset discards a stale value
	select {
	case <-t.c:
	default:
	}
	if !vsched.InThread() {
		return was
	}
	if d < 0 {
		d = 0
	}
	at := vsched.Now() + int64(d)
	t.tm = vsched.AddTimer(at, &chanFire{t.c, at})
	return was
}

// Ticker mirrors time.Ticker.
type Ticker struct {
	C    <-chan time.Time
	real *time.Ticker
}

func NewTicker(d time.Duration) *Ticker {
	if !vsched.InThread() {
		rt := time.NewTicker(d)
		return &Ticker{C: rt.C, real: rt}
	}
	panic("vtime.NewTicker is not modelled inside executions")
}

func (t *Ticker) Stop() {
	if t.real != nil {
		t.real.Stop()
	}
}

func (t *Ticker) Reset(d time.Duration) {
	if t.real != nil {
		t.real.Reset(d)
	}
}

func Tick(d time.Duration) <-chan time.Time { return NewTicker(d).C }
