// Package vnet stands in for the one blocking call of package net the code under test makes outside the capture
// handles: net.Dialer.DialContext (the SACK variant's TCP connect). A connect to the harness's listener is the real kernel
// connect (it completes at once on loopback; a closed port refuses at once). A connect the scenario declares a black hole
// (the SYN is silently dropped, nothing ever comes back) is modelled on the virtual clock: it ends at the earliest of the
// dialer's Timeout, its Deadline, the context's deadline and the context's cancellation - exactly the instants the real
// dialer would give up at - and returns a timeout / the context's error.
package vnet

import (
	"context"
	"errors"
	"net"
	"os"
	"syscall"
	"time"

	"verif/shim/vtime"
	"verif/vsched"
)

// Dialer mirrors net.Dialer field by field (composite literals of the code under test keep compiling).
type Dialer struct {
	Timeout         time.Duration
	Deadline        time.Time
	LocalAddr       net.Addr
	DualStack       bool
	FallbackDelay   time.Duration
	KeepAlive       time.Duration
	KeepAliveConfig net.KeepAliveConfig
	Resolver        *net.Resolver
	Cancel          <-chan struct{}
	Control         func(network, address string, c syscall.RawConn) error
	ControlContext  func(ctx context.Context, network, address string, c syscall.RawConn) error
}

// Blackhole is set by the harness per execution: does a connect to this address never complete?
var Blackhole func(network, address string) bool

// Dials counts the connects attempted (black holes included) since the harness last reset it.
var Dials int

type doneW struct{ ch <-chan struct{} }

func (w doneW) Ready() bool {
	select {
	case <-w.ch:
		return true
	default:
		return false
	}
}

// the error values package net itself returns for a connect that ran out of time / whose context was cancelled (they
// answer errors.Is(err, context.DeadlineExceeded) resp. context.Canceled, which callers do test): obtained once from the
// real dialer with a context that is already over
var errDialTimeout, errDialCanceled = func() (error, error) {
	inner := func(ctx context.Context) error {
		_, err := (&net.Dialer{}).DialContext(ctx, "tcp", "127.0.0.1:9")
		var oe *net.OpError
		if errors.As(err, &oe) && oe.Err != nil {
			return oe.Err
		}
		return err
	}
	dctx, c1 := context.WithDeadline(context.Background(), time.Unix(1, 0))
	defer c1()
	cctx, c2 := context.WithCancel(context.Background())
	c2()
	return inner(dctx), inner(cctx)
}()

func dialErr(network string, ctxErr error) error {
	e := errDialTimeout
	if ctxErr == context.Canceled {
		e = errDialCanceled
	}
	return &net.OpError{Op: "dial", Net: network, Err: e}
}

func (d *Dialer) Dial(network, address string) (net.Conn, error) {
	return d.DialContext(context.Background(), network, address)
}

func (d *Dialer) DialContext(ctx context.Context, network, address string) (net.Conn, error) {
	if vsched.Aborting() {
		return nil, os.ErrDeadlineExceeded
	}
	if !vsched.InThread() {
		r := net.Dialer{Timeout: d.Timeout, Deadline: d.Deadline, LocalAddr: d.LocalAddr, KeepAlive: d.KeepAlive, Control: d.Control, ControlContext: d.ControlContext}
		return r.DialContext(ctx, network, address)
	}
	vsched.Yield("net.Dial")
	Dials++
	if Blackhole != nil && Blackhole(network, address) {
		end := int64(-1)
		consider := func(t time.Time) {
			ns := int64(t.Sub(vtime.Now())) + vsched.Now()
			if end < 0 || ns < end {
				end = ns
			}
		}
		if d.Timeout > 0 {
			consider(vtime.Now().Add(d.Timeout))
		}
		if !d.Deadline.IsZero() {
			consider(d.Deadline)
		}
		if dl, ok := ctx.Deadline(); ok {
			consider(dl)
		}
		var w vsched.Waiter = vsched.Never
		if ch := ctx.Done(); ch != nil {
			w = doneW{ch}
		}
		vsched.Block(w, end, "tcp connect: the SYN is never answered")
		if vsched.Aborting() {
			return nil, os.ErrDeadlineExceeded
		}
		if err := ctx.Err(); err == context.Canceled {
			return nil, dialErr(network, err)
		}
		return nil, dialErr(network, context.DeadlineExceeded)
	}
	// like the real dialer: a context that is already over ends the connect before it starts
	if err := ctx.Err(); err != nil {
		return nil, dialErr(network, err)
	}
	if !d.Deadline.IsZero() && !vtime.Now().Before(d.Deadline) {
		return nil, dialErr(network, context.DeadlineExceeded)
	}
	// the real connect, in real time, independent of the virtual deadlines (generous real-time patience: a loaded machine
	// must not turn it into a failure); a closed port refuses at once
	r := net.Dialer{Timeout: 20 * time.Second, LocalAddr: d.LocalAddr, KeepAlive: d.KeepAlive, Control: d.Control, ControlContext: d.ControlContext}
	return r.DialContext(context.Background(), network, address)
}
