package vnet

import (
	"context"
	"errors"
	"testing"
)

func TestDialErrValues(t *testing.T) {
	if !errors.Is(dialErr("tcp", context.DeadlineExceeded), context.DeadlineExceeded) {
		t.Fatalf("timeout error does not match context.DeadlineExceeded: %v", errDialTimeout)
	}
	if !errors.Is(dialErr("tcp", context.Canceled), context.Canceled) {
		t.Fatalf("canceled error does not match context.Canceled: %v", errDialCanceled)
	}
	t.Log(errDialTimeout, "|", errDialCanceled)
}
