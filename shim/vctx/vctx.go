// Package vctx replaces the context constructors. Contexts it creates are
// ordinary context.Context values (un-instrumented code can use them), whose
// deadlines run on the virtual clock and whose Err/cancel are scheduling points.
package vctx

import (
	"context"
	"time"
	"unsafe"

	"verif/shim/vtime"
	"verif/vsched"
)

// rootOverride: per managed thread, the context that context.Background() yields while WithRoot's function runs on it.
var rootOverride = map[int]context.Context{}

// WithRoot runs fn on the current thread with ctx standing in for every context.Background() the code under test
// asks for on that thread: the counterfactual "this run's root context is the caller's" for entry points that start
// their engine on context.Background() (udp and tcp Traceroute): the engine and the real driver are then cancellable.
func WithRoot(ctx context.Context, fn func()) {
	id := vsched.CurrentThread()
	rootOverride[id] = ctx
	defer delete(rootOverride, id)
	fn()
}

func Background() context.Context {
	if len(rootOverride) > 0 {
		if ctx, ok := rootOverride[vsched.CurrentThread()]; ok {
			return ctx
		}
	}
	return context.Background()
}
func TODO() context.Context { return context.TODO() }

type CancelFunc = context.CancelFunc
type CancelCauseFunc = context.CancelCauseFunc

type vc struct {
	parent   context.Context
	done     chan struct{}
	err      error
	cause    error
	deadline time.Time
	hasDl    bool
	children []*vc
	after    []*afterFn
	tm       *vsched.Timer
	tok      byte
}

//go:norace
func (c *vc) Deadline() (time.Time, bool) {
	if c.hasDl {
		return c.deadline, true
	}
	return c.parent.Deadline()
}

func (c *vc) Done() <-chan struct{} { return c.done }

//go:norace
func (c *vc) Err() error {
	vsched.Yield("ctx.Err")
	e := c.err
	if e != nil {
		vsched.RaceAcquire(unsafe.Pointer(&c.tok))
	}
	return e
}

func (c *vc) Value(k any) any { return c.parent.Value(k) }

func (c *vc) String() string { return "vctx" }

// findParent finds the nearest *vc ancestor reachable through this package's types.
func findParent(p context.Context) *vc {
	for {
		switch x := p.(type) {
		case *vc:
			return x
		case *valueCtx:
			p = x.Context
		default:
			return nil
		}
	}
}

//go:norace
func (c *vc) cancel(err, cause error) {
	if c.err != nil {
		return
	}
	if cause == nil {
		cause = err
	}
	vsched.RaceRelease(unsafe.Pointer(&c.tok))
	c.err = err
	c.cause = cause
	if vsched.Active() != nil {
		vsched.MarkClosed(c.done)
	}
	close(c.done)
	if c.tm != nil {
		c.tm.Stop()
	}
	for _, a := range c.after {
		a.run()
	}
	c.after = nil
	for _, ch := range c.children {
		ch.cancel(err, cause)
	}
	c.children = nil
}

type dlFire struct{ c *vc }

//go:norace
func (d *dlFire) Fire() { d.c.cancel(context.DeadlineExceeded, nil) }

func newChild(parent context.Context) (*vc, bool) {
	if parent == nil {
		panic("cannot create context from nil parent")
	}
	c := &vc{parent: parent, done: make(chan struct{})}
	if p := findParent(parent); p != nil {
		if p.err != nil {
			c.cancel(p.err, p.cause)
			return c, false
		}
		p.children = append(p.children, c)
	} else if parent.Done() != nil {
		// a cancellable context that was not made by this package: follow it with a real goroutine
		// (only outside executions; inside, the harness never passes one)
		if vsched.InThread() {
			if parent.Err() != nil {
				c.cancel(parent.Err(), context.Cause(parent))
				return c, false
			}
			panic("vctx: foreign cancellable parent context inside an execution")
		}
		go func() {
			select {
			case <-parent.Done():
				c.cancel(parent.Err(), context.Cause(parent))
			case <-c.done:
			}
		}()
	}
	return c, true
}

func WithCancel(parent context.Context) (context.Context, context.CancelFunc) {
	c, _ := newChild(parent)
	return c, func() {
		if vsched.Aborting() {
			return
		}
		vsched.Yield("ctx.cancel")
		c.cancel(context.Canceled, nil)
	}
}

func WithCancelCause(parent context.Context) (context.Context, context.CancelCauseFunc) {
	c, _ := newChild(parent)
	return c, func(cause error) {
		if vsched.Aborting() {
			return
		}
		vsched.Yield("ctx.cancel")
		c.cancel(context.Canceled, cause)
	}
}

func WithDeadline(parent context.Context, d time.Time) (context.Context, context.CancelFunc) {
	return WithDeadlineCause(parent, d, nil)
}

func WithDeadlineCause(parent context.Context, d time.Time, cause error) (context.Context, context.CancelFunc) {
	if !vsched.InThread() {
		return context.WithDeadlineCause(parent, d, cause)
	}
	c, live := newChild(parent)
	cancel := func() {
		if vsched.Aborting() {
			return
		}
		vsched.Yield("ctx.cancel")
		c.cancel(context.Canceled, nil)
	}
	if cur, ok := parent.Deadline(); ok && cur.Before(d) {
		return c, cancel // the parent's earlier deadline governs
	}
	c.deadline, c.hasDl = d, true
	if !live {
		return c, cancel
	}
	at := vtime.ToVirtual(d)
	if at <= vsched.Now() {
		c.cancel(context.DeadlineExceeded, cause)
		return c, cancel
	}
	c.tm = vsched.AddTimer(at, &dlFire{c})
	return c, cancel
}

func WithTimeout(parent context.Context, d time.Duration) (context.Context, context.CancelFunc) {
	return WithDeadline(parent, vtime.Now().Add(d))
}

func WithTimeoutCause(parent context.Context, d time.Duration, cause error) (context.Context, context.CancelFunc) {
	return WithDeadlineCause(parent, vtime.Now().Add(d), cause)
}

//go:norace
func Cause(c context.Context) error {
	if p := findParent(c); p != nil {
		vsched.Yield("ctx.Cause")
		if p.err != nil {
			vsched.RaceAcquire(unsafe.Pointer(&p.tok))
		}
		return p.cause
	}
	return context.Cause(c)
}

type valueCtx struct {
	context.Context
	k, v any
}

func (v *valueCtx) Value(k any) any {
	if k == v.k {
		return v.v
	}
	return v.Context.Value(k)
}

func WithValue(parent context.Context, k, v any) context.Context {
	return &valueCtx{parent, k, v}
}

func WithoutCancel(parent context.Context) context.Context { return context.WithoutCancel(parent) }

// AfterFunc: f runs in a managed thread of its own once ctx is done (at once if it already is); stop reports whether it
// prevented that. Modelled for contexts made by this package (every context of an instrumented execution is).
func AfterFunc(ctx context.Context, f func()) (stop func() bool) {
	p := findParent(ctx)
	if p == nil {
		if ctx.Done() == nil {
			return func() bool { return true } // never done: f never runs
		}
		panic("vctx.AfterFunc on a context that was not made under instrumentation")
	}
	a := &afterFn{f: f}
	vsched.RaceRelease(unsafe.Pointer(&a.tok))
	if p.err != nil {
		a.run()
		return func() bool { return false }
	}
	p.after = append(p.after, a)
	return func() bool {
		vsched.Yield("ctx.AfterFunc.stop")
		if a.started || a.stopped {
			return false
		}
		a.stopped = true
		return true
	}
}

type afterFn struct {
	f                func()
	started, stopped bool
	tok              byte
}

//go:norace
func (a *afterFn) run() {
	if a.started || a.stopped {
		return
	}
	a.started = true
	vsched.Spawn(func() {
		vsched.RaceAcquire(unsafe.Pointer(&a.tok))
		a.f()
	})
}

type cancelFire struct{ c *vc }

//go:norace
func (d *cancelFire) Fire() { d.c.cancel(context.Canceled, nil) }

// WithCancelAt is a harness helper: a cancellable context that is cancelled (as
// if by its owner calling cancel) when the virtual clock reaches at.
func WithCancelAt(parent context.Context, at int64) (context.Context, context.CancelFunc) {
	ctx, cancel := WithCancel(parent)
	c := ctx.(*vc)
	if c.err == nil {
		vsched.AddTimer(at, &cancelFire{c})
	}
	return ctx, cancel
}
