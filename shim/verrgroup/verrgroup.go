// Package verrgroup replaces golang.org/x/sync/errgroup.
package verrgroup

import (
	"context"
	"unsafe"

	"verif/shim/vctx"
	"verif/vsched"
)

type Group struct {
	cancel func(error)
	n      int
	err    error
	hasErr bool
	limit  int
}

//go:norace
func (g *Group) Ready() bool { return g.n == 0 }

func WithContext(ctx context.Context) (*Group, context.Context) {
	c, cancel := vctx.WithCancelCause(ctx)
	return &Group{cancel: cancel}, c
}

func (g *Group) SetLimit(n int) { g.limit = n }

//go:norace
func (g *Group) add(d int) { g.n += d }

//go:norace
func (g *Group) setErr(err error) bool {
	if g.hasErr {
		return false
	}
	g.hasErr = true
	g.err = err
	return true
}

//go:norace
func (g *Group) getErr() error { return g.err }

func (g *Group) Go(f func() error) {
	if vsched.Aborting() {
		return
	}
	if g.limit > 0 {
		// SetLimit: Go blocks until fewer than limit goroutines of the group are active
		vsched.Block(limW{g}, -1, "errgroup.Go(limit)")
		if vsched.Aborting() {
			return
		}
	}
	g.add(1)
	vsched.Go(func() {
		defer g.done()
		if err := f(); err != nil {
			vsched.Yield("errgroup.err")
			if g.setErr(err) && g.cancel != nil {
				g.cancel(err)
			}
		}
	})
}

type limW struct{ g *Group }

//go:norace
func (w limW) Ready() bool { return w.g.n < w.g.limit }

// TryGo starts f only if the group is below its limit.
func (g *Group) TryGo(f func() error) bool {
	if vsched.Aborting() {
		return false
	}
	vsched.Yield("errgroup.TryGo")
	if g.limit > 0 && g.n >= g.limit {
		return false
	}
	lim := g.limit
	g.limit = 0
	g.Go(f)
	g.limit = lim
	return true
}

//go:norace
func (g *Group) done() {
	if vsched.Aborting() {
		return
	}
	vsched.Yield("errgroup.done")
	vsched.RaceReleaseMerge(unsafe.Pointer(g))
	g.n--
}

func (g *Group) Wait() error {
	if vsched.Aborting() {
		return nil
	}
	vsched.Block(g, -1, "errgroup.Wait")
	vsched.RaceAcquire(unsafe.Pointer(g))
	err := g.getErr()
	if g.cancel != nil {
		g.cancel(err)
	}
	return err
}
