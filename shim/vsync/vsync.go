// Package vsync replaces sync.{Mutex,RWMutex,Once,WaitGroup} in instrumented code.
// Inside an execution every operation is a scheduling point and blocking is a
// Waiter; outside executions the embedded real primitive is used.
package vsync

import (
	"sync"
	"unsafe"

	"verif/vsched"
)

type Mutex struct {
	real sync.Mutex
	held bool
}

//go:norace
func (m *Mutex) Ready() bool { return !m.held }

//go:norace
func (m *Mutex) Lock() {
	if vsched.Aborting() {
		return
	}
	if !vsched.InThread() {
		m.real.Lock()
		return
	}
	vsched.Block(m, -1, "mutex.Lock")
	m.held = true
	vsched.RaceAcquire(unsafe.Pointer(m))
}

//go:norace
func (m *Mutex) TryLock() bool {
	if vsched.Aborting() {
		return true
	}
	if !vsched.InThread() {
		return m.real.TryLock()
	}
	vsched.Yield("mutex.TryLock")
	if m.held {
		return false
	}
	m.held = true
	vsched.RaceAcquire(unsafe.Pointer(m))
	return true
}

//go:norace
func (m *Mutex) Unlock() {
	if vsched.Aborting() {
		return
	}
	if !vsched.InThread() {
		m.real.Unlock()
		return
	}
	vsched.Yield("mutex.Unlock")
	if !m.held {
		panic("sync: unlock of unlocked mutex")
	}
	vsched.RaceRelease(unsafe.Pointer(m))
	m.held = false
}

type RWMutex struct {
	real    sync.RWMutex
	writer  bool
	readers int
	rtok    byte
}

type rwR struct{ m *RWMutex }
type rwW struct{ m *RWMutex }

//go:norace
func (w rwR) Ready() bool { return !w.m.writer }

//go:norace
func (w rwW) Ready() bool { return !w.m.writer && w.m.readers == 0 }

//go:norace
func (m *RWMutex) Lock() {
	if vsched.Aborting() {
		return
	}
	if !vsched.InThread() {
		m.real.Lock()
		return
	}
	vsched.Block(rwW{m}, -1, "rwmutex.Lock")
	m.writer = true
	vsched.RaceAcquire(unsafe.Pointer(m))
	vsched.RaceAcquire(unsafe.Pointer(&m.rtok))
}

//go:norace
func (m *RWMutex) Unlock() {
	if vsched.Aborting() {
		return
	}
	if !vsched.InThread() {
		m.real.Unlock()
		return
	}
	vsched.Yield("rwmutex.Unlock")
	if !m.writer {
		panic("sync: Unlock of unlocked RWMutex")
	}
	vsched.RaceRelease(unsafe.Pointer(m))
	m.writer = false
}

//go:norace
func (m *RWMutex) RLock() {
	if vsched.Aborting() {
		return
	}
	if !vsched.InThread() {
		m.real.RLock()
		return
	}
	vsched.Block(rwR{m}, -1, "rwmutex.RLock")
	m.readers++
	vsched.RaceAcquire(unsafe.Pointer(m))
}

//go:norace
func (m *RWMutex) RUnlock() {
	if vsched.Aborting() {
		return
	}
	if !vsched.InThread() {
		m.real.RUnlock()
		return
	}
	vsched.Yield("rwmutex.RUnlock")
	if m.readers == 0 {
		panic("sync: RUnlock of unlocked RWMutex")
	}
	vsched.RaceReleaseMerge(unsafe.Pointer(&m.rtok))
	m.readers--
}

//go:norace
func (m *RWMutex) TryLock() bool {
	if vsched.Aborting() {
		return true
	}
	if !vsched.InThread() {
		return m.real.TryLock()
	}
	vsched.Yield("rwmutex.TryLock")
	if m.writer || m.readers > 0 {
		return false
	}
	m.writer = true
	vsched.RaceAcquire(unsafe.Pointer(m))
	vsched.RaceAcquire(unsafe.Pointer(&m.rtok))
	return true
}

//go:norace
func (m *RWMutex) TryRLock() bool {
	if vsched.Aborting() {
		return true
	}
	if !vsched.InThread() {
		return m.real.TryRLock()
	}
	vsched.Yield("rwmutex.TryRLock")
	if m.writer {
		return false
	}
	m.readers++
	vsched.RaceAcquire(unsafe.Pointer(m))
	return true
}

func (m *RWMutex) RLocker() sync.Locker { return rlocker{m} }

type rlocker struct{ m *RWMutex }

func (r rlocker) Lock()   { r.m.RLock() }
func (r rlocker) Unlock() { r.m.RUnlock() }

type Once struct {
	real    sync.Once
	done    bool
	running bool
}

//go:norace
func (o *Once) Ready() bool { return o.done }

//go:norace
func (o *Once) Do(f func()) {
	if vsched.Aborting() {
		return
	}
	if !vsched.InThread() {
		o.real.Do(f)
		return
	}
	vsched.Yield("once.Do")
	if o.done {
		vsched.RaceAcquire(unsafe.Pointer(o))
		return
	}
	if o.running {
		vsched.Block(o, -1, "once.Do(wait)")
		vsched.RaceAcquire(unsafe.Pointer(o))
		return
	}
	o.running = true
	defer o.finish()
	f()
}

//go:norace
func (o *Once) finish() {
	vsched.RaceRelease(unsafe.Pointer(o))
	o.done = true
	o.running = false
}

type WaitGroup struct {
	real sync.WaitGroup
	n    int
}

//go:norace
func (wg *WaitGroup) Ready() bool { return wg.n == 0 }

//go:norace
func (wg *WaitGroup) Add(d int) {
	if vsched.Aborting() {
		return
	}
	if !vsched.InThread() {
		wg.real.Add(d)
		return
	}
	vsched.Yield("wg.Add")
	if d < 0 {
		vsched.RaceReleaseMerge(unsafe.Pointer(wg))
	}
	wg.n += d
	if wg.n < 0 {
		panic("sync: negative WaitGroup counter")
	}
}

func (wg *WaitGroup) Done() { wg.Add(-1) }

//go:norace
func (wg *WaitGroup) Wait() {
	if vsched.Aborting() {
		return
	}
	if !vsched.InThread() {
		wg.real.Wait()
		return
	}
	vsched.Block(wg, -1, "wg.Wait")
	vsched.RaceAcquire(unsafe.Pointer(wg))
}

// Go is sync.WaitGroup.Go (Go 1.25).
func (wg *WaitGroup) Go(f func()) {
	wg.Add(1)
	vsched.Go(func() {
		defer wg.Done()
		f()
	})
}

// Cond: Wait releases L and parks until a Signal (first waiter, as sync's notify list) or Broadcast names this waiter,
// then takes L again. Outside executions the real primitive is used.
type Cond struct {
	L       sync.Locker
	real    *sync.Cond
	waiters []*condW
	tok     byte
}

type condW struct{ signalled bool }

//go:norace
func (w *condW) Ready() bool { return w.signalled }

func NewCond(l sync.Locker) *Cond { return &Cond{L: l, real: sync.NewCond(l)} }

//go:norace
func (c *Cond) Wait() {
	if vsched.Aborting() {
		return
	}
	if !vsched.InThread() {
		c.real.Wait()
		return
	}
	w := &condW{}
	c.waiters = append(c.waiters, w)
	c.L.Unlock()
	vsched.Block(w, -1, "cond.Wait")
	if vsched.InThread() {
		vsched.RaceAcquire(unsafe.Pointer(&c.tok))
	}
	c.L.Lock()
}

//go:norace
func (c *Cond) Signal() {
	if vsched.Aborting() {
		return
	}
	if !vsched.InThread() {
		c.real.Signal()
		return
	}
	vsched.Yield("cond.Signal")
	vsched.RaceRelease(unsafe.Pointer(&c.tok))
	if len(c.waiters) > 0 {
		c.waiters[0].signalled = true
		c.waiters = c.waiters[1:]
	}
}

//go:norace
func (c *Cond) Broadcast() {
	if vsched.Aborting() {
		return
	}
	if !vsched.InThread() {
		c.real.Broadcast()
		return
	}
	vsched.Yield("cond.Broadcast")
	vsched.RaceRelease(unsafe.Pointer(&c.tok))
	for _, w := range c.waiters {
		w.signalled = true
	}
	c.waiters = nil
}
