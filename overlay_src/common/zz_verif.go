//go:build verif

package common

// VerifClipResults exposes clipResults to the shape check.
func VerifClipResults(minTTL uint8, results []*ProbeResponse) []*ProbeResponse {
	return clipResults(minTTL, results)
}
