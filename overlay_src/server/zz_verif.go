//go:build verif

package server

import (
	"github.com/DataDog/datadog-traceroute/traceroute"
)

// VerifNewServer: the repository's own constructor (whatever else it initialises stays initialised), with the
// Traceroute value replaced by the harness's.
func VerifNewServer(tr *traceroute.Traceroute) *Server {
	s := NewServer()
	s.tr = tr
	return s
}
