//go:build verif

package server

import (
	"time"

	"github.com/DataDog/datadog-traceroute/traceroute"
)

func VerifNewServer(tr *traceroute.Traceroute) *Server {
	return &Server{tr: tr, startTime: time.Now()}
}
