//go:build verif

package publicip

func VerifCheckers() []string { return append([]string{}, ipCheckers...) }
