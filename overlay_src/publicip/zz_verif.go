//go:build verif

package publicip

import "net/http"

func VerifCheckers() []string { return append([]string{}, ipCheckers...) }

// VerifNewFetcher builds the real fetcher around a caller-supplied HTTP client.
func VerifNewFetcher(client *http.Client) *PublicIPFetcher {
	f := NewPublicIPFetcher()
	f.client = client
	return f
}
