//go:build verif

package traceroute

import (
	"context"

	"github.com/DataDog/datadog-traceroute/publicip"
	"github.com/DataDog/datadog-traceroute/result"
)

// VerifNewTraceroute: the repository's own constructor (whatever else it initialises stays initialised), with the
// public-IP fetcher replaced.
func VerifNewTraceroute(f publicip.Fetcher) *Traceroute {
	t := NewTraceroute()
	t.publicIPFetcher = f
	return t
}

type VerifRunOnceFn = func(ctx context.Context, params TracerouteParams, destinationPort int) (*result.TracerouteRun, error)

func VerifSetRunOnce(fn VerifRunOnceFn) {
	if fn == nil {
		runTracerouteOnceFn = runTracerouteOnce
	} else {
		runTracerouteOnceFn = fn
	}
}

// VerifPerformTCPFallback exposes the method selector to the policy check.
func VerifPerformTCPFallback(m TCPMethod, doSyn, doSack, doSynSocket func() (*result.TracerouteRun, error)) (*result.TracerouteRun, error) {
	return performTCPFallback(m, doSyn, doSack, doSynSocket)
}
