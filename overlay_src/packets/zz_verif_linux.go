//go:build verif && linux

package packets

import "os"

func verifSourceFromFD(fd int) Source {
	return &afPacketSource{sock: os.NewFile(uintptr(fd), "verif-socketpair")}
}

// VerifSinkLinuxFromFD wraps an already open socket in the real Linux sink (the harness hands it unprivileged datagram
// sockets: the sink's send path is the same sendto(2) whatever the socket type).
func VerifSinkLinuxFromFD(fd int) (Sink, error) {
	sock := os.NewFile(uintptr(fd), "verif-sink")
	rawConn, err := sock.SyscallConn()
	if err != nil {
		sock.Close()
		return nil, err
	}
	return &sinkLinux{sock: sock, rawConn: rawConn}, nil
}
