//go:build verif && linux

package packets

import "os"

func verifSourceFromFD(fd int) Source {
	return &afPacketSource{sock: os.NewFile(uintptr(fd), "verif-socketpair")}
}
