//go:build verif

package packets

import (
	"net/netip"

	"golang.org/x/net/bpf"
)

// Added through the build overlay by /verif (never part of the repository):
// the seam through which the harness supplies the simulated wire, and read-only
// accessors for unexported state the checks need.

var VerifNewSink func(addr netip.Addr) (Sink, error)
var VerifNewSource func() (Source, error)

// VerifMustClosePort is what NewSourceSink reports as the handle's MustClosePort (the platform flag of the Windows
// raw-socket handle; always false on Linux): the instrumenter rewrites the literal to this variable.
var VerifMustClosePort bool

func VerifClassicBPF(spec PacketFilterSpec) ([]bpf.RawInstruction, error) {
	return getClassicBPFFilter(spec)
}

func VerifDropAll() []bpf.RawInstruction { return dropAllFilter }

func VerifSetPacketIDBase(v uint32) { curPacketID.Store(v) }
func VerifGetPacketIDBase() uint32  { return curPacketID.Load() }

// VerifAFPacketSourceFromFD wraps an already-open (non-blocking) socket in the real AF_PACKET source implementation.
func VerifAFPacketSourceFromFD(fd int) Source { return verifSourceFromFD(fd) }
