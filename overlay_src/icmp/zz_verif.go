//go:build verif

package icmp

func VerifSetEchoIDBase(v uint32) { curEchoID.Store(v) }
func VerifGetEchoIDBase() uint32  { return curEchoID.Load() }
