//go:build verif

package icmp

func VerifSetEchoIDBase(v uint32) { curEchoID.Store(v) }
func VerifGetEchoIDBase() uint32  { return curEchoID.Load() }

// VerifNextEchoID draws the next echo identifier exactly as a new driver would.
func VerifNextEchoID() uint16 { return nextEchoID() }
