//go:build verif

package cmd

import (
	"os"

	"github.com/spf13/pflag"
)

// Added through the build overlay by /verif (never part of the repository): runs the CLI's root command in-process
// with the given arguments and returns what it printed on standard output.
func VerifRun(argv []string) (string, error) {
	// a fresh parse: every flag back to its default
	rootCmd.Flags().VisitAll(func(f *pflag.Flag) {
		f.Value.Set(f.DefValue)
		f.Changed = false
	})
	tmp, err := os.CreateTemp("", "verif-cli-*")
	if err != nil {
		return "", err
	}
	defer os.Remove(tmp.Name())
	old := os.Stdout
	os.Stdout = tmp
	rootCmd.SetArgs(argv)
	rootCmd.SilenceUsage, rootCmd.SilenceErrors = true, true
	runErr := rootCmd.Execute()
	os.Stdout = old
	tmp.Close()
	out, _ := os.ReadFile(tmp.Name())
	return string(out), runErr
}
