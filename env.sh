# sourced by every script: offline toolchain settings (the repository's own Go 1.25.6, invoked directly)
export GOTOOLCHAIN=local GOFLAGS=-mod=mod GOPROXY=off GOSUMDB=off GONOSUMDB=* GONOSUMCHECK=1 GOFLAGS=-mod=mod
export VGO=/root/go/pkg/mod/golang.org/toolchain@v0.0.1-go1.25.6.linux-amd64/bin/go
export VERIF_REPO=${VERIF_REPO:-/repo}
