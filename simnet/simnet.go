// Package simnet is the simulated wire below packets.NewSinkLinux /
// packets.NewAFPacketSource (DESIGN.md E3). One Net per execution. Every capture
// handle sees every inbound packet and the process's own outgoing probes
// (AF_PACKET, ETH_P_ALL), filtered by the real classic-BPF program the
// repository installs, run in x/net/bpf's VM.
package simnet

import (
	"encoding/binary"
	"errors"
	"fmt"
	"net"
	"net/netip"
	"os"
	"syscall"
	"time"

	"golang.org/x/net/bpf"

	"github.com/DataDog/datadog-traceroute/packets"

	"verif/refcodec"
	"verif/shim/vtime"
	"verif/vsched"
)

// ErrInjected is the sentinel every injected fatal fault wraps.
var ErrInjected = errors.New("simnet: injected fault")

// timeoutErr is a failure whose error is ALSO of the deadline/timeout kind (a send or setsockopt that times out):
// still a failed operation, not "no packet yet".
type timeoutErr struct{}

func (timeoutErr) Error() string   { return "simnet: injected fault (i/o timeout)" }
func (timeoutErr) Timeout() bool   { return true }
func (timeoutErr) Temporary() bool { return true }
func (timeoutErr) Is(t error) bool { return t == ErrInjected || t == os.ErrDeadlineExceeded }

func injErr(what, class string) error {
	if class == "fatal-timeout" {
		return fmt.Errorf("%s: %w", what, timeoutErr{})
	}
	return fmt.Errorf("%s: %w", what, ErrInjected)
}

type Meta struct {
	ToTTL   int        `json:"to_ttl"` // the probe TTL this packet answers (-1: none)
	Genuine bool       `json:"genuine"`
	Tag     string     `json:"tag,omitempty"`
	From    netip.Addr `json:"from"`
	Flow    int        `json:"flow"` // which run's probe caused it (sink id), -1 unknown
	// Dest: a genuine reply that proves arrival at the target for a probe of the run (the run stops sending once it has processed one)
	Dest bool `json:"dest,omitempty"`
}

// OrderEv is one entry of the global order of wire operations (independent of the clock): "tx" (a probe handed to a sink),
// "read-call" (a capture handle asked for the next packet), "read-dest" (a capture handle was handed a Meta.Dest packet).
type OrderEv struct {
	Kind   string
	Handle int
	Flow   int
}

type Event struct {
	T      int64
	Dir    string // tx | rx
	Raw    []byte
	P      *refcodec.Packet
	Meta   Meta
	Sink   int    // tx: sink id
	Seen   []bool // rx: per handle, passed the filter and was queued
	Thread int    // tx: managed thread that wrote it
	CallT  int64  // tx: the instant the bytes were passed to WriteTo (= T unless the call itself took time)
}

type Reply struct {
	DelayNs int64
	Raw     []byte
	Meta    Meta
}

// Script decides which packets a probe causes.
type Script interface {
	OnProbe(n *Net, sink *Sink, p *refcodec.Packet, raw []byte) []Reply
}

type Fault struct {
	Op    string `json:"op"`
	K     int    `json:"k"`     // k-th call of Op in the execution (1-based)
	Class string `json:"class"` // fatal | deadline | zero | stall (WriteTo: the call takes StallNs, then succeeds)
}

type Call struct {
	Op     string
	Handle int
	K      int
}

type Net struct {
	Script       Script
	StallNs      int64 // how long a send call of fault class "stall" takes (default 15ms)
	KeepZeroIPID bool  // do not apply the kernel's "IP ID filled in when zero" rule to probes
	kernelIDs    int
	Faults       []Fault
	FiltersOff   bool
	EpsNs        int64 // cost of one Read
	Sources      []*Source
	Sinks        []*Sink
	Ledger       []Event
	Order        []OrderEv // global order of sends and reads (clock-independent)
	NoPortCheck  bool
	Calls        []Call
	counts       map[string]int
	// SACK: real listeners whose accepted connections trigger a synthesized SYN-ACK
	Listeners []*Listener
	// NoOutgoingLoop disables delivery of the process's own probes to capture handles
	NoOutgoingLoop bool
	// DirectIP: the capture source hands over IP packets directly (as the BPF device of other platforms does) instead of
	// reading an Ethernet frame into the buffer and stripping its header: a read can then fill the whole buffer
	DirectIP   bool
	Injected   int // number of faults that fired
	InjectedAt []Call
}

func New(script Script) *Net {
	return &Net{Script: script, EpsNs: 1000, counts: map[string]int{}}
}

// Cur returns the Net of the running execution.
func Cur() *Net {
	n, _ := vsched.Env().(*Net)
	return n
}

// Install points the repository's seam at the simulated wire (idempotent).
func Install() {
	packets.VerifNewSink = func(addr netip.Addr) (packets.Sink, error) {
		n := Cur()
		if n == nil {
			return nil, fmt.Errorf("simnet: no Net for this execution")
		}
		return n.newSink(addr)
	}
	packets.VerifNewSource = func() (packets.Source, error) {
		n := Cur()
		if n == nil {
			return nil, fmt.Errorf("simnet: no Net for this execution")
		}
		return n.newSource()
	}
}

// fault records the call and returns the fault class that fires for it ("" = none).
func (n *Net) fault(op string, handle int) string {
	n.counts[op]++
	k := n.counts[op]
	n.Calls = append(n.Calls, Call{op, handle, k})
	for _, f := range n.Faults {
		if f.Op != op {
			continue
		}
		if f.K == k || f.K == 0 {
			n.Injected++
			n.InjectedAt = append(n.InjectedAt, Call{op, handle, k})
			return f.Class
		}
		// K < 0: the position is an enumerated choice: at every call not yet faulted, "fail now" is an alternative
		if f.K < 0 && n.Injected == 0 && vsched.ChooseFree(2, "fault:"+op) == 1 {
			n.Injected++
			n.InjectedAt = append(n.InjectedAt, Call{op, handle, k})
			return f.Class
		}
	}
	return ""
}

// ---- sink --------------------------------------------------------------------------

type Sink struct {
	ID            int
	Creator       int // managed thread that constructed the sink
	n             *Net
	Addr          netip.Addr
	Closes        int
	UseAfterClose int
	Writes        int
	// PortNotHeld: the first probes whose transport source port was not owned by any socket of this network namespace when
	// they were sent (the port is the run's identifier on the wire and must stay reserved while the run is live); "proto:port"
	PortNotHeld []string
}

// portHeld asks the kernel whether some socket of this network namespace owns the local port: an attempt to bind it
// ourselves fails with "address in use" exactly then (no SO_REUSEADDR; the probe socket is closed at once).
func portHeld(proto uint8, src netip.Addr, port uint16) bool {
	fam, typ := syscall.AF_INET, syscall.SOCK_DGRAM
	if proto == refcodec.ProtoTCP {
		typ = syscall.SOCK_STREAM
	}
	var sa syscall.Sockaddr
	if src.Is4() {
		sa = &syscall.SockaddrInet4{Port: int(port), Addr: src.As4()}
	} else {
		fam = syscall.AF_INET6
		sa = &syscall.SockaddrInet6{Port: int(port), Addr: src.As16()}
	}
	fd, err := syscall.Socket(fam, typ|syscall.SOCK_CLOEXEC, 0)
	if err != nil {
		return true // cannot tell: never alarm
	}
	defer syscall.Close(fd)
	if fam == syscall.AF_INET6 {
		syscall.SetsockoptInt(fd, syscall.IPPROTO_IPV6, syscall.IPV6_V6ONLY, 1)
	}
	err = syscall.Bind(fd, sa)
	if err == nil {
		return false
	}
	return err == syscall.EADDRINUSE || err != syscall.EADDRNOTAVAIL // any other refusal: cannot tell
}

func (n *Net) newSink(addr netip.Addr) (packets.Sink, error) {
	vsched.Yield("NewSink")
	if c := n.fault("NewSink", len(n.Sinks)); c != "" {
		return nil, injErr("raw socket", c)
	}
	s := &Sink{ID: len(n.Sinks), n: n, Addr: addr, Creator: vsched.CurrentThread()}
	n.Sinks = append(n.Sinks, s)
	return s, nil
}

func (s *Sink) WriteTo(buf []byte, addr netip.AddrPort) error {
	vsched.Yield("sink.WriteTo")
	if vsched.Aborting() {
		return nil
	}
	n := s.n
	if s.Closes > 0 {
		s.UseAfterClose++
		return os.ErrClosed
	}
	callT := vsched.Now()
	if c := n.fault("WriteTo", s.ID); c == "stall" {
		// the send call waits for buffer space and then succeeds: the packet reaches the network when the call returns
		st := n.StallNs
		if st == 0 {
			st = 15_000_000
		}
		vtime.Sleep(time.Duration(st))
		if vsched.Aborting() {
			return nil
		}
	} else if c == "fatal-slow" {
		// the send call fails, but only after having waited (for buffer space) for StallNs
		st := n.StallNs
		if st == 0 {
			st = 15_000_000
		}
		vtime.Sleep(time.Duration(st))
		return injErr("sendto", "fatal")
	} else if c != "" {
		return injErr("sendto", c)
	}
	s.Writes++
	raw := append([]byte{}, buf...)
	p, err := refcodec.Parse(raw)
	if err == nil && p.V == 4 && p.IPID == 0 && !n.KeepZeroIPID {
		// raw(7), IP_HDRINCL: "Packet ID: filled in when zero" - the kernel replaces an identification field of zero with
		// one of its own before the packet leaves (observed in the kernel lab of C13); routers quote what was on the wire
		n.kernelIDs++
		binary.BigEndian.PutUint16(raw[4:], 0x7000+uint16(n.kernelIDs%0x0fff))
		refcodec.FixIPv4Checksum(raw)
		p, err = refcodec.Parse(raw)
	}
	ev := Event{T: vsched.Now(), Dir: "tx", Raw: raw, P: p, Sink: s.ID, Thread: vsched.CurrentThread(), Meta: Meta{ToTTL: -1, Flow: s.ID}, CallT: callT}
	n.Ledger = append(n.Ledger, ev)
	n.Order = append(n.Order, OrderEv{"tx", s.ID, s.ID})
	if err == nil && (p.Proto == refcodec.ProtoUDP || p.Proto == refcodec.ProtoTCP) && s.Writes == 1 && !n.NoPortCheck {
		if !portHeld(p.Proto, p.Src, p.SrcPort) && len(s.PortNotHeld) < 4 {
			s.PortNotHeld = append(s.PortNotHeld, fmt.Sprintf("%d:%d", p.Proto, p.SrcPort))
		}
	}
	if err != nil {
		return nil // a real raw socket would reject some of these; the oracle judges the ledger
	}
	if !n.NoOutgoingLoop {
		n.deliver(raw, Meta{ToTTL: -1, Tag: "own-outgoing", From: p.Src, Flow: s.ID}, true)
	}
	if n.Script != nil {
		for _, r := range n.Script.OnProbe(n, s, p, raw) {
			n.Schedule(r)
		}
	}
	return nil
}

func (s *Sink) Close() error {
	vsched.Yield("sink.Close")
	if vsched.Aborting() {
		return nil
	}
	c := s.n.fault("SinkClose", s.ID)
	s.Closes++
	if s.Closes > 1 {
		return os.ErrClosed
	}
	if c != "" {
		return injErr("close", c) // the descriptor is gone all the same (close(2) semantics): counted as closed
	}
	return nil
}

// ---- delivery ----------------------------------------------------------------------

type deliverFire struct {
	n   *Net
	raw []byte
	m   Meta
}

func (d *deliverFire) Fire() { d.n.deliver(d.raw, d.m, false) }

// Schedule delivers r.Raw to every capture handle after r.DelayNs of virtual time.
func (n *Net) Schedule(r Reply) {
	if r.DelayNs <= 0 {
		n.deliver(r.Raw, r.Meta, false) // no latency: queued before the send call returns
		return
	}
	vsched.AddTimer(vsched.Now()+r.DelayNs, &deliverFire{n, r.Raw, r.Meta})
}

// ScheduleAt delivers at an absolute virtual time.
func (n *Net) ScheduleAt(at int64, raw []byte, m Meta) {
	vsched.AddTimer(at, &deliverFire{n, raw, m})
}

func frameOf(raw []byte) []byte {
	f := make([]byte, 14+len(raw))
	et := uint16(0x0800)
	if len(raw) > 0 && raw[0]>>4 == 6 {
		et = 0x86dd
	}
	f[12], f[13] = byte(et>>8), byte(et)
	copy(f[14:], raw)
	return f
}

func (n *Net) deliver(raw []byte, m Meta, outgoing bool) {
	ev := Event{T: vsched.Now(), Dir: "rx", Raw: raw, Meta: m, Seen: make([]bool, len(n.Sources))}
	if outgoing {
		ev.Dir = "loop"
	}
	ev.P, _ = refcodec.Parse(raw)
	frame := frameOf(raw)
	for i, src := range n.Sources {
		if src.closed {
			continue
		}
		if src.vm != nil && !n.FiltersOff {
			k, err := src.vm.Run(frame)
			if err != nil || k == 0 {
				continue
			}
		}
		src.queue = append(src.queue, frame)
		src.qmeta = append(src.qmeta, m)
		ev.Seen[i] = true
	}
	n.Ledger = append(n.Ledger, ev)
}

// ---- source ------------------------------------------------------------------------

type Source struct {
	ID            int
	n             *Net
	queue         [][]byte
	qmeta         []Meta
	deadline      int64 // virtual ns; -1 none
	closed        bool
	Closes        int
	UseAfterClose int
	vm            *bpf.VM
	Filters       []packets.PacketFilterSpec
	Reads         int
}

func (n *Net) newSource() (packets.Source, error) {
	vsched.Yield("NewSource")
	if c := n.fault("NewSource", len(n.Sources)); c != "" {
		return nil, injErr("af_packet socket", c)
	}
	s := &Source{ID: len(n.Sources), n: n, deadline: -1}
	n.Sources = append(n.Sources, s)
	return s, nil
}

func (s *Source) Ready() bool { return len(s.queue) > 0 || s.closed }

func (s *Source) SetReadDeadline(t time.Time) error {
	vsched.Yield("src.SetReadDeadline")
	if vsched.Aborting() {
		return nil
	}
	if s.closed {
		s.UseAfterClose++
		return os.ErrClosed
	}
	if c := s.n.fault("SetReadDeadline", s.ID); c != "" {
		return injErr("setsockopt", c)
	}
	if t.IsZero() {
		s.deadline = -1
	} else {
		s.deadline = vtime.ToVirtual(t)
	}
	return nil
}

func (s *Source) Read(buf []byte) (int, error) {
	if vsched.Aborting() {
		return 0, os.ErrClosed
	}
	n := s.n
	n.Order = append(n.Order, OrderEv{"read-call", s.ID, -1})
	n.pollListeners()
	if s.closed {
		vsched.Yield("src.Read")
		s.UseAfterClose++
		return 0, os.ErrClosed
	}
	vsched.Block(s, s.deadline, "src.Read")
	if vsched.Aborting() {
		return 0, os.ErrClosed
	}
	if s.closed {
		return 0, os.ErrClosed
	}
	s.Reads++
	switch n.fault("Read", s.ID) {
	case "fatal":
		return 0, fmt.Errorf("recvfrom: %w", ErrInjected)
	case "fatal-etimedout":
		// a hard socket error whose errno happens to describe itself as a timeout (ETIMEDOUT: Errno.Timeout() is true) - not
		// the read deadline (it does not match os.ErrDeadlineExceeded): a failed read like any other
		return 0, fmt.Errorf("%w (%w)", os.NewSyscallError("recvfrom", syscall.ETIMEDOUT), ErrInjected)
	case "deadline":
		return 0, os.ErrDeadlineExceeded
	case "zero":
		return 0, nil
	case "fatal-data":
		// a failing read that still hands bytes back: the frame at the head of the queue (a stand-in if there is none)
		// together with the error - the shape recvfrom-based sources really have; the error is the call's outcome
		var f []byte
		if len(s.queue) > 0 {
			f = s.queue[0]
			s.queue = s.queue[1:]
			if len(s.qmeta) > 0 {
				s.qmeta = s.qmeta[1:]
			}
		} else {
			f = append(make([]byte, 14), 0x45, 0, 0, 20, 0, 0, 0, 0, 64, 253, 0, 0, 192, 0, 2, 1, 192, 0, 2, 2)
		}
		if len(f) > len(buf)+14 {
			f = f[:len(buf)+14]
		}
		m := 0
		if len(f) > 14 {
			m = copy(buf, f[14:])
		}
		return m, fmt.Errorf("recvfrom: %w", ErrInjected)
	}
	vsched.Advance(n.EpsNs)
	if s.deadline >= 0 && s.deadline <= vsched.Now()-n.EpsNs {
		return 0, os.ErrDeadlineExceeded
	}
	if len(s.queue) == 0 {
		return 0, os.ErrDeadlineExceeded
	}
	f := s.queue[0]
	s.queue = s.queue[1:]
	if len(s.qmeta) > 0 {
		if m := s.qmeta[0]; m.Dest {
			n.Order = append(n.Order, OrderEv{"read-dest", s.ID, m.Flow})
		}
		s.qmeta = s.qmeta[1:]
	}
	if n.DirectIP && len(f) > 14 {
		return copy(buf, f[14:]), nil
	}
	// the real source reads the frame into buf (truncating), then strips the Ethernet header
	if len(f) > len(buf) {
		f = f[:len(buf)]
	}
	if len(f) <= 14 {
		return 0, nil
	}
	return copy(buf, f[14:]), nil
}

func (s *Source) Close() error {
	vsched.Yield("src.Close")
	if vsched.Aborting() {
		return nil
	}
	c := s.n.fault("SourceClose", s.ID)
	s.Closes++
	s.closed = true
	if s.Closes > 1 {
		return os.ErrClosed
	}
	if c != "" {
		return injErr("close", c)
	}
	return nil
}

func (s *Source) SetPacketFilter(spec packets.PacketFilterSpec) error {
	vsched.Yield("src.SetPacketFilter")
	if vsched.Aborting() {
		return nil
	}
	if s.closed {
		s.UseAfterClose++
		return os.ErrClosed
	}
	if c := s.n.fault("SetPacketFilter", s.ID); c != "" {
		return injErr("attach filter", c)
	}
	s.Filters = append(s.Filters, spec)
	if spec.FilterType == packets.FilterTypeNone {
		s.vm = nil
		return nil
	}
	prog, err := packets.VerifClassicBPF(spec)
	if err != nil {
		return fmt.Errorf("SetPacketFilter failed to get BPF filter program: %w", err)
	}
	ins := make([]bpf.Instruction, len(prog))
	for i, r := range prog {
		ins[i] = r.Disassemble()
	}
	vm, err := bpf.NewVM(ins)
	if err != nil {
		return fmt.Errorf("SetPacketFilter: kernel would reject the program: %w", err)
	}
	// drop-all, drain, attach
	s.queue = nil
	s.qmeta = nil
	s.vm = vm
	return nil
}

// ---- SACK support: a real listener whose handshake the wire must show ------------------

// SynAckSpec says how the synthesized SYN-ACK of an accepted connection looks.
type SynAckSpec struct {
	Enabled       bool   `json:"enabled"` // false: the handshake is never captured
	ISN           uint32 `json:"isn"`     // server sequence number in the SYN-ACK
	AckNum        uint32 `json:"ack"`     // acknowledgement number (= client ISN+1): becomes the driver's localInitSeq
	SackPermitted bool   `json:"sack_permitted"`
	Timestamps    bool   `json:"timestamps"`
	// BSDOrder: the options come in the order macOS / FreeBSD use - mss, nop, wscale, nop, nop, timestamps, sack-permitted,
	// eol - instead of Linux's mss, sack-permitted, timestamps
	BSDOrder     bool   `json:"bsd_order,omitempty"`
	DelayNs      int64  `json:"delay_ns"`
	TSOptLen     int    `json:"ts_opt_len,omitempty"` // malformed timestamp option data length (0 = normal 8)
	Copies       int    `json:"copies,omitempty"`
	WrongFirst   bool   `json:"wrong_first,omitempty"` // precede with a SYN-ACK of another flow
	NoiseKind    string `json:"noise_kind,omitempty"`  // precede the genuine SYN-ACK with mutations of it (see Listener.Mutate)
	NoiseArg     int    `json:"noise_arg,omitempty"`
	NoiseForeign bool   `json:"noise_foreign,omitempty"` // the mutated SYN-ACKs belong to another flow (client port differs)
	// NoiseAckDelta: the mutated SYN-ACKs acknowledge AckNum+delta instead of AckNum (a stale or forged SYN-ACK on the same
	// 4-tuple: accepting one of them as the handshake shifts the connection's sequence base)
	NoiseAckDelta uint32 `json:"noise_ack_delta,omitempty"`
	LateCopyMs    int    `json:"late_copy_ms,omitempty"`   // one more copy of the genuine SYN-ACK this long after the first (a retransmission seen during the probe phase)
	FloodCount    int    `json:"flood_count,omitempty"`    // SYN-ACKs of other connections to the same target, ...
	FloodEveryMs  int    `json:"flood_every_ms,omitempty"` // ... this far apart, starting when the connection is accepted
	// Greeting: a data segment of the accepted connection (PSH|ACK, the server's banner) is on the wire at DelayNs, the
	// SYN-ACK (if Enabled) 2 ms behind it: what a capture handle without a working SYN-ACK filter sees first
	Greeting bool `json:"greeting,omitempty"`
	// ECN: the SYN-ACK is an ECN-setup SYN-ACK (SYN|ACK|ECE, RFC 3168): still the handshake's SYN-ACK
	ECN bool `json:"ecn,omitempty"`
}

type Listener struct {
	// NotYet: the run that will dial this listener has not started (a later run of a chain): nothing to wait for
	NotYet   bool
	L        *net.TCPListener
	Addr     netip.AddrPort
	Spec     SynAckSpec
	Accepted []netip.AddrPort  // remote (client) address of each accepted connection
	ConnAck  map[uint16]uint32 // client port -> acknowledgement number of that connection's SYN-ACK (its sequence base)
	conns    []net.Conn
	// Client is filled when the first connection is accepted
	OnAccept func(n *Net, l *Listener, client netip.AddrPort)
	// Mutate returns the noise variants of a packet (installed by the harness)
	Mutate   func(kind string, arg int, raw []byte) [][]byte
	Expect   int // number of connections to wait for before polling stops (default 1; <0: never polled while the run reads)
	patience time.Duration
}

// Listen opens a real TCP listener on addr (inside the check's private network namespace).
func (n *Net) Listen(addr netip.AddrPort, spec SynAckSpec) (*Listener, error) {
	l, err := net.ListenTCP("tcp4", net.TCPAddrFromAddrPort(addr))
	if err != nil {
		return nil, err
	}
	ap := l.Addr().(*net.TCPAddr).AddrPort()
	li := &Listener{L: l, Addr: netip.AddrPortFrom(ap.Addr().Unmap(), ap.Port()), Spec: spec}
	n.Listeners = append(n.Listeners, li)
	return li, nil
}

func (n *Net) pollListeners() {
	for _, l := range n.Listeners {
		exp := l.Expect
		if exp == 0 {
			exp = 1
		}
		// Expect < 0: a listener nobody is supposed to dial (only counted at shutdown)
		if exp > 0 && len(l.Accepted) < exp && !l.NotYet {
			// the dial has returned before the run starts reading, so the connection is already in the accept queue;
			// under heavy machine load the accept may still need a moment of real time
			l.patience = 50 * time.Millisecond
			l.poll(n)
			l.patience = 0
		}
	}
}

func (l *Listener) poll(n *Net) {
	for {
		wait := 200 * time.Microsecond
		if l.patience > 0 && len(l.Accepted) == 0 {
			wait = l.patience
		}
		l.L.SetDeadline(time.Now().Add(wait))
		c, err := l.L.Accept()
		if err != nil {
			return
		}
		ra := c.RemoteAddr().(*net.TCPAddr).AddrPort()
		client := netip.AddrPortFrom(ra.Addr().Unmap(), ra.Port())
		l.Accepted = append(l.Accepted, client)
		l.conns = append(l.conns, c)
		if l.OnAccept != nil {
			l.OnAccept(n, l, client)
		}
		mk0 := func(cli netip.AddrPort) []byte {
			t := refcodec.TCP(l.Addr.Addr(), cli.Addr(), l.Addr.Port(), cli.Port(), 0x5000, 0x6000, refcodec.SYN|refcodec.ACK, 65535, refcodec.Cat(refcodec.OptMSS(1460), refcodec.OptSackPermitted()), nil)
			return refcodec.Wrap(l.Addr.Addr(), cli.Addr(), refcodec.ProtoTCP, 64, 0, t)
		}
		for k := 0; k < l.Spec.FloodCount; k++ {
			other := netip.AddrPortFrom(client.Addr(), client.Port()+uint16(1+k%50))
			n.Schedule(Reply{DelayNs: int64(k+1) * int64(l.Spec.FloodEveryMs) * 1_000_000, Raw: mk0(other), Meta: Meta{ToTTL: -1, Tag: "synack-flood", From: l.Addr.Addr(), Flow: -1}})
		}
		connIdx := uint32(len(l.Accepted) - 1)
		isn, ackNum := l.Spec.ISN+connIdx*0x01000000, l.Spec.AckNum+connIdx*0x00100000 // every connection has its own sequence space
		behindGreeting := int64(0)
		if l.Spec.Greeting {
			t := refcodec.TCP(l.Addr.Addr(), client.Addr(), l.Addr.Port(), client.Port(), isn+1, ackNum, refcodec.PSH|refcodec.ACK, 509, nil, []byte("220 ready\r\n"))
			n.Schedule(Reply{DelayNs: l.Spec.DelayNs, Raw: refcodec.Wrap(l.Addr.Addr(), client.Addr(), refcodec.ProtoTCP, 64, 0x1111, t), Meta: Meta{ToTTL: -1, Tag: "server-greeting", From: l.Addr.Addr(), Flow: -1}})
			behindGreeting = 2_000_000
		}
		if !l.Spec.Enabled {
			continue
		}
		if l.ConnAck == nil {
			l.ConnAck = map[uint16]uint32{}
		}
		l.ConnAck[client.Port()] = ackNum
		mk := func(srv, cli netip.AddrPort) []byte {
			var opts []byte
			opts = append(opts, refcodec.OptMSS(1460)...)
			if l.Spec.BSDOrder {
				opts = append(opts, 1, 3, 3, 6) // nop, window scale 6
				if l.Spec.Timestamps {
					opts = append(opts, 1, 1)
					opts = append(opts, refcodec.OptTimestamps(0x01020304, 0x0a0b0c0d)...)
				}
				if l.Spec.SackPermitted {
					opts = append(opts, refcodec.OptSackPermitted()...)
				}
				opts = append(opts, 0) // end of option list; the builder pads
			} else if l.Spec.SackPermitted {
				opts = append(opts, refcodec.OptSackPermitted()...)
			}
			if l.Spec.Timestamps && !l.Spec.BSDOrder {
				ts := refcodec.OptTimestamps(0x01020304, 0x0a0b0c0d)
				if l.Spec.TSOptLen > 0 {
					ts = ts[:2+l.Spec.TSOptLen]
					ts[1] = byte(len(ts))
				}
				opts = append(opts, ts...)
			}
			flags := uint8(refcodec.SYN | refcodec.ACK)
			if l.Spec.ECN {
				flags |= 0x40 // ECE
			}
			t := refcodec.TCP(srv.Addr(), cli.Addr(), srv.Port(), cli.Port(), isn, ackNum, flags, 65535, opts, nil)
			return refcodec.Wrap(srv.Addr(), cli.Addr(), refcodec.ProtoTCP, 64, 0, t)
		}
		if l.Spec.WrongFirst {
			other := netip.AddrPortFrom(client.Addr(), client.Port()^1)
			// (another connection has its own sequence numbers)
			oisn, oack := isn, ackNum
			isn, ackNum = isn+0x01010101, ackNum+0x02020202
			raw := mk(l.Addr, other)
			isn, ackNum = oisn, oack
			n.Schedule(Reply{DelayNs: l.Spec.DelayNs, Raw: raw, Meta: Meta{ToTTL: -1, Tag: "synack-other-flow", From: l.Addr.Addr(), Flow: -1}})
		}
		if l.Spec.NoiseKind != "" && l.Mutate != nil {
			cl := client
			if l.Spec.NoiseForeign {
				cl = netip.AddrPortFrom(client.Addr(), client.Port()^1)
			}
			ackNum += l.Spec.NoiseAckDelta
			noisy := mk(l.Addr, cl)
			ackNum -= l.Spec.NoiseAckDelta
			for k, nb := range l.Mutate(l.Spec.NoiseKind, l.Spec.NoiseArg, noisy) {
				n.Schedule(Reply{DelayNs: int64(k) * 1000, Raw: nb, Meta: Meta{ToTTL: -1, Tag: "handshake-noise", From: l.Addr.Addr(), Flow: -1}})
			}
			if l.Spec.DelayNs == 0 {
				l.Spec.DelayNs = 2_000_000
			}
		}
		copies := l.Spec.Copies
		if copies < 1 {
			copies = 1
		}
		for i := 0; i < copies; i++ {
			n.Schedule(Reply{DelayNs: l.Spec.DelayNs + behindGreeting, Raw: mk(l.Addr, client), Meta: Meta{ToTTL: -1, Tag: "handshake-synack", From: l.Addr.Addr(), Flow: -1, Genuine: true}})
		}
		if l.Spec.LateCopyMs > 0 {
			n.Schedule(Reply{DelayNs: l.Spec.DelayNs + int64(l.Spec.LateCopyMs)*1_000_000, Raw: mk(l.Addr, client), Meta: Meta{ToTTL: -1, Tag: "handshake-synack-retransmitted", From: l.Addr.Addr(), Flow: -1}})
		}
	}
}

// Shutdown closes real sockets the harness itself opened and reports the accepted count.
func (n *Net) Shutdown() {
	for _, l := range n.Listeners {
		l.Spec.Enabled = false // the execution is over: only count what is still in the accept queue
		l.Spec.NoiseKind = ""
		l.poll(n)
		for _, c := range l.conns {
			c.Close()
		}
		l.L.Close()
	}
}

// Probes returns the tx events of a sink (all sinks if id < 0).
func (n *Net) Probes(id int) []Event {
	var out []Event
	for _, e := range n.Ledger {
		if e.Dir == "tx" && (id < 0 || e.Sink == id) {
			out = append(out, e)
		}
	}
	return out
}
