package simnet

import (
	"encoding/binary"
	"fmt"
	"net/netip"
	"strings"

	"verif/refcodec"
)

// The reply catalogue (DESIGN.md E3): every wire form real devices produce for
// a probe. A form is named by a string so that scenarios stay plain data.
//
//	te28 teFull teExt teOptsN(6..15) teQttl0 teQttl1 teQttl64 teQcsum teQtos      time exceeded (v4; teFull/teExt/teQ* also v6)
//	duPort duHost duAdmin                                                        destination unreachable
//	echo                                                                         echo reply
//	synack rst rstack                                                            TCP direct replies to a SYN
//	sack1 sack2 sack3 sackTS sackEmpty plainack                                         duplicate ACKs to a SACK probe
var ICMPErrForms4 = []string{"te28", "teFull", "teExt", "teOpts6", "teOpts15", "teQttl0", "teQttl64", "teQcsum", "teQtos"}
var ICMPErrForms6 = []string{"teFull", "teExt", "teQttl0", "teQttl64", "teQ16", "teQtos"}
var DUForms = []string{"duPort", "duHost", "duAdmin"}

// BuildCtx carries what direct TCP replies need beyond the probe.
type BuildCtx struct {
	ServerSeq uint32 // sequence number the target uses
	// SACK: relative sequence numbers (TTL values) currently held out-of-order by the target, most recent first
	SackInitSeq uint32 // driver's localInitSeq (=ack number the target keeps sending)
	SackHeld    []uint8
	TSVal       uint32
}

func isTE(form string) bool { return strings.HasPrefix(form, "te") }
func isDU(form string) bool { return strings.HasPrefix(form, "du") }

// IsICMPError reports whether the form is an ICMP error quoting the probe.
func IsICMPError(form string) bool { return isTE(form) || isDU(form) }

// WithIPOptions returns the same IPv4 datagram with options in its own header (IHL words, 6..15: a router-alert option,
// then no-operation padding): everything after the header moves by 4*(words-5) bytes.
func WithIPOptions(v4 []byte, words int) ([]byte, error) {
	q, err := refcodec.Parse(v4)
	if err != nil || q.V != 4 || q.IHL != 20 || words < 6 || words > 15 {
		return nil, fmt.Errorf("ip options: an IPv4 datagram without options, 6..15 words")
	}
	opts := make([]byte, words*4-20)
	for i := range opts {
		opts[i] = 1
	}
	opts[0], opts[1], opts[2], opts[3] = 0x94, 4, 0, 0
	return refcodec.IPv4(q.Src, q.Dst, q.Proto, refcodec.IPv4Opts{TTL: q.TTL, ID: q.IPID, TOS: v4[1], FragWord: binary.BigEndian.Uint16(v4[6:]), Options: opts}, append([]byte{}, v4[20:]...)), nil
}

// Build constructs the reply of the given form to probe p, sent by from to the probe's source.
func Build(form string, p *refcodec.Packet, from netip.Addr, c BuildCtx) ([]byte, error) {
	if inner, ok := strings.CutPrefix(form, "v6mapped:"); ok {
		// the same direct reply, but carried in an IPv6 datagram between the IPv4-mapped forms (::ffff:a.b.c.d) of the two
		// addresses: another address family, hence another sender, whatever its payload says
		if p.V != 4 {
			return nil, fmt.Errorf("v6mapped: IPv4 probes only")
		}
		v4, err := Build(inner, p, from, c)
		if err != nil {
			return nil, err
		}
		q, err := refcodec.Parse(v4)
		if err != nil || q.IHL+8 > len(v4) {
			return nil, fmt.Errorf("v6mapped: cannot re-wrap %s", inner)
		}
		l4 := append([]byte{}, v4[q.IHL:]...)
		src, dst := netip.AddrFrom16(q.Src.As16()), netip.AddrFrom16(q.Dst.As16())
		proto := q.Proto
		switch q.Proto {
		case refcodec.ProtoICMP:
			proto = refcodec.ProtoICMPv6
			if l4[0] == 11 || l4[0] == 3 {
				// an ICMP error: the ICMPv6 counterpart (time exceeded 3/0, destination unreachable 1/4 port, 1/1 otherwise)
				// quoting an IPv6 header between the mapped forms of the quoted addresses; its payload-length field carries
				// the quoted IPv4 identification (the number an IPv6 UDP/TCP quote is identified by), then the quoted transport bytes
				if len(l4) < 8+20 {
					return nil, fmt.Errorf("v6mapped: error without a quoted header")
				}
				qv4 := l4[8:]
				qihl := int(qv4[0]&0x0f) * 4
				if qihl < 20 || len(qv4) < qihl {
					return nil, fmt.Errorf("v6mapped: bad quoted header")
				}
				t6, c6 := byte(3), byte(0)
				if l4[0] == 3 {
					t6, c6 = 1, 1
					if l4[1] == 3 {
						c6 = 4
					}
				}
				qsrc, _ := netip.AddrFromSlice(qv4[12:16])
				qdst, _ := netip.AddrFromSlice(qv4[16:20])
				q6 := make([]byte, 40)
				q6[0] = 0x60
				copy(q6[4:6], qv4[4:6]) // payload length := quoted identification
				q6[6], q6[7] = qv4[9], 1
				s16, d16 := netip.AddrFrom16(qsrc.As16()).As16(), netip.AddrFrom16(qdst.As16()).As16()
				copy(q6[8:], s16[:])
				copy(q6[24:], d16[:])
				m := append([]byte{t6, c6, 0, 0, 0, 0, 0, 0}, q6...)
				m = append(m, qv4[qihl:]...)
				binary.BigEndian.PutUint16(m[2:], refcodec.L4Checksum(src, dst, proto, m))
				return refcodec.Wrap(src, dst, proto, 60, 0, m), nil
			}
			if l4[0] != 0 {
				return nil, fmt.Errorf("v6mapped: echo replies and errors among the ICMP forms")
			}
			l4[0] = 129
			l4[2], l4[3] = 0, 0
			binary.BigEndian.PutUint16(l4[2:], refcodec.L4Checksum(src, dst, proto, l4))
		case refcodec.ProtoTCP:
			l4[16], l4[17] = 0, 0
			binary.BigEndian.PutUint16(l4[16:], refcodec.L4Checksum(src, dst, proto, l4))
		}
		return refcodec.Wrap(src, dst, proto, 60, 0, l4), nil
	}
	to := p.Src
	raw := p.Raw
	// "<form>:q<N>": the same ICMP error quoting only the IP header and the first N bytes behind it (the quoted header's own
	// length fields still describe the whole original datagram)
	quoteCut := -1
	if i := strings.Index(form, ":q"); i > 0 && IsICMPError(form) {
		fmt.Sscanf(form[i+2:], "%d", &quoteCut)
		form = form[:i]
	}
	switch {
	case isTE(form) || isDU(form):
		q := append([]byte{}, raw...)
		// the quoted header as the expiring router saw it: TTL 1, checksum consistent
		if p.V == 4 {
			q[8] = 1
			refcodec.FixIPv4Checksum(q)
		} else {
			q[7] = 1
		}
		var typ, code uint8
		if p.V == 4 {
			typ, code = 11, 0
			switch form {
			case "duPort":
				typ, code = 3, 3
			case "duHost":
				typ, code = 3, 1
			case "duAdmin":
				typ, code = 3, 13
			}
		} else {
			typ, code = 3, 0
			switch form {
			case "duPort":
				typ, code = 1, 4
			case "duHost":
				typ, code = 1, 3
			case "duAdmin":
				typ, code = 1, 1
			}
		}
		var rest [4]byte
		var outerOpts []byte
		switch {
		case form == "te28":
			if p.V == 4 && len(q) > p.IHL+8 {
				q = q[:p.IHL+8]
			}
		case form == "teQ16":
			// a router that quotes only the IPv6 header and the first 16 bytes behind it (the quoted header's own length field
			// still gives the original payload length)
			if p.V == 6 && len(q) > 40+16 {
				q = q[:40+16]
			}
		case form == "teExt":
			// RFC 4884: original datagram padded to 128 bytes, then an extension structure with one MPLS label stack object
			for len(q) < 128 {
				q = append(q, 0)
			}
			q = q[:128]
			if p.V == 4 {
				rest[1] = 128 / 4
			} else {
				rest[0] = 128 / 8 // ICMPv6: the length attribute is the first octet, in 64-bit words
			}
			obj := []byte{0, 8, 1, 1, 0x00, 0x06, 0x41, 0x01} // length 8, class 1 (MPLS), c-type 1, one label entry
			ext := append([]byte{0x20, 0, 0, 0}, obj...)
			binary.BigEndian.PutUint16(ext[2:], refcodec.Checksum(ext))
			q = append(q, ext...)
		case strings.HasPrefix(form, "teOpts"):
			var ihlWords int
			fmt.Sscanf(form, "teOpts%d", &ihlWords)
			n := ihlWords*4 - 20
			outerOpts = make([]byte, n)
			for i := range outerOpts {
				outerOpts[i] = 1 // NOP
			}
			if n >= 4 {
				outerOpts[0], outerOpts[1], outerOpts[2], outerOpts[3] = 0x94, 4, 0, 0 // router alert
			}
		case form == "teQttl0":
			if p.V == 4 {
				q[8] = 0
				refcodec.FixIPv4Checksum(q)
			} else {
				q[7] = 0
			}
		case form == "teQttl64":
			if p.V == 4 {
				q[8] = 64
				refcodec.FixIPv4Checksum(q)
			} else {
				q[7] = 64
			}
		case form == "teQcsum":
			if p.V == 4 {
				q[10], q[11] = 0xde, 0xad
			}
		case form == "teQtos":
			if p.V == 4 {
				q[1] = 0xb8
				refcodec.FixIPv4Checksum(q)
			} else {
				// traffic class 0xb8 (DSCP EF): high nibble in byte 0, low nibble in byte 1
				q[0] = 0x6b
				q[1] = q[1]&0x0f | 0x80
			}
		}
		if quoteCut >= 0 {
			h := 40
			if p.V == 4 {
				h = p.IHL
			}
			if len(q) > h+quoteCut {
				q = q[:h+quoteCut]
			}
		}
		if p.V == 4 {
			m := refcodec.ICMP(4, from, to, typ, code, rest, q)
			return refcodec.IPv4(from, to, refcodec.ProtoICMP, refcodec.IPv4Opts{TTL: 60, ID: 0x5151, Options: outerOpts}, m), nil
		}
		if len(q) > 1280-48 {
			q = q[:1280-48]
		}
		m := refcodec.ICMP(6, from, to, typ, code, rest, q)
		return refcodec.IPv6(from, to, refcodec.ProtoICMPv6, 60, m), nil
	case form == "echo":
		var rest [4]byte
		binary.BigEndian.PutUint16(rest[0:], p.EchoID)
		binary.BigEndian.PutUint16(rest[2:], p.EchoSeq)
		if p.V == 4 {
			m := refcodec.ICMP(4, from, to, 0, 0, rest, p.ICMPBody)
			return refcodec.IPv4(from, to, refcodec.ProtoICMP, refcodec.IPv4Opts{TTL: 60, ID: 0x6161}, m), nil
		}
		m := refcodec.ICMP(6, from, to, 129, 0, rest, p.ICMPBody)
		return refcodec.IPv6(from, to, refcodec.ProtoICMPv6, 60, m), nil
	case form == "tcpack" || form == "tcpfinack" || form == "tcppshack" || form == "tcpsyn":
		// segments of an established connection from the target port, acknowledging the probe's sequence number
		// ("tcpsyn": a bare SYN from the target port - simultaneous open, a split-handshake server: neither SYN-ACK nor RST)
		flags := map[string]uint8{"tcpack": refcodec.ACK, "tcpfinack": refcodec.ACK | refcodec.FIN, "tcppshack": refcodec.ACK | refcodec.PSH, "tcpsyn": refcodec.SYN}[form]
		var payload []byte
		if form == "tcppshack" {
			payload = []byte("HTTP/1.1 400\r\n")
		}
		t := refcodec.TCP(from, to, p.DstPort, p.SrcPort, c.ServerSeq, p.Seq+1, flags, 502, nil, payload)
		return refcodec.Wrap(from, to, refcodec.ProtoTCP, 60, 0, t), nil
	case form == "synack" || form == "rst" || form == "rstack":
		var flags uint8
		var ack uint32
		var opts []byte
		switch form {
		case "synack":
			flags, ack = refcodec.SYN|refcodec.ACK, p.Seq+1
			opts = refcodec.OptMSS(1460)
		case "rst":
			flags, ack = refcodec.RST, 0
		case "rstack":
			flags, ack = refcodec.RST|refcodec.ACK, p.Seq+1
		}
		t := refcodec.TCP(from, to, p.DstPort, p.SrcPort, c.ServerSeq, ack, flags, 0, opts, nil)
		return refcodec.Wrap(from, to, refcodec.ProtoTCP, 60, 0, t), nil
	case strings.HasPrefix(form, "sack") || form == "plainack" || form == "plainackTS":
		var opts []byte
		if form == "sackTS" || form == "plainackTS" {
			opts = append(opts, refcodec.OptNop()...)
			opts = append(opts, refcodec.OptNop()...)
			opts = append(opts, refcodec.OptTimestamps(c.TSVal, 0)...)
		}
		if form == "sack0" || form == "sackHalf" {
			// a SACK option that holds no complete block (length 2, or 6: half a block): selective acknowledgement negotiated, nothing reported
			opts = append(opts, refcodec.OptNop()...)
			opts = append(opts, refcodec.OptNop()...)
			if form == "sack0" {
				opts = append(opts, 5, 2)
			} else {
				opts = append(opts, 5, 6, 0, 0, 0, 1)
			}
			for len(opts)%4 != 0 {
				opts = append(opts, 1)
			}
		} else if form != "plainack" && form != "plainackTS" {
			blocks := sackBlocks(c.SackInitSeq, c.SackHeld)
			max := 3
			switch form {
			case "sack1":
				max = 1
			case "sack2":
				max = 2
			}
			if form == "sackTS" {
				max = 3
			}
			if len(blocks) > max {
				blocks = blocks[:max]
			}
			if form == "sackEmpty" {
				// one block whose edges coincide (no stack reports that; a middlebox or an off-path sender can)
				blocks = [][2]uint32{{c.SackInitSeq + 1, c.SackInitSeq + 1}}
			}
			opts = append(opts, refcodec.OptNop()...)
			opts = append(opts, refcodec.OptNop()...)
			opts = append(opts, refcodec.OptSack(blocks...)...)
		}
		t := refcodec.TCP(from, to, p.DstPort, p.SrcPort, c.ServerSeq, c.SackInitSeq, refcodec.ACK, 509, opts, nil)
		return refcodec.Wrap(from, to, refcodec.ProtoTCP, 60, 0x7171, t), nil
	}
	return nil, fmt.Errorf("unknown reply form %q", form)
}

// sackBlocks returns the SACK blocks a receiver holding the given one-byte
// segments (relative sequence numbers, most recently received first) reports:
// the block containing the most recent segment first (RFC 2018), adjacent segments merged.
// SackMinTTL returns the lowest relative sequence number (TTL) the SACK blocks of a reply of the given form report.
func SackMinTTL(form string, held []uint8) int {
	blocks := sackBlocks(0, held)
	max := 3
	switch form {
	case "sack1":
		max = 1
	case "sack2":
		max = 2
	}
	if len(blocks) > max {
		blocks = blocks[:max]
	}
	min := -1
	for _, b := range blocks {
		if min < 0 || int(b[0]) < min {
			min = int(b[0])
		}
	}
	return min
}

func sackBlocks(init uint32, held []uint8) [][2]uint32 {
	have := map[uint8]bool{}
	for _, h := range held {
		have[h] = true
	}
	var blocks [][2]uint32
	done := map[uint8]bool{}
	for _, h := range held {
		if done[h] {
			continue
		}
		lo, hi := h, h
		for lo > 0 && have[lo-1] {
			lo--
		}
		for hi < 255 && have[hi+1] {
			hi++
		}
		for x := int(lo); x <= int(hi); x++ {
			done[uint8(x)] = true
		}
		blocks = append(blocks, [2]uint32{init + uint32(lo), init + uint32(hi) + 1})
	}
	return blocks
}

// ---- perturbations ---------------------------------------------------------------------

// Perturb is one single-field modification of a reply.
type Perturb struct {
	Field string `json:"field"`
	Op    string `json:"op"`
	Other uint32 `json:"other,omitempty"` // value for op "other"
}

func applyOp16(v uint16, op string, other uint32) uint16 {
	switch op {
	case "+1":
		return v + 1
	case "-1":
		return v - 1
	case "+256":
		return v + 256
	case "-256":
		return v - 256
	case "swap":
		return v<<8 | v>>8
	case "zero":
		return 0
	case "other":
		return uint16(other)
	}
	panic("bad op " + op)
}

func applyOp32(v uint32, op string, other uint32) uint32 {
	switch op {
	case "+1":
		return v + 1
	case "-1":
		return v - 1
	case "+256":
		return v + 256
	case "-256":
		return v - 256
	case "swap":
		return v<<24 | (v&0xff00)<<8 | (v>>8)&0xff00 | v>>24
	case "zero":
		return 0
	case "other":
		return other
	}
	panic("bad op " + op)
}

// perturbAddr changes one address in place: +1/-1 on the last byte, +256 on the second to last, swap reverses, zero clears, other sets the last byte.
func perturbAddr(a []byte, op string, other uint32) {
	n := len(a)
	switch op {
	case "+1":
		a[n-1]++
	case "-1":
		a[n-1]--
	case "+256":
		a[n-2]++
	case "-256":
		a[n-2]--
	case "swap":
		for i, j := 0, n-1; i < j; i, j = i+1, j-1 {
			a[i], a[j] = a[j], a[i]
		}
	case "zero":
		for i := range a {
			a[i] = 0
		}
	case "other":
		a[n-1] ^= byte(other) | 0x40
	}
}

// layout locates the parts of a reply.
type layout struct {
	v      int
	ihl    int // outer header length
	l4     int // offset of outer L4
	isICMP bool
	q      int // offset of quoted IP header (ICMP errors), -1 otherwise
	qihl   int
	ql4    int // offset of quoted L4
	qproto uint8
}

func locate(b []byte) (layout, error) {
	var l layout
	l.q = -1
	if len(b) < 20 {
		return l, fmt.Errorf("short")
	}
	l.v = int(b[0] >> 4)
	var proto uint8
	if l.v == 4 {
		l.ihl = int(b[0]&0xf) * 4
		proto = b[9]
	} else {
		l.ihl = 40
		proto = b[6]
	}
	l.l4 = l.ihl
	if proto == refcodec.ProtoICMP || proto == refcodec.ProtoICMPv6 {
		l.isICMP = true
		t := b[l.l4]
		isErr := (proto == refcodec.ProtoICMP && (t == 11 || t == 3)) || (proto == refcodec.ProtoICMPv6 && (t == 3 || t == 1))
		if isErr {
			l.q = l.l4 + 8
			if l.v == 4 {
				l.qihl = int(b[l.q]&0xf) * 4
				l.qproto = b[l.q+9]
			} else {
				l.qihl = 40
				l.qproto = b[l.q+6]
			}
			l.ql4 = l.q + l.qihl
		}
	}
	return l, nil
}

// fixChecksums recomputes the checksums a sender of this (perturbed) packet would have computed.
func fixChecksums(b []byte, l layout) {
	var src, dst netip.Addr
	if l.v == 4 {
		src, dst = netip.AddrFrom4([4]byte(b[12:16])), netip.AddrFrom4([4]byte(b[16:20]))
	} else {
		src, dst = netip.AddrFrom16([16]byte(b[8:24])), netip.AddrFrom16([16]byte(b[24:40]))
	}
	m := b[l.l4:]
	var proto uint8
	if l.v == 4 {
		proto = b[9]
	} else {
		proto = b[6]
	}
	switch proto {
	case refcodec.ProtoICMP:
		m[2], m[3] = 0, 0
		binary.BigEndian.PutUint16(m[2:], refcodec.Checksum(m))
	case refcodec.ProtoICMPv6:
		m[2], m[3] = 0, 0
		ps := make([]byte, 40)
		s, d := src.As16(), dst.As16()
		copy(ps, s[:])
		copy(ps[16:], d[:])
		binary.BigEndian.PutUint32(ps[32:], uint32(len(m)))
		ps[39] = refcodec.ProtoICMPv6
		binary.BigEndian.PutUint16(m[2:], refcodec.Checksum(ps, m))
	case refcodec.ProtoTCP:
		m[16], m[17] = 0, 0
		var ps []byte
		if l.v == 4 {
			ps = make([]byte, 12)
			s, d := src.As4(), dst.As4()
			copy(ps, s[:])
			copy(ps[4:], d[:])
			ps[9] = refcodec.ProtoTCP
			binary.BigEndian.PutUint16(ps[10:], uint16(len(m)))
		} else {
			ps = make([]byte, 40)
			s, d := src.As16(), dst.As16()
			copy(ps, s[:])
			copy(ps[16:], d[:])
			binary.BigEndian.PutUint32(ps[32:], uint32(len(m)))
			ps[39] = refcodec.ProtoTCP
		}
		binary.BigEndian.PutUint16(m[16:], refcodec.Checksum(ps, m))
	}
	if l.v == 4 {
		refcodec.FixIPv4Checksum(b)
	}
}

// Fields lists the identifying fields of a reply of the given form to a probe of the given kind.
// kind: icmp4 icmp6 udp4 udp6 tcp (syn, default ids) tcpparis sack
func Fields(kind, form string) []string {
	if IsICMPError(form) {
		switch kind {
		case "icmp4", "icmp6":
			return []string{"q.src", "q.dst", "q.echoid", "q.echoseq", "q.proto"}
		case "udp4":
			return []string{"q.src", "q.dst", "q.sport", "q.dport", "q.ipid", "q.proto"}
		case "udp6":
			return []string{"q.src", "q.dst", "q.sport", "q.dport", "q.len", "q.proto"}
		case "tcp":
			return []string{"q.src", "q.dst", "q.sport", "q.dport", "q.ipid", "q.seq", "q.proto"}
		case "tcpparis":
			return []string{"q.src", "q.dst", "q.sport", "q.dport", "q.seq", "q.proto"}
		case "sack":
			return []string{"q.src", "q.dst", "q.sport", "q.dport", "q.seq", "q.proto"}
		}
	}
	switch form {
	case "echo":
		return []string{"outer.src", "echo.id", "echo.seq"}
	case "synack", "rstack":
		return []string{"outer.src", "outer.dst", "tcp.sport", "tcp.dport", "tcp.ack"}
	case "rst":
		return []string{"outer.src", "outer.dst", "tcp.sport", "tcp.dport"}
	}
	if strings.HasPrefix(form, "sack") {
		return []string{"outer.src", "outer.dst", "tcp.sport", "tcp.dport", "sack.left"}
	}
	return nil
}

// Apply performs one perturbation on a copy of the reply.
func (pt Perturb) Apply(in []byte) ([]byte, error) {
	b := append([]byte{}, in...)
	l, err := locate(b)
	if err != nil {
		return nil, err
	}
	alen := 4
	srcOff, dstOff := 12, 16
	if l.v == 6 {
		alen = 16
		srcOff, dstOff = 8, 24
	}
	u16 := func(off int) {
		binary.BigEndian.PutUint16(b[off:], applyOp16(binary.BigEndian.Uint16(b[off:]), pt.Op, pt.Other))
	}
	u32 := func(off int) {
		binary.BigEndian.PutUint32(b[off:], applyOp32(binary.BigEndian.Uint32(b[off:]), pt.Op, pt.Other))
	}
	needQ := strings.HasPrefix(pt.Field, "q.")
	if needQ && l.q < 0 {
		return nil, fmt.Errorf("field %s: not an ICMP error", pt.Field)
	}
	switch pt.Field {
	case "outer.src":
		perturbAddr(b[srcOff:srcOff+alen], pt.Op, pt.Other)
	case "outer.dst":
		perturbAddr(b[dstOff:dstOff+alen], pt.Op, pt.Other)
	case "q.src":
		perturbAddr(b[l.q+srcOff:l.q+srcOff+alen], pt.Op, pt.Other)
		if l.v == 4 {
			refcodec.FixIPv4Checksum(b[l.q : l.q+l.qihl])
		}
	case "q.dst":
		if pt.Op == "responder" {
			// the responder reports on a datagram that was addressed to ITSELF (a nearer target of another run)
			copy(b[l.q+dstOff:l.q+dstOff+alen], b[srcOff:srcOff+alen])
		} else {
			perturbAddr(b[l.q+dstOff:l.q+dstOff+alen], pt.Op, pt.Other)
		}
		if l.v == 4 {
			refcodec.FixIPv4Checksum(b[l.q : l.q+l.qihl])
		}
	case "q.ihl":
		// the quoted header claims another length (IP options): what follows its first 20 bytes is then not the transport
		// header, and the quoted packet is not one this tool sent (its probes never carry options)
		v := map[string]byte{"+1": 6, "-1": 4, "+256": 7, "-256": 15, "swap": 8, "zero": 0, "other": 10}[pt.Op]
		b[l.q] = b[l.q]&0xf0 | v
		if n := int(v) * 4; v >= 5 && l.q+n <= len(b) {
			refcodec.FixIPv4Checksum(b[l.q : l.q+n])
		}
	case "q.proto":
		// the quoted datagram is of another transport protocol (same addresses, same leading transport bytes): not a packet
		// this run sent
		off := l.q + 9
		if l.v == 6 {
			off = l.q + 6
		}
		p := b[off]
		var np byte
		switch pt.Op {
		case "+1":
			np = p + 1
		case "-1":
			np = p - 1
		case "+256", "swap":
			np = map[bool]byte{true: 17, false: 6}[p == 6]
		case "-256":
			np = 132
		case "zero":
			np = 0
		default:
			np = map[bool]byte{true: 17, false: 1}[p == 1 || p == 58]
			if l.v == 6 && np == 1 {
				np = 58
			}
		}
		b[off] = np
		if l.v == 4 {
			refcodec.FixIPv4Checksum(b[l.q : l.q+l.qihl])
		}
	case "q.ipid":
		u16(l.q + 4)
		refcodec.FixIPv4Checksum(b[l.q : l.q+l.qihl])
	case "q.len": // IPv6 payload length of the quoted header (the UDPv6 per-probe identifier)
		u16(l.q + 4)
	case "q.sport":
		u16(l.ql4)
	case "q.dport":
		u16(l.ql4 + 2)
	case "q.seq":
		u32(l.ql4 + 4)
	case "q.echoid":
		u16(l.ql4 + 4)
	case "q.echoseq":
		u16(l.ql4 + 6)
	case "echo.id":
		u16(l.l4 + 4)
	case "echo.seq":
		u16(l.l4 + 6)
	case "tcp.sport":
		u16(l.l4)
	case "tcp.dport":
		u16(l.l4 + 2)
	case "tcp.ack":
		u32(l.l4 + 8)
	case "sack.left":
		// first SACK block's left edge: find option kind 5
		off := l.l4 + 20
		end := l.l4 + int(b[l.l4+12]>>4)*4
		found := false
		for off < end {
			k := b[off]
			if k == 0 {
				break
			}
			if k == 1 {
				off++
				continue
			}
			ln := int(b[off+1])
			if k == 5 && ln >= 10 {
				// shift the whole first block so that it stays a valid block
				d := applyOp32(binary.BigEndian.Uint32(b[off+2:]), pt.Op, pt.Other) - binary.BigEndian.Uint32(b[off+2:])
				binary.BigEndian.PutUint32(b[off+2:], binary.BigEndian.Uint32(b[off+2:])+d)
				binary.BigEndian.PutUint32(b[off+6:], binary.BigEndian.Uint32(b[off+6:])+d)
				found = true
				break
			}
			if ln < 2 {
				break
			}
			off += ln
		}
		if !found {
			return nil, fmt.Errorf("no SACK option")
		}
	default:
		return nil, fmt.Errorf("unknown field %q", pt.Field)
	}
	fixChecksums(b, l)
	return b, nil
}
