#!/bin/bash
# Build the framework from files on disk only and warm the build cache (offline).
cd "$(dirname "$0")"
. ./env.sh
mkdir -p bin evidence replays
$VGO build -o bin/vinstr ./cmd/vinstr || exit 1
W=".work/setup.$$"; mkdir -p "$W"
./bin/vinstr -repo "$VERIF_REPO" -out "$W" -verif "$(pwd)" || exit 1
$VGO build -tags verif -modfile="$W/go.mod" -overlay "$W/overlay.json" -o "$W/vworker" ./cmd/vworker || exit 1
$VGO build -race -tags verif -modfile="$W/go.mod" -overlay "$W/overlay.json" -o "$W/vworker.race" ./cmd/vworker || exit 1
rm -rf "$W"
echo "setup ok"
