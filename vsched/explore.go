package vsched

import "time"

// Stateless depth-first exploration of the choice tree of one scenario
// (DESIGN.md E1): replay a prefix, take option 0 afterwards, then branch on
// every later point whose accumulated deviation cost stays within the bound.

type Stats struct {
	Executions int64 // complete executions run
	Nodes      int64 // tree nodes visited = distinct (choice prefix) decision points reached
	Steps      int64 // scheduler steps executed
	MaxPoints  int   // max choice points in one execution
	Bound      int   // completed deviation bound
	Capped     bool  // an execution/node cap was hit: exploration of this scenario is incomplete
	Diverged   int64
	Retried    int64 // replays repeated because the prefix did not line up (kernel-chosen ports)
	Resynced   int64 // replays accepted without the signature check
	Horizon    int64
	ByOutcome  [5]int64
	CostHist   [8]int64 // executions by deviation cost
}

func (a *Stats) Add(b Stats) {
	a.Executions += b.Executions
	a.Nodes += b.Nodes
	a.Steps += b.Steps
	if b.MaxPoints > a.MaxPoints {
		a.MaxPoints = b.MaxPoints
	}
	a.Capped = a.Capped || b.Capped
	a.Diverged += b.Diverged
	a.Retried += b.Retried
	a.Resynced += b.Resynced
	a.Horizon += b.Horizon
	for i := range a.ByOutcome {
		a.ByOutcome[i] += b.ByOutcome[i]
	}
	for i := range a.CostHist {
		a.CostHist[i] += b.CostHist[i]
	}
}

type Explorer struct {
	Bound    int
	MaxExecs int64 // 0 = unlimited
	// RunOne executes the scenario with the given choice prefix.
	RunOne func(prefix []int, sig []uint32) *Exec
	// Check is called for every complete execution; returning false stops the exploration.
	Check func(x *Exec, cost int) bool
	Stats Stats
}

type frame struct {
	prefix []int
	sig    []uint32
	cost   int
}

// ExploreDeadline, when set, is the wall-clock instant after which explorations stop starting new executions. The worker
// sets it per scenario: a change to the code under test that multiplies the schedules of a scenario (more threads, more
// blocking points) costs coverage of that scenario, not the whole check.
var ExploreDeadline time.Time

// Explore runs the exploration; it returns false if Check stopped it.
func (e *Explorer) Explore() bool {
	e.Stats.Bound = e.Bound
	stack := []frame{{}}
	for len(stack) > 0 {
		f := stack[len(stack)-1]
		stack = stack[:len(stack)-1]
		if e.MaxExecs > 0 && e.Stats.Executions >= e.MaxExecs {
			e.Stats.Capped = true
			return true
		}
		if !ExploreDeadline.IsZero() && e.Stats.Executions%32 == 0 && time.Now().After(ExploreDeadline) {
			// the wall-clock budget of this scenario is used up: what was explored stands, the scenario is reported as capped
			// (the check's evidence then says exhaustive=false); never a verdict
			e.Stats.Capped = true
			return true
		}
		x := e.RunOne(f.prefix, f.sig)
		if x.Outcome == Diverged && len(f.prefix) > 0 {
			// The option sets of a replayed prefix differ from the parent's. The only nondeterminism the harness does not
			// own is the kernel's choice of ephemeral ports (e.g. a UDP socket and a TCP listener of two concurrent runs
			// receiving the same number adds a lookup, hence scheduling points). Retry; if the prefix still does not
			// line up, replay the choices without the signature check: the execution is still a real execution of the
			// implementation and is judged by the oracle like any other, only its position in the tree is approximate.
			for k := 0; k < 2 && x.Outcome == Diverged; k++ {
				e.Stats.Retried++
				x = e.RunOne(f.prefix, f.sig)
			}
			if x.Outcome == Diverged {
				e.Stats.Resynced++
				x = e.RunOne(f.prefix, nil)
			}
			if x.Outcome == Diverged {
				e.Stats.Capped = true // the choices themselves no longer apply: this subtree is skipped and the run is not exhaustive
				e.Stats.Diverged++
				continue
			}
		}
		e.Stats.Executions++
		e.Stats.Steps += int64(x.Steps)
		e.Stats.ByOutcome[x.Outcome]++
		if len(x.Points) > e.Stats.MaxPoints {
			e.Stats.MaxPoints = len(x.Points)
		}
		if x.Outcome == Diverged {
			e.Stats.Diverged++
		}
		if x.Outcome == Horizon {
			e.Stats.Horizon++
		}
		if f.cost < len(e.Stats.CostHist) {
			e.Stats.CostHist[f.cost]++
		}
		e.Stats.Nodes += int64(len(x.Points) - len(f.prefix) + 1)
		if !e.Check(x, f.cost) {
			return false
		}
		if x.Outcome == Diverged {
			continue
		}
		choices := x.Choices()
		sigs := x.Sigs()
		// push alternatives in reverse so that the shallowest/lowest alternative is explored first
		cost := f.cost
		type alt struct {
			i, a, c int
		}
		var alts []alt
		for i := len(f.prefix); i < len(x.Points); i++ {
			p := x.Points[i]
			for a := 1; a < p.N; a++ {
				c := cost + p.Cost(a)
				if c <= e.Bound {
					alts = append(alts, alt{i, a, c})
				}
			}
			cost += p.Cost(p.Chosen) // always 0 past the prefix (default option), kept for clarity
		}
		for k := len(alts) - 1; k >= 0; k-- {
			al := alts[k]
			np := make([]int, al.i+1)
			copy(np, choices[:al.i])
			np[al.i] = al.a
			stack = append(stack, frame{prefix: np, sig: sigs[: al.i+1 : al.i+1], cost: al.c})
		}
	}
	return true
}
