//go:build !race

package vsched

import "unsafe"

// RaceMode reports whether the binary was built with the race detector.
const RaceMode = false

func raceDisable() {}
func raceEnable()  {}

func RaceAcquire(p unsafe.Pointer)      {}
func RaceRelease(p unsafe.Pointer)      {}
func RaceReleaseMerge(p unsafe.Pointer) {}
func RaceErrors() int                   { return 0 }
func raceSpawn(t *Thread)               {}
func raceThreadStart(t *Thread)         {}
func raceThreadEnd(t *Thread)           {}
func RaceJoin(t *Thread)                {}
