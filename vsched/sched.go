// Package vsched is the controlled scheduler, virtual clock and choice recorder
// under which the instrumented repository code runs (DESIGN.md E1, Appendix A).
//
// Exactly one managed thread runs at a time (it "holds the token"). Scheduling
// decisions are taken by whichever thread is at a scheduling point, directly
// (no controller round trip): if the decision is "continue", the call returns;
// otherwise the chosen thread's resume channel is signalled and the caller
// parks. All decisions with more than one option are recorded as choice points,
// replayable from a prefix.
//
// Everything in this package is //go:norace: in race mode (C14) the hand-offs
// must not create happens-before edges in the detector (see race.go).
package vsched

import (
	"fmt"
	"reflect"
	"runtime/debug"
	"strings"
	"sync"
	"sync/atomic"
	"time"
	"unsafe"
)

// Waiter is what a blocked thread waits for. Ready must be side-effect free.
type Waiter interface{ Ready() bool }

// Firer is a timer callback; it runs in scheduler context (token held, no
// scheduling points allowed inside).
type Firer interface{ Fire() }

type never struct{}

//go:norace
func (never) Ready() bool { return false }

// Never is a Waiter that is never ready (sleep).
var Never Waiter = never{}

type Outcome int

const (
	Normal Outcome = iota
	Deadlock
	Crash
	Horizon
	Diverged
)

func (o Outcome) String() string {
	return [...]string{"normal", "deadlock", "crash", "horizon", "diverged"}[o]
}

type tstate uint8

const (
	tsReady tstate = iota
	tsRunning
	tsBlocked
	tsDone
)

type Thread struct {
	ID       int
	Name     string
	st       tstate
	w        Waiter
	deadline int64 // virtual ns, -1 = none
	label    string
	resume   chan struct{}
	exited   chan struct{}
	fn       func()
	started  bool
	// race-mode tokens (addresses used for thread join / create edges)
	tok  byte
	stok byte
}

type Timer struct {
	at      int64
	seq     int
	f       Firer
	stopped bool
	fired   bool
}

const (
	KindSched  = 'S'
	KindChoose = 'C'
	KindFree   = 'F'
)

// Point is one recorded decision with more than one option.
type Point struct {
	Kind       byte
	N          int  // number of options
	Chosen     int  // option taken
	CurEnabled bool // (KindSched) the running thread was among the options => alternatives are preemptions
	HasAdv     bool // (KindSched) last option is "advance the clock to the next timer"
	Delay      bool // (KindSched) delay-bounded mode: every non-default option costs one deviation
	Sig        uint32
	Label      string
}

// Cost of taking alternative alt at this point (0 = free, 1 = one deviation).
func (p Point) Cost(alt int) int {
	switch p.Kind {
	case KindSched:
		if p.HasAdv && alt == p.N-1 {
			return 1
		}
		if (p.CurEnabled || p.Delay) && alt != 0 {
			return 1
		}
		return 0
	case KindChoose:
		if alt != 0 {
			return 1
		}
		return 0
	}
	return 0
}

type Config struct {
	// DelayBounded: also count as a deviation the choice of a non-default thread when the running thread cannot
	// continue (delay-bounded scheduling). Without it such switches are free and all orders of simultaneously enabled
	// threads are explored, which is exponential in the number of concurrently blocked threads.
	DelayBounded   bool
	ClockDeviation bool
	MaxSteps       int           // 0 = default 200000
	MaxVirtual     time.Duration // 0 = default 1h
	Prefix         []int
	PrefixSig      []uint32 // optional: expected signatures for the prefix (divergence check)
	Trace          bool
}

type CrashInfo struct {
	Thread string
	Value  string
	Stack  string
}

type Exec struct {
	Outcome   Outcome
	Points    []Point
	Steps     int
	Virtual   time.Duration
	Crash     *CrashInfo
	Blocked   []string // on deadlock: the threads and what they wait for
	DivergeAt int
	Threads   int
	TraceLog  []string
	Prefix    []int // the choice prefix this execution was asked to replay
}

func (x *Exec) Choices() []int {
	c := make([]int, len(x.Points))
	for i, p := range x.Points {
		c[i] = p.Chosen
	}
	return c
}

func (x *Exec) Sigs() []uint32 {
	c := make([]uint32, len(x.Points))
	for i, p := range x.Points {
		c[i] = p.Sig
	}
	return c
}

type Sched struct {
	cfg      Config
	threads  []*Thread
	cur      *Thread
	now      int64
	base     time.Time
	timers   []*Timer
	tseq     int
	pos      int
	points   []Point
	steps    int
	maxSteps int
	maxVirt  int64
	ended    bool
	outcome  Outcome
	aborting bool
	done     chan struct{}
	closed   map[uintptr]any
	rv       map[uintptr]*rendez   // unbuffered channels: parked senders, deposited values, waiting receivers
	pend     map[*Thread]*pendSend // the unbuffered send a thread is in the middle of (between SendCh and SendDone)
	crash    *CrashInfo
	blocked  []string
	diverge  int
	trace    []string
	idBuf    []int
	optBuf   []*Thread
	// Env is per-execution harness state (simnet etc.)
	Env any
}

var active *Sched

type abortT struct{}

var abortSentinel = &abortT{}

// Active returns the running scheduler (nil outside executions).
//
//go:norace
func Active() *Sched { return active }

// InThread reports whether shim operations should go through the scheduler.
// It is false outside executions and while an execution is being unwound.
//
//go:norace
func InThread() bool { return active != nil && !active.aborting }

// Aborting reports whether the current execution is being unwound (shim
// operations must then be no-ops).
//
//go:norace
func Aborting() bool { return active != nil && active.aborting }

// Run executes main as thread 0 under a fresh scheduler and returns the record.
//
//go:norace
func Run(cfg Config, env any, main func()) *Exec {
	if active != nil {
		panic("vsched: nested Run")
	}
	s := &Sched{cfg: cfg, base: time.Now(), done: make(chan struct{}), closed: map[uintptr]any{}, Env: env, diverge: -1}
	s.maxSteps = cfg.MaxSteps
	if s.maxSteps == 0 {
		s.maxSteps = 200000
	}
	s.maxVirt = int64(cfg.MaxVirtual)
	if s.maxVirt == 0 {
		s.maxVirt = int64(time.Hour)
	}
	t0 := &Thread{}
	raceSpawn(t0)
	raceDisable()
	active = s
	progressCtr.Add(1)
	inExec.Store(true)
	s.startThread(t0, "main", main)
	t0.st = tsRunning
	s.cur = t0
	t0.resume <- struct{}{}
	<-s.done
	// unwind whatever is left, one thread at a time
	s.aborting = true
	for _, t := range s.threads {
		if t.st != tsDone {
			t.resume <- struct{}{}
			<-t.exited
		}
	}
	active = nil
	inExec.Store(false)
	progressCtr.Add(1)
	raceEnable()
	// everything the execution's threads did happens-before whatever the caller (and the next execution) does
	for _, t := range s.threads {
		RaceJoin(t)
	}
	x := &Exec{Outcome: s.outcome, Points: s.points, Steps: s.steps, Virtual: time.Duration(s.now), Crash: s.crash,
		Blocked: s.blocked, DivergeAt: s.diverge, Threads: len(s.threads), TraceLog: s.trace, Prefix: cfg.Prefix}
	return x
}

// progressCtr counts scheduling steps, decisions and execution starts/ends over the whole process; a worker's spin monitor
// reads it (Progress) to recognise a thread that burns CPU without ever reaching a scheduling point.
var progressCtr atomic.Uint64
var inExec atomic.Bool

// Progress reports whether an execution is in progress and the process-wide progress counter.
func Progress() (bool, uint64) { return inExec.Load(), progressCtr.Load() }

// CurrentChoices returns the decisions taken so far in the execution in progress. It is meant for a monitor that has
// established that the execution is stuck (the read is unsynchronised).
//
//go:norace
func CurrentChoices() []int {
	s := active
	if s == nil {
		return nil
	}
	var out []int
	for _, p := range s.points {
		out = append(out, p.Chosen)
	}
	return out
}

//go:norace
func (s *Sched) newThread(name string, fn func()) *Thread {
	t := &Thread{}
	s.startThread(t, name, fn)
	return t
}

//go:norace
func (s *Sched) startThread(t *Thread, name string, fn func()) {
	t.ID, t.Name, t.st, t.deadline, t.resume, t.exited, t.fn = len(s.threads), name, tsReady, -1, make(chan struct{}, 1), make(chan struct{}), fn
	s.threads = append(s.threads, t)
	go threadMain(s, t)
}

//go:norace
func threadMain(s *Sched, t *Thread) {
	defer close(t.exited)
	raceDisable()
	<-t.resume
	if s.aborting {
		t.st = tsDone
		return
	}
	raceEnable() // the thread body is what the detector should watch
	raceThreadStart(t)
	defer threadEnd(s, t)
	t.fn()
}

//go:norace
func threadEnd(s *Sched, t *Thread) {
	r := recover()
	if !s.aborting && (r == nil || r == any(abortSentinel)) {
		raceThreadEnd(t) // publish "everything this thread did" to whoever joins it (while sync events are still observed)
	}
	raceDisable()
	if s.aborting {
		t.st = tsDone
		return
	}
	if r != nil && r != any(abortSentinel) {
		if s.crash == nil {
			s.crash = &CrashInfo{Thread: t.Name, Value: fmt.Sprint(r), Stack: trimStack(string(debug.Stack()))}
		}
		t.st = tsDone
		s.finish(Crash)
		return
	}
	t.st = tsDone
	s.reschedule(t)
}

func trimStack(st string) string {
	lines := strings.Split(st, "\n")
	var out []string
	for i := 0; i+1 < len(lines); i += 1 {
		l := lines[i]
		if strings.Contains(l, "datadog-traceroute") || strings.Contains(l, "/repo/") || strings.HasPrefix(l, "panic") {
			out = append(out, strings.TrimSpace(l))
		}
		if len(out) > 24 {
			break
		}
	}
	return strings.Join(out, "\n")
}

//go:norace
func (s *Sched) finish(o Outcome) {
	if s.ended {
		return
	}
	s.ended = true
	s.outcome = o
	if o == Deadlock {
		for _, t := range s.threads {
			if t.st == tsBlocked || t.st == tsReady {
				s.blocked = append(s.blocked, fmt.Sprintf("%s#%d:%s", t.Name, t.ID, t.label))
			}
		}
	}
	close(s.done)
}

// timers are kept in a binary heap ordered by (at, seq); stopped timers are dropped lazily.
//
//go:norace
func (s *Sched) timerLess(i, j int) bool {
	a, b := s.timers[i], s.timers[j]
	return a.at < b.at || (a.at == b.at && a.seq < b.seq)
}

//go:norace
func (s *Sched) timerPush(tm *Timer) {
	s.timers = append(s.timers, tm)
	i := len(s.timers) - 1
	for i > 0 {
		p := (i - 1) / 2
		if !s.timerLess(i, p) {
			break
		}
		s.timers[i], s.timers[p] = s.timers[p], s.timers[i]
		i = p
	}
}

//go:norace
func (s *Sched) timerPop() {
	n := len(s.timers) - 1
	s.timers[0] = s.timers[n]
	s.timers[n] = nil
	s.timers = s.timers[:n]
	i := 0
	for {
		l, r, m := 2*i+1, 2*i+2, i
		if l < n && s.timerLess(l, m) {
			m = l
		}
		if r < n && s.timerLess(r, m) {
			m = r
		}
		if m == i {
			break
		}
		s.timers[i], s.timers[m] = s.timers[m], s.timers[i]
		i = m
	}
}

//go:norace
func (s *Sched) timerTop() *Timer {
	for len(s.timers) > 0 && (s.timers[0].stopped || s.timers[0].fired) {
		s.timerPop()
	}
	if len(s.timers) == 0 {
		return nil
	}
	return s.timers[0]
}

//go:norace
func (s *Sched) nextEvent() int64 {
	next := int64(-1)
	if tm := s.timerTop(); tm != nil {
		next = tm.at
	}
	for _, t := range s.threads {
		if t.st == tsBlocked && t.deadline >= 0 {
			if next < 0 || t.deadline < next {
				next = t.deadline
			}
		}
	}
	return next
}

//go:norace
func (s *Sched) fireDue() {
	for {
		tm := s.timerTop()
		if tm == nil || tm.at > s.now {
			return
		}
		s.timerPop()
		tm.fired = true
		tm.f.Fire()
	}
}

//go:norace
func (t *Thread) enabled(now int64) bool {
	switch t.st {
	case tsReady:
		return true
	case tsBlocked:
		if t.deadline >= 0 && t.deadline <= now {
			return true
		}
		return t.w.Ready()
	}
	return false
}

func sigOf(kind byte, ids []int, adv bool) uint32 {
	h := uint32(2166136261)
	h = (h ^ uint32(kind)) * 16777619
	for _, id := range ids {
		h = (h ^ uint32(id+1)) * 16777619
	}
	if adv {
		h = (h ^ 0xff) * 16777619
	}
	return h
}

// choose records a decision among n>1 options and returns the option taken.
//
//go:norace
func (s *Sched) choose(p Point) int {
	c := 0
	progressCtr.Add(1)
	if s.pos < len(s.cfg.Prefix) {
		c = s.cfg.Prefix[s.pos]
		bad := c < 0 || c >= p.N
		if !bad && s.pos < len(s.cfg.PrefixSig) && s.cfg.PrefixSig[s.pos] != p.Sig {
			bad = true
		}
		if bad {
			if s.diverge < 0 {
				s.diverge = s.pos
			}
			s.pos++
			p.Chosen = 0
			s.points = append(s.points, p)
			s.finish(Diverged)
			return -1
		}
	}
	s.pos++
	p.Chosen = c
	s.points = append(s.points, p)
	return c
}

// reschedule is called by the running thread t after it has set its own state
// (ready at a point, blocked, or done). It returns when t is chosen to run again.
//
//go:norace
func (s *Sched) reschedule(t *Thread) {
	for {
		ids := s.idBuf[:0]
		opts := s.optBuf[:0]
		if s.ended {
			s.park(t)
			return
		}
		s.fireDue()
		n := 0
		curEn := false
		if t.enabled(s.now) {
			opts = append(opts, t)
			ids = append(ids, t.ID)
			curEn = true
		}
		for _, o := range s.threads {
			if o != t && o.enabled(s.now) {
				opts = append(opts, o)
				ids = append(ids, o.ID)
			}
		}
		n = len(opts)
		s.idBuf, s.optBuf = ids, opts
		next := s.nextEvent()
		if n == 0 {
			alldone := true
			for _, o := range s.threads {
				if o.st != tsDone {
					alldone = false
					break
				}
			}
			if alldone {
				s.finish(Normal)
				return
			}
			if next < 0 {
				s.finish(Deadlock)
				s.park(t)
				return
			}
			if next > s.maxVirt {
				s.finish(Horizon)
				s.park(t)
				return
			}
			if next > s.now {
				s.now = next
			}
			continue
		}
		adv := s.cfg.ClockDeviation && next > s.now
		total := n
		if adv {
			total++
		}
		c := 0
		if total > 1 {
			c = s.choose(Point{Kind: KindSched, N: total, CurEnabled: curEn, HasAdv: adv, Delay: s.cfg.DelayBounded, Sig: sigOf(KindSched, ids[:n], adv), Label: t.label})
			if c < 0 {
				s.park(t)
				return
			}
		}
		if adv && c == total-1 {
			s.now = next
			continue
		}
		s.steps++
		progressCtr.Add(1)
		if s.steps > s.maxSteps {
			s.finish(Horizon)
			s.park(t)
			return
		}
		nxt := opts[c]
		if s.cfg.Trace {
			s.trace = append(s.trace, fmt.Sprintf("t=%d step=%d run %s#%d (%s)", s.now, s.steps, nxt.Name, nxt.ID, nxt.label))
		}
		nxt.st = tsRunning
		nxt.w = nil
		nxt.deadline = -1
		if nxt == t {
			return
		}
		s.cur = nxt
		nxt.resume <- struct{}{}
		s.park(t)
		return
	}
}

// park waits until t is resumed (or, if t is done, returns so its goroutine can exit).
//
//go:norace
func (s *Sched) park(t *Thread) {
	if t.st == tsDone {
		return
	}
	<-t.resume
	if s.aborting {
		t.st = tsDone // it will unwind now
		raceEnable()
		panic(abortSentinel)
	}
}

// ---- API for shims and harness -------------------------------------------------

// Yield is a plain scheduling point: the running thread stays enabled.
//
//go:norace
func Yield(label string) {
	s := active
	if s == nil || s.aborting {
		return
	}
	raceDisable()
	t := s.cur
	t.st = tsReady
	t.label = label
	s.reschedule(t)
	raceEnable()
}

// Block is a scheduling point at which the running thread can continue only
// when w is ready or the virtual deadline (ns, -1 = none) has been reached.
//
//go:norace
func Block(w Waiter, deadline int64, label string) {
	s := active
	if s == nil || s.aborting {
		return
	}
	raceDisable()
	t := s.cur
	t.st = tsBlocked
	t.w = w
	t.deadline = deadline
	t.label = label
	s.reschedule(t)
	raceEnable()
}

// Go starts fn as a new managed thread; the spawn is followed by a scheduling point.
//
//go:norace
func Go(fn func()) {
	s := active
	if s == nil {
		go fn()
		return
	}
	if s.aborting {
		return
	}
	nt := &Thread{}
	raceSpawn(nt) // before the hand-off code: the parent's past happens-before the child
	raceDisable()
	s.startThread(nt, "t", fn)
	raceEnable()
	Yield("go")
}

// Spawn starts fn as a new managed thread from scheduler context (a timer callback, a cancellation): no scheduling point,
// no happens-before edge (the caller publishes its own, see vtime.AfterFunc).
//
//go:norace
func Spawn(fn func()) {
	s := active
	if s == nil {
		go fn()
		return
	}
	if s.aborting {
		return
	}
	s.startThread(&Thread{}, "t", fn)
}

// Now returns virtual nanoseconds since the start of the execution.
//
//go:norace
func Now() int64 {
	if s := active; s != nil {
		return s.now
	}
	return 0
}

// Base returns the wall-clock instant virtual time 0 corresponds to.
//
//go:norace
func Base() time.Time {
	if s := active; s != nil {
		return s.base
	}
	return time.Time{}
}

// Advance moves the virtual clock forward by d (used by environment operations
// that cost time, e.g. a packet read). Due timers fire at the next decision.
//
//go:norace
func Advance(d int64) {
	if s := active; s != nil && !s.aborting {
		s.now += d
	}
}

// AddTimer registers f to fire at virtual time at.
//
//go:norace
func AddTimer(at int64, f Firer) *Timer {
	s := active
	if s == nil {
		panic("vsched.AddTimer outside an execution")
	}
	s.tseq++
	tm := &Timer{at: at, seq: s.tseq, f: f}
	s.timerPush(tm)
	return tm
}

// Stop cancels the timer; it reports whether the timer had not fired yet.
//
//go:norace
func (tm *Timer) Stop() bool {
	was := !tm.fired && !tm.stopped
	tm.stopped = true
	return was
}

// Choose is an environment choice point with n options; option 0 is the
// default, any other costs one deviation.
//
//go:norace
func Choose(n int, label string) int { return chooseKind(KindChoose, n, label) }

// ChooseFree is a choice point whose alternatives are all explored regardless
// of the deviation bound.
//
//go:norace
func ChooseFree(n int, label string) int { return chooseKind(KindFree, n, label) }

//go:norace
func chooseKind(kind byte, n int, label string) int {
	s := active
	if s == nil || s.aborting || n <= 1 {
		return 0
	}
	raceDisable()
	defer raceEnable()
	if s.ended {
		return 0
	}
	c := s.choose(Point{Kind: kind, N: n, Sig: sigOf(kind, []int{n}, false), Label: label})
	if c < 0 {
		t := s.cur
		t.st = tsReady
		s.park(t)
		return 0
	}
	return c
}

// LiveThreads returns the number of managed threads other than the caller that have not finished.
//
//go:norace
func LiveThreads() int {
	s := active
	if s == nil {
		return 0
	}
	n := 0
	for _, t := range s.threads {
		if t != s.cur && t.st != tsDone {
			n++
		}
	}
	return n
}

// Env returns the per-execution harness state.
//
//go:norace
func Env() any {
	if s := active; s != nil {
		return s.Env
	}
	return nil
}

// CurrentThread returns the id of the running managed thread (-1 outside).
//
//go:norace
func CurrentThread() int {
	if s := active; s != nil && s.cur != nil {
		return s.cur.ID
	}
	return -1
}

// ---- channels ------------------------------------------------------------------

//go:norace
func chanKey(ch any) uintptr { return reflect.ValueOf(ch).Pointer() }

// MarkClosed records that ch has been closed (so that receivers become enabled).
//
//go:norace
func MarkClosed(ch any) {
	if s := active; s != nil {
		s.closed[chanKey(ch)] = ch
	}
}

//go:norace
func isClosed(ch any) bool {
	if s := active; s != nil {
		_, ok := s.closed[chanKey(ch)]
		return ok
	}
	return false
}

type chanW[T any] struct{ ch <-chan T }

//go:norace
func (w chanW[T]) Ready() bool { return len(w.ch) > 0 || isClosed(w.ch) || rvHasSender(w.ch) }

// RecvCh is wrapped around the operand of every receive expression: it is the
// scheduling point of the receive, parks the thread until ch has a value or is
// closed, and returns ch so that the real receive then completes at once.
func RecvCh[T any](ch <-chan T) <-chan T {
	if InThread() {
		if ch == nil {
			Block(Never, -1, "recv(nil chan)")
		} else if cap(ch) == 0 {
			r := rvOf(ch)
			r.waiting++
			Block(chanW[T]{ch}, -1, "recv")
			r.waiting--
			if InThread() {
				if c := takeSender[T](ch); c != nil {
					return c
				}
			}
		} else {
			Block(chanW[T]{ch}, -1, "recv")
		}
		return ch
	}
	if Aborting() {
		c := make(chan T)
		close(c)
		return c
	}
	return ch
}

// Close is close(ch) under the scheduler.
func Close[T any](ch chan T) {
	if Aborting() {
		return
	}
	Yield("close")
	if InThread() {
		MarkClosed(ch)
	}
	close(ch)
}

type sendW[T any] struct{ ch chan<- T }

//go:norace
func (w sendW[T]) Ready() bool { return len(w.ch) < cap(w.ch) }

// ---- unbuffered channels: the rendezvous is emulated ---------------------------------------------------
//
// Only one managed thread runs at a time, so a real send on an unbuffered channel could never meet its receiver. The
// value of an unbuffered send travels through the scheduler instead: the statement `ch <- v` is rewritten to
// `{ vsched.SendCh(ch) <- v; vsched.SendDone() }`; for an unbuffered ch, SendCh hands out a one-slot proxy that takes v
// without blocking, and SendDone parks the thread as a sender (value attached) until a receiver has taken it. A receive
// (`<-vsched.RecvCh(ch)`) is enabled by a parked sender and is handed a one-slot proxy holding that sender's value.
// A select's send case on an unbuffered channel is ready when some thread is blocked with a receive interest in it; the
// case body deposits the value for that receiver without parking (SendNowCh / SendNowDone).

type rvSender struct {
	box    any // *T
	taken  bool
	parked bool // false: deposited by a select case for a receiver that was already waiting
	tok    byte // race detector: the send happens before the receive completes ...
	rtok   byte // ... and the receive happens before the (parked) send completes
}

type rendez struct {
	senders []*rvSender
	waiting int
}

type pendSend struct {
	ch  any
	get func() any
}

//go:norace
func rvOf(ch any) *rendez {
	s := active
	if s.rv == nil {
		s.rv = map[uintptr]*rendez{}
	}
	k := chanKey(ch)
	r := s.rv[k]
	if r == nil {
		r = &rendez{}
		s.rv[k] = r
	}
	return r
}

//go:norace
func rvHasSender(ch any) bool {
	s := active
	if s == nil || s.rv == nil {
		return false
	}
	r := s.rv[chanKey(ch)]
	return r != nil && len(r.senders) > 0
}

// rvWantsValue: some thread is blocked with a receive interest in ch and no deposited value is already on its way to it.
//
//go:norace
func rvWantsValue(ch any) bool {
	s := active
	if s == nil || s.rv == nil {
		return false
	}
	r := s.rv[chanKey(ch)]
	if r == nil {
		return false
	}
	dep := 0
	for _, sd := range r.senders {
		if !sd.parked {
			dep++
		}
	}
	return r.waiting > dep
}

//go:norace
func takeSender[T any](ch <-chan T) <-chan T {
	if !rvHasSender(ch) {
		return nil
	}
	r := rvOf(ch)
	sd := r.senders[0]
	r.senders = r.senders[1:]
	sd.taken = true
	RaceAcquire(unsafe.Pointer(&sd.tok))
	RaceRelease(unsafe.Pointer(&sd.rtok))
	c := make(chan T, 1)
	c <- *(sd.box.(*T))
	return c
}

type sentW struct {
	sd *rvSender
	ch any
}

//go:norace
func (w sentW) Ready() bool { return w.sd.taken || isClosed(w.ch) }

func proxyFor[T any](ch chan<- T) chan<- T {
	s := active
	p := make(chan T, 1)
	if s.pend == nil {
		s.pend = map[*Thread]*pendSend{}
	}
	s.pend[s.cur] = &pendSend{ch: ch, get: func() any { v := <-p; return &v }}
	return p
}

// SendCh is wrapped around the channel operand of every send statement; SendDone follows the statement.
func SendCh[T any](ch chan<- T) chan<- T {
	if InThread() {
		if ch == nil {
			Block(Never, -1, "send(nil chan)")
		}
		if cap(ch) == 0 {
			Yield("send(unbuffered)")
			if !InThread() {
				return make(chan T, 1)
			}
			if isClosed(ch) {
				panic("send on closed channel")
			}
			return proxyFor(ch)
		}
		Block(sendW[T]{ch}, -1, "send")
		return ch
	}
	if Aborting() {
		return make(chan T, 1)
	}
	return ch
}

// SendDone completes the unbuffered send the current thread has just made through a proxy: the thread parks, value
// attached, until a receiver has taken it.
func SendDone() {
	if !InThread() {
		return
	}
	s := active
	ps := s.pend[s.cur]
	if ps == nil {
		return
	}
	delete(s.pend, s.cur)
	sd := &rvSender{box: ps.get(), parked: true}
	RaceRelease(unsafe.Pointer(&sd.tok))
	r := rvOf(ps.ch)
	r.senders = append(r.senders, sd)
	Block(sentW{sd, ps.ch}, -1, "send(unbuffered): waiting for a receiver")
	if InThread() && !sd.taken {
		panic("send on closed channel")
	}
	RaceAcquire(unsafe.Pointer(&sd.rtok))
}

// RecvNow is wrapped around the operand of the receive that is the communication of a chosen select case.
func RecvNow[T any](ch <-chan T) <-chan T {
	if InThread() && ch != nil && cap(ch) == 0 {
		if c := takeSender[T](ch); c != nil {
			return c
		}
	}
	return ch
}

// SendNowCh / SendNowDone: the send that is the communication of a chosen select case.
func SendNowCh[T any](ch chan<- T) chan<- T {
	if InThread() && ch != nil && cap(ch) == 0 {
		return proxyFor(ch)
	}
	if Aborting() {
		return make(chan T, 1)
	}
	return ch
}

func SendNowDone() {
	if !InThread() {
		return
	}
	s := active
	ps := s.pend[s.cur]
	if ps == nil {
		return
	}
	delete(s.pend, s.cur)
	r := rvOf(ps.ch)
	sd := &rvSender{box: ps.get()}
	RaceRelease(unsafe.Pointer(&sd.tok))
	r.senders = append(r.senders, sd)
}

// SendCase marks a select case as a send.
type sendCase struct{ ch any }

func SendCase(ch any) any { return sendCase{ch} }

type selW struct {
	chans []reflect.Value
	send  []bool
}

//go:norace
func (w selW) readyIdx() int {
	for i, c := range w.chans {
		if !c.IsValid() || c.IsNil() {
			continue
		}
		if w.send[i] {
			if c.Len() < c.Cap() || (c.Cap() == 0 && rvWantsValue(c.Interface())) {
				return i
			}
		} else if c.Len() > 0 || isClosed(c.Interface()) || rvHasSender(c.Interface()) {
			return i
		}
	}
	return -1
}

//go:norace
func (w selW) Ready() bool { return w.readyIdx() >= 0 }

// pick returns the index of the case that proceeds. Go chooses uniformly at random among the ready cases: that choice
// belongs to the environment, so with more than one ready case it is an enumerated (free) choice point.
func (w selW) pick() int {
	var ready []int
	for i, c := range w.chans {
		if !c.IsValid() || c.IsNil() {
			continue
		}
		if w.send[i] {
			if c.Len() < c.Cap() || (c.Cap() == 0 && rvWantsValue(c.Interface())) {
				ready = append(ready, i)
			}
		} else if c.Len() > 0 || isClosed(c.Interface()) || rvHasSender(c.Interface()) {
			ready = append(ready, i)
		}
	}
	switch len(ready) {
	case 0:
		return -1
	case 1:
		return ready[0]
	}
	return ready[ChooseFree(len(ready), "select-among-ready-cases")]
}

// Select is the scheduling point of a rewritten select statement: it parks until
// some case can proceed and returns its index (an enumerated choice when several are ready); with a
// default clause it never parks and returns -1 when nothing is ready. The
// communication itself is then performed by the case body.
func Select(hasDefault bool, chans ...any) int {
	if Aborting() {
		return -2
	}
	if !InThread() {
		panic("vsched.Select outside an execution")
	}
	w := selW{chans: make([]reflect.Value, len(chans)), send: make([]bool, len(chans))}
	for i, c := range chans {
		if sc, ok := c.(sendCase); ok {
			w.send[i] = true
			c = sc.ch
		}
		w.chans[i] = reflect.ValueOf(c)
	}
	if hasDefault {
		Yield("select-default")
		return w.pick()
	}
	// a thread parked in a select has a receive interest in each unbuffered channel of its receive cases
	var interested []*rendez
	for k, c := range w.chans {
		if !w.send[k] && c.IsValid() && !c.IsNil() && c.Cap() == 0 {
			r := rvOf(c.Interface())
			r.waiting++
			interested = append(interested, r)
		}
	}
	Block(w, -1, "select")
	for _, r := range interested {
		r.waiting--
	}
	if !InThread() {
		return -2
	}
	i := w.pick()
	if i < 0 {
		panic("vsched.Select: woken with no ready case")
	}
	return i
}

var _ sync.Locker = (*sync.Mutex)(nil)
