//go:build race

package vsched

import (
	"runtime"
	"unsafe"
)

// RaceMode reports whether the binary was built with the race detector.
const RaceMode = true

//go:norace
func raceDisable() { runtime.RaceDisable() }

//go:norace
func raceEnable() { runtime.RaceEnable() }

// RaceAcquire/RaceRelease/RaceReleaseMerge publish the happens-before edges the
// real primitive behind a shim would publish. They are no-ops in normal builds.
//
//go:norace
func RaceAcquire(p unsafe.Pointer) { runtime.RaceAcquire(p) }

//go:norace
func RaceRelease(p unsafe.Pointer) { runtime.RaceRelease(p) }

//go:norace
func RaceReleaseMerge(p unsafe.Pointer) { runtime.RaceReleaseMerge(p) }

// RaceErrors is the detector's running report count.
//
//go:norace
func RaceErrors() int { return runtime.RaceErrors() }

// raceSpawn/raceThreadStart publish the edge of the go statement (parent before the spawn -> child), which the
// runtime does not establish while sync events are ignored. They must be called with sync events observed.
//
//go:norace
func raceSpawn(t *Thread) { runtime.RaceRelease(unsafe.Pointer(&t.stok)) }

//go:norace
func raceThreadStart(t *Thread) { runtime.RaceAcquire(unsafe.Pointer(&t.stok)) }

//go:norace
func raceThreadEnd(t *Thread) { runtime.RaceReleaseMerge(unsafe.Pointer(&t.tok)) }

// RaceJoin publishes "thread t has finished" to the caller (used by WaitGroup-like shims that track threads).
//
//go:norace
func RaceJoin(t *Thread) { runtime.RaceAcquire(unsafe.Pointer(&t.tok)) }
