package vsched

import (
	"fmt"
	"sort"
	"testing"
	"time"
)

// exploreAll runs body under every schedule with at most bound preemptions and returns the distinct outcome strings.
func exploreAll(t *testing.T, bound int, body func() string) map[string]int {
	outs := map[string]int{}
	var last string
	e := &Explorer{Bound: bound}
	e.RunOne = func(prefix []int, sig []uint32) *Exec {
		return Run(Config{Prefix: prefix, PrefixSig: sig, MaxVirtual: time.Minute}, nil, func() { last = body() })
	}
	e.Check = func(x *Exec, cost int) bool {
		switch x.Outcome {
		case Normal:
			outs[last]++
		default:
			outs[fmt.Sprintf("outcome=%v blocked=%v crash=%v", x.Outcome, x.Blocked, x.Crash)]++
		}
		return true
	}
	e.Explore()
	t.Logf("executions=%d outcomes=%v", e.Stats.Executions, outs)
	return outs
}

type fire func()

func (f fire) Fire() { f() }

type cnt struct{ n, want *int }

func (c cnt) Ready() bool { return *c.n >= *c.want }

func join(n *int, want int) { Block(cnt{n, &want}, -1, "join") }

func keys(m map[string]int) []string {
	var k []string
	for s := range m {
		k = append(k, s)
	}
	sort.Strings(k)
	return k
}

func TestUnbufferedPlainSendRecv(t *testing.T) {
	outs := exploreAll(t, 2, func() string {
		ch := make(chan int)
		done := 0
		var got []int
		after := ""
		Go(func() {
			SendCh(ch) <- 7
			SendDone()
			after += "s"
			done++
		})
		Go(func() {
			SendCh(ch) <- 8
			SendDone()
			after += "s"
			done++
		})
		Go(func() {
			got = append(got, <-RecvCh(ch))
			after += "r"
			got = append(got, <-RecvCh(ch))
			after += "r"
			done++
		})
		join(&done, 3)
		sort.Ints(got)
		// a sender never gets past its send before a receive has happened
		if after[0] != 'r' {
			return "sender-ran-ahead " + after
		}
		return fmt.Sprint(got)
	})
	if k := keys(outs); len(k) != 1 || k[0] != "[7 8]" {
		t.Fatalf("outcomes: %v", outs)
	}
}

func TestUnbufferedSelectBothSides(t *testing.T) {
	outs := exploreAll(t, 2, func() string {
		ch := make(chan string)
		quit := make(chan struct{})
		done := 0
		res := ""
		Go(func() { // select-sender
			switch Select(false, SendCase(ch), quit) {
			case 0:
				SendNowCh(ch) <- "v"
				SendNowDone()
				res += "sent;"
			case 1:
				<-RecvNow(quit)
				res += "quit;"
			}
			done++
		})
		Go(func() { // select-receiver
			switch Select(false, ch, quit) {
			case 0:
				v := <-RecvNow(ch)
				res += "got " + v + ";"
			case 1:
				res += "rquit;"
			}
			done++
		})
		join(&done, 2)
		return res
	})
	for _, k := range keys(outs) {
		if k != "sent;got v;" && k != "got v;sent;" {
			t.Fatalf("unexpected outcome %q (%v)", k, outs)
		}
	}
}

func TestUnbufferedSendWithNoReceiverDeadlocks(t *testing.T) {
	outs := exploreAll(t, 1, func() string {
		ch := make(chan int)
		SendCh(ch) <- 1
		SendDone()
		return "returned"
	})
	for _, k := range keys(outs) {
		if k == "returned" {
			t.Fatalf("a send on an unbuffered channel with no receiver returned: %v", outs)
		}
	}
}

func TestUnbufferedSelectSendNeedsWaitingReceiver(t *testing.T) {
	outs := exploreAll(t, 2, func() string {
		ch := make(chan int)
		res := ""
		done := 0
		Go(func() {
			// non-blocking send: only succeeds if a receiver is already waiting
			switch Select(true, SendCase(ch)) {
			case 0:
				SendNowCh(ch) <- 5
				SendNowDone()
				res += "sent;"
			default:
				res += "dropped;"
			}
			done++
		})
		Go(func() {
			tmo := make(chan struct{}, 1)
			AddTimer(Now()+int64(time.Second), fire(func() { tmo <- struct{}{} }))
			switch Select(false, ch, tmo) {
			case 0:
				res += fmt.Sprintf("got %d;", <-RecvNow(ch))
			case 1:
				res += "timeout;"
			}
			done++
		})
		join(&done, 2)
		return res
	})
	ok := map[string]bool{"dropped;timeout;": true, "sent;got 5;": true}
	for _, k := range keys(outs) {
		if !ok[k] {
			t.Fatalf("unexpected outcome %q (%v)", k, outs)
		}
	}
	if len(outs) != 2 {
		t.Fatalf("both outcomes expected: %v", outs)
	}
}

func TestCloseWakesUnbufferedReceiver(t *testing.T) {
	outs := exploreAll(t, 2, func() string {
		ch := make(chan int)
		done := 0
		res := ""
		Go(func() {
			v, ok := <-RecvCh(ch)
			res = fmt.Sprint(v, ok)
			done++
		})
		Go(func() { Close(ch); done++ })
		join(&done, 2)
		return res
	})
	if k := keys(outs); len(k) != 1 || k[0] != "0 false" {
		t.Fatalf("outcomes: %v", outs)
	}
}
